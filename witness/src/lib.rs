//! Type-level witnesses (E4).  Every `compile_fail,E0xxx` doc-test is paired with a compiling
//! twin that differs only in the offending line, so a witness cannot pass because a path is
//! merely misspelt.  Run with `cargo +nightly test --doc` (stable ignores the error code).

/// C30.COW — assigning through a shared `Node` must not type-check (no `DerefMut`).
/// ```compile_fail,E0594
/// use apollo_compiler::Node;
/// let mut node: Node<i32> = Node::new(1);
/// *node = 2; // Node<T> only implements Deref
/// assert_eq!(*node, 2);
/// ```
/// twin:
/// ```
/// use apollo_compiler::Node;
/// let mut node: Node<i32> = Node::new(1);
/// *node.make_mut() = 2; // copy-on-write access
/// assert_eq!(*node, 2);
/// ```
pub mod c30_cow {}

/// C30.COW (clone isolation at the type level) — a clone cannot be mutated through `&Node`.
/// ```compile_fail,E0596
/// use apollo_compiler::Node;
/// let node: Node<Vec<i32>> = Node::new(vec![1]);
/// let clone = node.clone();
/// clone.make_mut().push(2); // needs `&mut Node`
/// ```
/// twin:
/// ```
/// use apollo_compiler::Node;
/// let node: Node<Vec<i32>> = Node::new(vec![1]);
/// let mut clone = node.clone();
/// clone.make_mut().push(2);
/// assert_eq!(*node, vec![1]);
/// ```
pub mod c30_cow_clone {}

/// C30.SENDSYNC — Name and Node are Send + Sync (compile-pass witness) and a `Node<Rc<..>>`
/// is not (compile-fail twin, so the helper is known to discriminate).
/// ```
/// fn assert_send_sync<T: Send + Sync>() {}
/// assert_send_sync::<apollo_compiler::Name>();
/// assert_send_sync::<apollo_compiler::Node<str>>();
/// assert_send_sync::<apollo_compiler::Node<apollo_compiler::ast::Value>>();
/// ```
/// ```compile_fail,E0277
/// fn assert_send_sync<T: Send + Sync>() {}
/// assert_send_sync::<apollo_compiler::Node<std::rc::Rc<str>>>();
/// ```
pub mod c30_send_sync {}

/// C31.SHARE — shared documents are Send + Sync.
/// ```
/// fn assert_send_sync<T: Send + Sync>() {}
/// assert_send_sync::<apollo_compiler::Schema>();
/// assert_send_sync::<apollo_compiler::validation::Valid<apollo_compiler::Schema>>();
/// assert_send_sync::<apollo_compiler::ExecutableDocument>();
/// assert_send_sync::<apollo_parser::SyntaxTree>();
/// assert_send_sync::<apollo_compiler::parser::SourceFile>();
/// ```
/// ```compile_fail,E0277
/// fn assert_send_sync<T: Send + Sync>() {}
/// assert_send_sync::<std::rc::Rc<apollo_compiler::Schema>>();
/// ```
pub mod c31_send_sync {}

/// C31.SHARE / C16.PURE — a validated schema cannot be mutated through `&Valid<Schema>`.
/// ```compile_fail,E0596
/// use apollo_compiler::{Schema, validation::Valid};
/// fn f(schema: &Valid<Schema>) {
///     schema.types.clear(); // Valid<T> only implements Deref
/// }
/// ```
/// twin:
/// ```
/// use apollo_compiler::{Schema, validation::Valid};
/// fn f(schema: Valid<Schema>) -> Schema {
///     let mut schema = schema.into_inner(); // explicit un-validation
///     schema.types.clear();
///     schema
/// }
/// ```
pub mod c31_valid_immutable {}
