"""Program model over the extracted facts: functions, CFGs, dominators, access paths,
call graph, SCCs."""
import re
import sys
from collections import defaultdict

from . import facts as F

sys.setrecursionlimit(100000)


class AnchorError(Exception):
    """A named function/type/field a rule's slots refer to no longer resolves."""


class Undecided(Exception):
    """A rule instance uses an idiom outside the rule's enumerated idioms."""


# --------------------------------------------------------------------------------------
# MIR helpers


def op_place(op):
    """operand -> place (local, proj) or None for constants"""
    if op[0] in ("c", "m"):
        return op[1]
    return None


def op_local(op):
    p = op_place(op)
    if p is not None and not p[1]:
        return p[0]
    return None


def op_const(op):
    """operand -> (ty, val, extra) for constants else None"""
    if op[0] == "k":
        return (op[1], op[2], op[3])
    return None


def proj_str(proj):
    out = []
    for e in proj:
        if e == "*":
            out.append("*")
        elif e[0] == "f":
            out.append(str(e[2]) if e[2] is not None else str(e[1]))
        elif e[0] == "d":
            out.append("as:" + str(e[2] if e[2] is not None else e[1]))
        elif e[0] == "i":
            out.append("[_%d]" % e[1])
        elif e[0] == "ci":
            out.append("[%s%d]" % ("-" if e[3] else "", e[1]))
        elif e[0] == "sub":
            out.append("[%d..%s%d]" % (e[1], "-" if e[3] else "", e[2]))
        else:
            out.append("?")
    return out


class Call:
    __slots__ = ("fn", "block", "callee", "args", "dest", "target", "unwind", "line", "col", "expn")

    def __init__(self, fn, block, term):
        self.fn = fn
        self.block = block
        self.callee = term[1]
        self.args = term[2]
        self.dest = term[3]
        self.target = term[4]
        self.unwind = term[5]
        self.line, self.col, self.expn = term[6]

    @property
    def name(self):
        """resolved callee name if resolved, else the unresolved (trait) method name"""
        c = self.callee
        return c.get("name") or c.get("orig_name") or ("<%s>" % c.get("kind"))

    @property
    def orig_name(self):
        return self.callee.get("orig_name") or self.name

    @property
    def uid(self):
        c = self.callee
        if c.get("kind") == "closure_once_shim" and c.get("closure"):
            return c["closure"]
        return c.get("def") or c.get("orig")

    @property
    def kind(self):
        return self.callee.get("kind")

    def loc(self):
        return "%s:%d" % (self.fn.file, self.line)

    def __repr__(self):
        return "<call %s at %s bb%d>" % (self.name, self.loc(), self.block)


class Fn:
    def __init__(self, uid, d, crate):
        self.uid = uid
        self.d = d
        self.crate = crate
        self.name = d["name"]
        self.kind = d["kind"]
        self.blocks = d["blocks"]
        self.locals = d["locals"]
        self.argc = d["argc"]
        sp = d["span"]
        self.file = sp[0]
        self.line_lo, self.line_hi = sp[1], sp[3]
        if d.get("callsite"):
            cs = d["callsite"]
            self.file = cs[0]
            self.line_lo, self.line_hi = cs[1], cs[3]
        self.macro = d.get("macro")
        self.parent = d.get("parent")
        self.root = d.get("root")
        self.impl = d.get("impl")
        self._succ = None
        self._pred = None
        self._dom = None
        self._calls = None
        self._defs = None

    def __repr__(self):
        return "<fn %s>" % self.name

    def loc(self, line=None):
        return "%s:%d" % (self.file, line if line is not None else self.line_lo)

    def local_ty(self, l):
        return self.locals[l][0]

    def local_name(self, l):
        return self.locals[l][1]

    # ---- CFG
    def term(self, b):
        return self.blocks[b]["t"]

    def stmts(self, b):
        return self.blocks[b]["s"]

    def is_cleanup(self, b):
        return self.blocks[b]["c"]

    def succ(self, b, unwind=False):
        t = self.blocks[b]["t"]
        k = t[0]
        out = []
        if k == "goto":
            out = [t[1]]
        elif k == "switch":
            out = [x[1] for x in t[2]] + [t[3]]
        elif k == "call":
            if t[4] is not None:
                out.append(t[4])
            if unwind and t[5] is not None:
                out.append(t[5])
        elif k == "drop":
            out = [t[3]]
            if unwind and t[4] is not None:
                out.append(t[4])
        elif k == "assert":
            out = [t[4]]
            if unwind and t[5] is not None:
                out.append(t[5])
        elif k == "yield":
            out = [t[2]]
        return out

    def succs(self):
        if self._succ is None:
            self._succ = [list(dict.fromkeys(self.succ(b))) for b in range(len(self.blocks))]
        return self._succ

    def preds(self):
        if self._pred is None:
            p = [[] for _ in self.blocks]
            for b, ss in enumerate(self.succs()):
                for s in ss:
                    p[s].append(b)
            self._pred = p
        return self._pred

    def reachable_blocks(self, starts=(0,), avoid=()):
        """blocks reachable from `starts` along non-unwind edges without entering `avoid`
        (start blocks themselves are included even if in avoid? no: excluded)."""
        avoid = set(avoid)
        seen = set()
        stack = [s for s in starts if s not in avoid]
        succ = self.succs()
        while stack:
            b = stack.pop()
            if b in seen:
                continue
            seen.add(b)
            for s in succ[b]:
                if s not in seen and s not in avoid:
                    stack.append(s)
        return seen

    def return_blocks(self):
        return [b for b in range(len(self.blocks)) if self.blocks[b]["t"][0] == "ret"]

    def live_blocks(self):
        return self.reachable_blocks((0,))

    def dominators(self):
        """immediate-dominator based dominator sets over the non-unwind CFG from block 0"""
        if self._dom is not None:
            return self._dom
        succ = self.succs()
        n = len(self.blocks)
        # reverse postorder
        order = []
        seen = [False] * n
        stack = [(0, iter(succ[0]))]
        seen[0] = True
        while stack:
            b, it = stack[-1]
            adv = False
            for s in it:
                if not seen[s]:
                    seen[s] = True
                    stack.append((s, iter(succ[s])))
                    adv = True
                    break
            if not adv:
                order.append(b)
                stack.pop()
        rpo = list(reversed(order))
        idx = {b: i for i, b in enumerate(rpo)}
        preds = self.preds()
        idom = {0: 0}

        def intersect(a, b):
            while a != b:
                while idx[a] > idx[b]:
                    a = idom[a]
                while idx[b] > idx[a]:
                    b = idom[b]
            return a

        changed = True
        while changed:
            changed = False
            for b in rpo[1:]:
                ps = [p for p in preds[b] if p in idom]
                if not ps:
                    continue
                new = ps[0]
                for p in ps[1:]:
                    new = intersect(new, p)
                if idom.get(b) != new:
                    idom[b] = new
                    changed = True
        self._dom = idom
        return idom

    def dominates(self, a, b):
        """does block a dominate block b (non-unwind CFG)?"""
        idom = self.dominators()
        if b not in idom:
            return False
        while True:
            if a == b:
                return True
            if b == 0:
                return False
            b = idom[b]

    # ---- calls
    def calls(self):
        if self._calls is None:
            cs = []
            for b, blk in enumerate(self.blocks):
                if blk["t"][0] == "call":
                    cs.append(Call(self, b, blk["t"]))
            self._calls = cs
        return self._calls

    def live_calls(self):
        live = self.live_blocks()
        return [c for c in self.calls() if c.block in live]

    def calls_to(self, pat):
        rx = re.compile(pat)
        return [c for c in self.live_calls() if rx.search(c.name) or rx.search(c.orig_name)]

    def call_at(self, b):
        t = self.blocks[b]["t"]
        return Call(self, b, t) if t[0] == "call" else None

    # ---- definitions of locals
    def defs(self):
        """local -> list of (block, stmt_index or 'term', rvalue-or-call)"""
        if self._defs is None:
            d = defaultdict(list)
            for b, blk in enumerate(self.blocks):
                for i, s in enumerate(blk["s"]):
                    if s[0] == "=":
                        pl = s[1]
                        d[pl[0]].append((b, i, s[2], bool(pl[1])))
                t = blk["t"]
                if t[0] == "call":
                    pl = t[3]
                    d[pl[0]].append((b, "term", ("callret", Call(self, b, t)), bool(pl[1])))
            self._defs = d
        return self._defs

    def single_def(self, l):
        """the unique whole-local definition of l, or None"""
        ds = [x for x in self.defs().get(l, []) if not x[3]]
        if len(ds) == 1:
            d = ds[0]
            # a local initialised with a constant whose address is taken mutably (e.g. a flag
            # captured by a closure) can change behind our back: not a single definition
            if d[2][0] == "use" and d[2][1][0] == "k" and l in self.mut_borrowed():
                return None
            return d
        return None

    def mut_borrowed(self):
        """locals whose own storage is mutably borrowed (`&mut _l` / `&mut _l.field`)"""
        if getattr(self, "_mutb", None) is None:
            mb = set()
            for blk in self.blocks:
                for s in blk["s"]:
                    if s[0] == "=" and s[2][0] in ("ref", "raw") and (s[2][1] == "mut" or "Mut" in str(s[2][1])):
                        pl = s[2][2]
                        if "*" not in pl[1]:
                            mb.add(pl[0])
            self._mutb = mb
        return self._mutb

    TRANSPARENT = re.compile(
        r"(::Deref>?::deref$|::deref::Deref::deref$|::DerefMut::deref_mut$|::AsRef::as_ref$|"
        r"::Borrow::borrow$|::Clone::clone$|Option::<.*>::as_ref$|Option::<T>::as_ref$|"
        r"Option::<T>::as_mut$|Option::<T>::as_deref$|::as_str$|::Node::<T>::as_ref|"
        r"::clone::Clone::clone$|::borrow::Borrow::borrow$|::convert::AsRef::as_ref$|"
        r"::convert::Into::into$|::convert::From::from$|Option::<T>::copied$|Option::<&T>::copied$|"
        r"Option::<&T>::cloned$|::as_deref$|::as_mut$)"
    )

    def apath(self, place_or_local, depth=0, transparent=True):
        """Access path of a place as a tuple (root, *projections).  root is one of
        'arg<N>' / 'ret' / 'call:<callee>@bb' / 'const:<v>' / 'tmp<N>' / 'agg:...'.
        Follows single-definition temporaries through Use/Ref/Cast and transparent calls."""
        if isinstance(place_or_local, int):
            local, proj = place_or_local, []
        else:
            local, proj = place_or_local
        ps = proj_str(proj)
        if depth > 30:
            return ("tmp%d" % local,) + tuple(ps)
        if 1 <= local <= self.argc:
            return ("arg%d" % local,) + tuple(ps)
        sd = self.single_def(local)
        if sd is None:
            nm = self.local_name(local)
            return (("var:%s" % nm) if nm else ("tmp%d" % local),) + tuple(ps)
        rv = sd[2]
        k = rv[0]
        if k == "use":
            op = rv[1]
            pl = op_place(op)
            if pl is not None:
                return self.apath(pl, depth + 1, transparent) + tuple(ps)
            c = op_const(op)
            ex = c[2] if isinstance(c[2], dict) else {}
            if ex.get("pointee") and not c[1].startswith('"'):
                # `&CONST` / `&&"literal"`: show the value behind the reference
                return ("const:&%s" % ex["pointee"],) + tuple(ps)
            return ("const:%s" % c[1],) + tuple(ps)
        if k == "ref" or k == "raw":
            base = self.apath(rv[2], depth + 1, transparent)
            # &(*x).f followed by deref cancels
            if ps and ps[0] == "*":
                return base + tuple(ps[1:])
            return base + ("&",) + tuple(ps)
        if k == "cast":
            pl = op_place(rv[2])
            if pl is not None:
                return self.apath(pl, depth + 1, transparent) + tuple(ps)
        if k == "callret":
            call = rv[1]
            if transparent and self.TRANSPARENT.search(call.name) or (
                transparent and self.TRANSPARENT.search(call.orig_name)
            ):
                if call.args:
                    pl = op_place(call.args[0])
                    if pl is not None:
                        base = self.apath(pl, depth + 1, transparent)
                        return base + tuple(ps)
            return ("call:%s@%d" % (short(call.name), call.block),) + tuple(ps)
        if k == "agg":
            kind = rv[1]
            if isinstance(kind, list) and kind[0] == "adt":
                return ("agg:%s::%s@%d" % (short(kind[1]), kind[2], sd[0]),) + tuple(ps)
            # a field of a tuple built here (`match (a, b) { .. }`): the path of that operand
            if kind == "tuple" and proj and isinstance(proj[0], list) and proj[0][0] == "f" and proj[0][1] < len(rv[2]):
                opl = op_place(rv[2][proj[0][1]])
                if opl is not None:
                    return self.apath([opl[0], list(opl[1]) + list(proj[1:])], depth + 1, transparent)
            return ("agg@%d" % sd[0],) + tuple(ps)
        if k == "discr":
            return ("discr",) + self.apath(rv[1], depth + 1, transparent)
        nm = self.local_name(local)
        return (("var:%s" % nm) if nm else ("tmp%d" % local),) + tuple(ps)

    def apath_s(self, place_or_local):
        return norm_path(self.apath(place_or_local))

    # ---- symbolic expressions
    def sym(self, x, depth=0):
        """Symbolic expression (string) of an operand / place / local, following
        single-definition temporaries: e.g. `Ne(BitAnd(NonZero::get(arg1.tag_and_id), 9223372036854775808), 0)`.
        Locals with several definitions are printed as var:<name> / tmp<N>."""
        if depth > 25:
            return "..."
        if isinstance(x, int):
            place = [x, []]
        elif isinstance(x, list) and x and x[0] in ("c", "m", "k"):
            if x[0] == "k":
                ex = x[3]
                if x[1] == "bool" and "int" in ex:
                    return "const:true" if ex["int"] == "1" else "const:false"
                if "int" in ex:
                    return ex["int"]
                if ex.get("static_name"):
                    return "static:" + ex["static_name"]
                if ex.get("pointee") and not x[2].startswith('"'):
                    # `&CONST` (e.g. a promoted `&TokenKind::Name`): show the value behind it
                    return "&const:" + ex["pointee"]
                if ex.get("fn_name"):
                    return "fn:" + ex["fn_name"]
                return "const:" + x[2]
            place = x[1]
        else:
            place = x
        local, proj = place
        ps = [p for p in proj_str(proj)]
        def with_proj(base, ps=ps):
            out = base
            for p in ps:
                if p == "*":
                    if out.startswith("&"):
                        out = out[1:]
                    else:
                        out = "*" + out if not re.match(r"^(arg\d+|var:|tmp|static:)", out) else out
                else:
                    out = out + "." + p
            return out
        if 1 <= local <= self.argc:
            return with_proj("arg%d" % local)
        sd = self.single_def(local)
        if sd is None and getattr(self, "_sym_path", None):
            sd = self._def_on_path(local)
        if sd is None:
            nm = self.local_name(local)
            return with_proj(("var:%s" % nm) if nm else ("tmp%d" % local))
        rv = sd[2]
        k = rv[0]
        if k == "use":
            # a field of a copied tuple / closure value: look through the copy at the aggregate
            if ps and ps[0].isdigit() and op_place(rv[1]) is not None and not op_place(rv[1])[1]:
                src = self._agg_behind(op_place(rv[1])[0])
                if src is not None and int(ps[0]) < len(src[2]):
                    return with_proj(self.sym(src[2][int(ps[0])], depth + 1), ps[1:])
            return with_proj(self.sym(rv[1], depth + 1))
        if k in ("ref", "raw"):
            return with_proj("&" + self.sym(rv[2], depth + 1))
        if k == "cast":
            return with_proj("as<%s>(%s)" % (rv[3], self.sym(rv[2], depth + 1)))
        if k == "bin":
            op = rv[1].replace("WithOverflow", "")
            return with_proj("%s(%s, %s)" % (op, self.sym(rv[2], depth + 1), self.sym(rv[3], depth + 1)))
        if k == "un":
            return with_proj("%s(%s)" % (rv[1], self.sym(rv[2], depth + 1)))
        if k == "discr":
            return with_proj("discr(%s)" % self.sym(rv[1], depth + 1))
        if k == "callret":
            c = rv[1]
            nm = short_callee(c.name)
            return with_proj("%s(%s)" % (nm, ", ".join(self.sym(a, depth + 1) for a in c.args)))
        if k == "agg":
            kind = rv[1]
            if ps and ps[0].isdigit() and (kind == "tuple" or (isinstance(kind, list) and kind[0] == "closure")) and int(ps[0]) < len(rv[2]):
                # a field of a tuple / a capture of a closure built here: the operand itself
                return with_proj(self.sym(rv[2][int(ps[0])], depth + 1), ps[1:])
            if isinstance(kind, list) and kind[0] == "adt":
                nm = "%s::%s" % (kind[1].split("::")[-1], kind[2])
                return with_proj("%s{%s}" % (nm, ", ".join(self.sym(a, depth + 1) for a in rv[2])))
            if isinstance(kind, list):
                return with_proj("%s:%s" % (kind[0], kind[1]))
            return with_proj("%s(%s)" % (kind, ", ".join(self.sym(a, depth + 1) for a in rv[2])))
        return with_proj("tmp%d" % local)

    def _agg_behind(self, local, depth=0):
        """the tuple / closure aggregate rvalue a local is a plain copy of (single definitions
        only), else None"""
        if depth > 6 or 1 <= local <= self.argc:
            return None
        sd = self.single_def(local)
        if sd is None:
            return None
        rv = sd[2]
        if rv[0] == "agg" and (rv[1] == "tuple" or (isinstance(rv[1], list) and rv[1][0] == "closure")):
            return rv
        if rv[0] == "use":
            pl = op_place(rv[1])
            if pl is not None and not pl[1]:
                return self._agg_behind(pl[0], depth + 1)
        return None

    def _def_on_path(self, local):
        """for a local with several definitions: the last whole-local definition executed on the
        path set by sym_on_path (None if the local was mutably borrowed or not defined there)"""
        pos = self._sym_path
        if local in self.mut_borrowed():
            return None
        cands = [d for d in self.defs().get(local, []) if not d[3] and d[0] in pos]
        if not cands:
            return None
        return max(cands, key=lambda d: (pos[d[0]], 10 ** 6 if d[1] == "term" else d[1]))

    def sym_on_path(self, x, path):
        """sym() read along one acyclic CFG path: a local assigned in several blocks (the result
        of a `match` / `if` expression, a flag) takes the definition that lies on the path"""
        old = getattr(self, "_sym_path", None)
        self._sym_path = {b: i for i, b in enumerate(path)}
        try:
            return self.sym(x)
        finally:
            self._sym_path = old

    def dest_s(self, place):
        """canonical path of an assignment destination: a bare local is itself (not what it
        was copied from); a projected place is resolved through its base reference"""
        if not place[1]:
            l = place[0]
            if l == 0:
                return "ret"
            if 1 <= l <= self.argc:
                return "arg%d" % l
            nm = self.local_name(l)
            return ("var:%s" % nm) if nm else ("tmp%d" % l)
        return norm_path(self.apath(place))

    # ---- switch helpers
    def switch_info(self, b):
        """For a switch terminator: returns dict with
        kind: 'bool'|'enum'|'int', operand local, edges: {label: target}, otherwise target,
        src: for bool/int the defining rvalue or call; for enum the place + adt"""
        t = self.blocks[b]["t"]
        if t[0] != "switch":
            return None
        op = t[1]
        l = op_local(op)
        info = {"targets": [(int(v), tb) for v, tb in t[2]], "otherwise": t[3], "ty": t[4], "local": l}
        sd = self.single_def(l) if l is not None else None
        info["def"] = sd
        if sd is not None and sd[2][0] == "discr":
            rv = sd[2]
            names = {int(v): n for v, n in rv[3]}
            info["kind"] = "enum"
            info["adt"] = rv[2]
            info["place"] = rv[1]
            info["variants"] = names
            edges = {}
            covered = set()
            for v, tb in info["targets"]:
                edges[names.get(v, str(v))] = tb
                covered.add(v)
            rest = [n for v, n in names.items() if v not in covered]
            info["edges"] = edges
            info["rest"] = rest  # variants going to otherwise
        elif t[4] == "bool":
            info["kind"] = "bool"
            edges = {}
            for v, tb in info["targets"]:
                edges[bool(v)] = tb
            # the other value goes to otherwise
            for v in (False, True):
                if v not in edges:
                    edges[v] = t[3]
            info["edges"] = edges
        else:
            info["kind"] = "int"
        return info

    def bool_source(self, l, depth=0):
        """Describe where boolean local l comes from: ('call', Call) / ('not', inner) /
        ('bin', op, a, b) / ('other', rv)"""
        sd = self.single_def(l)
        if sd is None or depth > 10:
            return ("unknown", l)
        rv = sd[2]
        if rv[0] == "callret":
            return ("call", rv[1])
        if rv[0] == "un" and rv[1] == "Not":
            il = op_local(rv[2])
            if il is not None:
                return ("not", self.bool_source(il, depth + 1))
        if rv[0] == "use":
            il = op_local(rv[1])
            if il is not None:
                return self.bool_source(il, depth + 1)
            return ("const", rv[1])
        if rv[0] == "bin":
            return ("bin", rv[1], rv[2], rv[3])
        return ("other", rv)


def short_callee(name):
    """`std::num::NonZero::<T>::get` -> `NonZero::get`; `<A as B>::f` -> kept readable"""
    n = re.sub(r"::<[^<>]*(<[^<>]*>)*[^<>]*>", "", name)  # drop turbofish generics (one nesting level)
    if n.startswith("<"):
        m = re.match(r"^<(.+) as (.+)>::(\w+)$", n)
        if m:
            return "<%s as %s>::%s" % (m.group(1).split("::")[-1], m.group(2).split("::")[-1], m.group(3))
        return n
    parts = n.split("::")
    return "::".join(parts[-2:])


def short(name):
    """shorten a def path for display/keys: drop crate-internal module prefixes of std"""
    return name


def private_helpers_of(prog, roots):
    """uids of non-`pub` plain functions all of whose callers are `roots` or other such helpers
    (fixpoint).  A rule that says `only these functions may do X` treats them as part of their
    single owner, so extracting a private helper does not change its verdict."""
    cg = prog.callgraph()
    rev = {}
    for u, es in cg.items():
        for v in es:
            rev.setdefault(v, set()).add(u)
    owned = set(r.uid for r in roots)
    helpers = set()
    changed = True
    while changed:
        changed = False
        for uid, fn in prog.fns.items():
            if uid in owned or fn.kind not in ("fn", "assoc_fn"):
                continue
            if fn.d.get("pub"):
                continue
            callers = rev.get(uid, set())
            # closures of an owned function count as that function
            callers = set(prog.fns[c].root or c if prog.fns[c].kind in ("closure", "coroutine") else c for c in callers if c in prog.fns)
            if callers and callers <= owned:
                owned.add(uid)
                helpers.add(uid)
                changed = True
    return helpers


def norm_path(ap):
    """canonical string of an access path, dropping & / * noise"""
    out = [ap[0]]
    for e in ap[1:]:
        if e in ("*", "&"):
            continue
        out.append(e)
    return ".".join(out)


# --------------------------------------------------------------------------------------


class Program:
    def __init__(self, facts_dir, crates=None):
        self.facts_dir = facts_dir
        self.crates = crates or F.CRATES
        self.raw = {}
        self.fns = {}
        self.by_name = defaultdict(list)
        self.consts = {}
        self.adts = {}
        self.impls = {}
        self._hir = {}
        self._cg = None
        for c in self.crates:
            d = F.load(facts_dir, c, "mir")
            self.raw[c] = d
            for uid, fd in d["fns"].items():
                fn = Fn(uid, fd, c)
                self.fns[uid] = fn
                self.by_name[fn.name].append(fn)
            for uid, cd in d["consts"].items():
                cd["crate"] = c
                self.consts[uid] = cd
            for uid, ad in d["adts"].items():
                ad["crate"] = c
                self.adts[uid] = ad
            for uid, im in d["impls"].items():
                im["crate"] = c
                self.impls[uid] = im

    # ---- lookup
    def fn(self, pat, crate=None):
        """unique function whose name matches regex `pat` (searched, not full match)"""
        ms = self.fns_matching(pat, crate)
        if len(ms) == 1:
            return ms[0]
        if not ms:
            raise AnchorError("anchor function not found: /%s/" % pat)
        raise AnchorError(
            "anchor function ambiguous: /%s/ matches %s" % (pat, ", ".join(m.name for m in ms[:6]))
        )

    def fns_matching(self, pat, crate=None):
        rx = re.compile(pat)
        return [
            f
            for f in self.fns.values()
            if (crate is None or f.crate == crate) and (rx.search(f.name) or rx.search(f.uid))
        ]

    def const(self, pat):
        rx = re.compile(pat)
        ms = [c for uid, c in self.consts.items() if rx.search(c["name"])]
        if len(ms) == 1:
            return ms[0]
        if not ms:
            raise AnchorError("anchor const/static not found: /%s/" % pat)
        raise AnchorError("anchor const ambiguous: /%s/" % pat)

    def adt(self, pat):
        rx = re.compile(pat)
        ms = [a for uid, a in self.adts.items() if rx.search(a["name"])]
        if len(ms) == 1:
            return ms[0]
        if not ms:
            raise AnchorError("anchor type not found: /%s/" % pat)
        raise AnchorError("anchor type ambiguous: /%s/ (%s)" % (pat, [m["name"] for m in ms[:5]]))

    def hir(self, crate):
        if crate not in self._hir:
            self._hir[crate] = F.load(self.facts_dir, crate, "hir")["bodies"]
        return self._hir[crate]

    def hir_body(self, fn_or_uid):
        if isinstance(fn_or_uid, Fn):
            uid, crate = fn_or_uid.uid, fn_or_uid.crate
            if fn_or_uid.kind in ("closure", "coroutine"):
                return self.find_closure_hir(fn_or_uid)
            b = self.hir(crate).get(uid)
            if b is None:
                raise AnchorError("no HIR body for %s" % uid)
            return b
        for c in self.crates:
            b = self.hir(c).get(fn_or_uid)
            if b is not None:
                return b
        raise AnchorError("no HIR body for %s" % fn_or_uid)

    def find_closure_hir(self, fn):
        root = fn.root
        body = self.hir(fn.crate).get(root)
        if body is None:
            raise AnchorError("no HIR body for root of %s" % fn.uid)
        from .hirq import walk

        for n in walk(body["body"]):
            if n.get("k") == "closure" and n.get("def") == fn.uid:
                return {"name": fn.name, "params": n["params"], "body": n["body"], "closure": True}
        raise AnchorError("closure %s not found in HIR of %s" % (fn.uid, root))

    # ---- inlining of private helpers (robustness against `extract function` refactorings)
    def inline(self, fn, keep=None, depth=2, private_only=False):
        """`fn` with its private, non-generic, non-recursive local helpers spliced in (see
        analyzer/inline.py).  `keep` is a regex of callee names whose call sites must stay
        visible because the calling rule treats them as anchors.  `private_only`: fold in only
        functions declared without any visibility modifier (not `pub(crate)` ones)."""
        from .inline import inline as _inline, private_inlinable

        cache = self.__dict__.setdefault("_inl", {})
        key = (fn.uid, keep, depth, private_only)
        if key not in cache:
            cache[key] = _inline(self, fn, keep, depth, private_inlinable if private_only else None)
        return cache[key]

    # ---- call graph
    def callgraph(self):
        """uid -> dict(callee_uid -> list of (kind, block)) over local functions.
        Edge kinds: 'call' (resolved call terminator), 'closure' (creates closure),
        'fnref' (function item used as a value), 'coroutine'."""
        if self._cg is not None:
            return self._cg
        cg = {}
        for uid, fn in self.fns.items():
            edges = defaultdict(list)
            live = fn.live_blocks()
            for b, blk in enumerate(fn.blocks):
                if b not in live:
                    continue
                for s in blk["s"]:
                    if s[0] != "=":
                        continue
                    rv = s[2]
                    self._scan_rvalue(rv, edges, b)
                t = blk["t"]
                if t[0] == "call":
                    c = Call(fn, b, t)
                    tgt = c.uid
                    if tgt in self.fns:
                        edges[tgt].append(("call", b))
                    elif c.callee.get("orig") in self.fns and c.kind in ("virtual", "unresolved"):
                        # trait method with a default body
                        edges[c.callee["orig"]].append(("call", b))
                    for a in t[2]:
                        self._scan_operand(a, edges, b)
                elif t[0] == "switch":
                    pass
            cg[uid] = edges
        self._cg = cg
        return cg

    def _scan_operand(self, op, edges, b):
        if op[0] == "k":
            ex = op[3]
            f = ex.get("fn_resolved") or ex.get("fn")
            if f and f in self.fns:
                edges[f].append(("fnref", b))

    def _scan_rvalue(self, rv, edges, b):
        k = rv[0]
        if k == "agg":
            kind = rv[1]
            if isinstance(kind, list) and kind[0] in ("closure", "coroutine", "coroutine_closure"):
                if kind[1] in self.fns:
                    edges[kind[1]].append((kind[0], b))
            for o in rv[2]:
                self._scan_operand(o, edges, b)
        elif k in ("use",):
            self._scan_operand(rv[1], edges, b)
        elif k == "cast":
            self._scan_operand(rv[2], edges, b)

    def reachable(self, entries, stop=()):
        """uids reachable from entry Fns through the call graph"""
        cg = self.callgraph()
        seen = set()
        stack = [e.uid if isinstance(e, Fn) else e for e in entries]
        stop = set(stop)
        while stack:
            u = stack.pop()
            if u in seen or u in stop:
                continue
            seen.add(u)
            for v in cg.get(u, {}):
                if v not in seen:
                    stack.append(v)
        return seen

    def sccs(self, nodes=None, edge_filter=None):
        """Tarjan SCCs (only those with a cycle) over the call graph restricted to `nodes`.
        edge_filter(u, v, sites) -> bool keeps an edge."""
        cg = self.callgraph()
        if nodes is None:
            nodes = set(self.fns)
        index = {}
        low = {}
        onstack = set()
        st = []
        out = []
        counter = [0]

        def succs(u):
            for v, sites in cg.get(u, {}).items():
                if v in nodes and (edge_filter is None or edge_filter(u, v, sites)):
                    yield v

        for root in sorted(nodes):
            if root in index:
                continue
            work = [(root, iter(list(succs(root))))]
            index[root] = low[root] = counter[0]
            counter[0] += 1
            st.append(root)
            onstack.add(root)
            while work:
                u, it = work[-1]
                adv = False
                for v in it:
                    if v not in index:
                        index[v] = low[v] = counter[0]
                        counter[0] += 1
                        st.append(v)
                        onstack.add(v)
                        work.append((v, iter(list(succs(v)))))
                        adv = True
                        break
                    elif v in onstack:
                        low[u] = min(low[u], index[v])
                if adv:
                    continue
                work.pop()
                if work:
                    p = work[-1][0]
                    low[p] = min(low[p], low[u])
                if low[u] == index[u]:
                    comp = []
                    while True:
                        w = st.pop()
                        onstack.discard(w)
                        comp.append(w)
                        if w == u:
                            break
                    if len(comp) > 1 or any(v == u for v in succs(u)):
                        out.append(sorted(comp))
        return out
