"""Queries over HIR-lite trees."""


def children(n):
    """yield child nodes (dicts) of a HIR-lite node in source order"""
    if isinstance(n, dict):
        for k, v in n.items():
            if isinstance(v, dict):
                yield v
            elif isinstance(v, list):
                for x in v:
                    if isinstance(x, dict):
                        yield x
                    elif isinstance(x, list):
                        for y in x:
                            if isinstance(y, dict):
                                yield y


def walk(n, into_closures=True):
    """pre-order walk over all dict nodes"""
    stack = [n]
    while stack:
        x = stack.pop()
        if not isinstance(x, dict):
            continue
        yield x
        if not into_closures and x.get("k") == "closure" and x is not n:
            continue
        cs = list(children(x))
        stack.extend(reversed(cs))


def res_path(res):
    """resolved def path of a 'res' entry, or local name"""
    if not res:
        return None
    if res[0] == "def":
        return res[2]
    if res[0] == "local":
        return "local:" + res[1]
    if res[0] in ("selfctor", "selfty"):
        return res[1]
    return None


def res_kind(res):
    if res and res[0] == "def":
        return res[1]
    return res[0] if res else None


def callee_path(n):
    """def path of the function called by a call/mcall node (None if not resolvable)"""
    if n.get("k") == "mcall":
        return n.get("callee")
    if n.get("k") == "call":
        c = n.get("callee")
        if c:
            return res_path(c)
    return None


def strip(n):
    """strip transparent wrappers: blocks with only a tail expr, refs, casts are NOT stripped"""
    while isinstance(n, dict) and n.get("k") == "block" and not n.get("stmts") and n.get("expr"):
        n = n["expr"]
    return n


def is_lit(n, t=None):
    return isinstance(n, dict) and n.get("k") == "lit" and (t is None or n.get("t") == t)


def matches_in(body, src=None):
    return [n for n in walk(body) if n.get("k") == "match" and (src is None or n.get("src") == src)]


def decode_fmt_template(bs):
    """decode the byte template of core::fmt::Arguments::new (nightly 1.97 encoding):
    0xC0 = next positional placeholder (default formatting), n in 1..=0x7F = literal of the next n
    bytes, 0x00 = end.  Any other opcode -> ValueError (callers fail closed)."""
    out = []
    i = 0
    while i < len(bs):
        b = bs[i]
        if b == 0:
            if i != len(bs) - 1:
                raise ValueError("template continues after end marker")
            return out
        if b == 0xC0:
            out.append(("arg",))
            i += 1
        elif 1 <= b <= 0x7F:
            lit = bytes(bs[i + 1:i + 1 + b]).decode("utf-8")
            out.append(("lit", lit))
            i += 1 + b
        elif b == 0x80:
            n = bs[i + 1] | (bs[i + 2] << 8)
            out.append(("lit", bytes(bs[i + 3:i + 3 + n]).decode("utf-8")))
            i += 3 + n
        elif b > 0xC0:
            # placeholder with options: flags(4) width(2) precision(2) arg_index(2), little endian
            i += 1
            opt = {}
            if b & 1:
                fl = bs[i] | (bs[i + 1] << 8) | (bs[i + 2] << 16) | (bs[i + 3] << 24)
                opt["fill"] = chr(fl & 0x1FFFFF)
                opt["zero_pad"] = bool(fl & (1 << 24))
                opt["alternate"] = bool(fl & (1 << 23))
                opt["plus"] = bool(fl & (1 << 21))
                i += 4
            if b & 2:
                opt["width"] = bs[i] | (bs[i + 1] << 8)
                i += 2
            if b & 4:
                opt["precision"] = bs[i] | (bs[i + 1] << 8)
                i += 2
            if b & 8:
                opt["index"] = bs[i] | (bs[i + 1] << 8)
                i += 2
            if b & 0x30:
                opt["indirect"] = True
            out.append(("arg", opt))
        else:
            raise ValueError("unknown format template opcode 0x%02X" % b)
    raise ValueError("unterminated format template")


def fmt_calls(body):
    """all `fmt::Arguments::new(template, &args)` calls in a body: (node, pieces)"""
    out = []
    for n in walk(body):
        if n.get("k") == "call" and n.get("callee") and n["callee"][0] == "def" and n["callee"][2].endswith("fmt::Arguments::<'a>::new"):
            a0 = n["args"][0]
            if a0.get("k") == "lit" and a0.get("t") == "bytes":
                out.append((n, decode_fmt_template(a0["v"])))
            else:
                out.append((n, None))
        if n.get("k") == "call" and n.get("callee") and n["callee"][0] == "def" and n["callee"][2].endswith("fmt::Arguments::<'a>::from_str"):
            a0 = n["args"][0]
            if a0.get("k") == "lit" and a0.get("t") == "str":
                out.append((n, [("lit", a0["v"])]))
    return out
