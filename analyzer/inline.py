"""MIR-lite inliner: splice the bodies of small private helper functions into a caller so that
rules which read one function's CFG keep working after an `extract helper` refactoring.

`inline(prog, fn, keep=None, depth=2)` returns a new `Fn` whose call terminators to *inlinable*
callees are replaced by the callee's blocks:
  * parameters are bound by assignments `_p = <argument operand>` in the call block;
  * every `ret` of the callee becomes `dest = move _ret; goto <call target>`;
  * locals and blocks of the callee are appended with an offset; unwind/cleanup blocks are copied
    but stay unreachable on the non-unwind CFG every rule uses.
A callee is inlinable when it is a plain local function of the same crate (not a closure or
coroutine), not generic, not (mutually) recursive with the caller, and its name does not match
`keep` - the regex of functions the calling rule treats as named anchors (their call sites must
stay visible).  By default only non-`pub` functions and functions nested in the caller are
inlined."""
import copy
import re

from .core import Fn

GENERIC_TY = re.compile(r"(^|[^\w:'])([A-Z]|impl [A-Z])(\b|$)|\bimpl \w")


def _is_place(x):
    return isinstance(x, list) and len(x) == 2 and isinstance(x[0], int) and not isinstance(x[0], bool) and isinstance(x[1], list)


def _remap(x, loff, boff=None):
    """deep copy of a MIR-lite value with locals shifted by loff"""
    if _is_place(x):
        proj = []
        for p in x[1]:
            if isinstance(p, list) and p and p[0] == "i":
                proj.append(["i", p[1] + loff])
            else:
                proj.append(copy.deepcopy(p))
        return [x[0] + loff, proj]
    if isinstance(x, list):
        if x and x[0] == "k":
            return copy.deepcopy(x)
        return [_remap(y, loff, boff) for y in x]
    if isinstance(x, dict):
        out = {}
        for k, v in x.items():
            if k == "place" and _is_place(v):
                out[k] = _remap(v, loff, boff)
            else:
                out[k] = copy.deepcopy(v)
        return out
    return x


def _remap_stmt(s, loff):
    k = s[0]
    if k in ("sl", "sd"):
        return [k, s[1] + loff]
    if k == "=":
        return ["=", _remap(s[1], loff), _remap(s[2], loff)] + [copy.deepcopy(y) for y in s[3:]]
    if k == "setdiscr":
        return [k, _remap(s[1], loff)] + [copy.deepcopy(y) for y in s[2:]]
    return copy.deepcopy(s)


def _remap_term(t, loff, boff):
    k = t[0]
    if k == "goto":
        return ["goto", t[1] + boff]
    if k == "switch":
        return ["switch", _remap(t[1], loff), [[v, b + boff] for v, b in t[2]], t[3] + boff] + [copy.deepcopy(y) for y in t[4:]]
    if k == "call":
        return ["call", _remap(t[1], loff), [_remap(a, loff) for a in t[2]], _remap(t[3], loff),
                (t[4] + boff) if t[4] is not None else None, (t[5] + boff) if isinstance(t[5], int) else t[5]] + [copy.deepcopy(y) for y in t[6:]]
    if k == "drop":
        return ["drop", _remap(t[1], loff), t[2], t[3] + boff, (t[4] + boff) if isinstance(t[4], int) else t[4]] + [copy.deepcopy(y) for y in t[5:]]
    if k == "assert":
        return ["assert", _remap(t[1], loff), t[2], t[3], t[4] + boff, (t[5] + boff) if isinstance(t[5], int) else t[5]] + [copy.deepcopy(y) for y in t[6:]]
    if k == "yield":
        return ["yield", _remap(t[1], loff), t[2] + boff, (t[3] + boff) if isinstance(t[3], int) else t[3]]
    return copy.deepcopy(t)


def is_generic(fn):
    tys = list(fn.d.get("sig_in") or []) + [fn.d.get("sig_out") or ""]
    return any(GENERIC_TY.search(t or "") for t in tys)


def default_inlinable(prog, caller, callee, keep):
    if callee is None or callee.uid == caller.uid:
        return False
    if callee.kind == "closure":
        # a closure of the caller that is called directly (`let same = |a, b| ..; same(x, y)`)
        if callee.parent != caller.uid:
            return False
    elif callee.kind not in ("fn", "assoc_fn"):
        return False
    if callee.crate != caller.crate:
        return False
    if keep is not None and re.search(keep, callee.name):
        return False
    if is_generic(callee):
        # methods of the same generic impl block share their type parameters with the caller
        same_impl = callee.d.get("impl") is not None and callee.d.get("impl") == caller.d.get("impl")
        if not same_impl:
            return False
    nested = callee.name.startswith(caller.name + "::")
    if callee.d.get("pub") and not nested:
        return False
    if len(callee.blocks) > 400:
        return False
    # A callee that reaches its caller again (recursive-descent grammars: helper -> value ->
    # list_value -> this closure) is still spliced in once: the inner call stays a call, and the
    # depth bound plus the `_seen` chain stop repeated splicing.  Only direct self-recursion of the
    # callee is refused.
    cg = prog.callgraph()
    if callee.uid in cg.get(callee.uid, {}):
        return False
    return True


def private_inlinable(prog, caller, callee, keep):
    """stricter than default_inlinable: only functions written without any visibility modifier
    (`fn helper(..)`, not `pub(crate) fn`) - for analyses that keep per-function summaries of the
    crate-visible functions and only want extracted private helpers folded into their single user"""
    return bool(callee is not None and callee.d.get("private")) and default_inlinable(prog, caller, callee, keep)


COMBINATORS = {
    # std combinator -> (value when the Option is None, "closure result" when Some)
    r"^std::option::Option::<T>::is_some_and$": ("false",),
    r"^std::option::Option::<T>::is_none_or$": ("true",),
}


def _closure_of(prog, fn_d, operand):
    """uid of the local closure an operand holds (a local whose only definition is a closure
    aggregate), else None"""
    if operand[0] not in ("m", "c") or operand[1][1]:
        return None
    l = operand[1][0]
    defs = []
    for bl in fn_d["blocks"]:
        for s in bl["s"]:
            if s[0] == "=" and s[1][0] == l and not s[1][1]:
                defs.append(s[2])
        t = bl["t"]
        if t[0] == "call" and t[3][0] == l:
            defs.append(None)
    if len(defs) != 1 or defs[0] is None or defs[0][0] != "agg":
        return None
    kind = defs[0][1]
    if isinstance(kind, list) and kind[0] == "closure" and kind[1] in prog.fns:
        return kind[1]
    return None


def _expand_combinator(prog, d, b, t, none_value, depth, keep, inlinable, seen):
    """`dest = Option::is_some_and(opt, closure)` ->
         switch discr(opt) { None: dest = const; Some: dest = <closure body>(closure, payload) }
    with the closure's MIR spliced in.  Returns True when the block was rewritten."""
    args, dest, target = t[2], t[3], t[4]
    if target is None or len(args) != 2:
        return False
    uid = _closure_of(prog, d, args[1])
    if uid is None:
        return False
    clo = prog.fns[uid]
    if clo.argc != 2 or (clo.d["locals"][1][0] or "").startswith("&"):
        return False
    opt = args[0]
    if opt[0] not in ("m", "c"):
        return False
    loc = t[6] if len(t) > 6 else [0, 0, False]
    if depth > 1:
        clo = inline(prog, clo, keep, depth - 1, inlinable, seen)
    opt_place = opt[1]
    # a temporary for the discriminant
    dl = len(d["locals"])
    d["locals"].append(["isize", None])
    loff = len(d["locals"])
    d["locals"].extend(copy.deepcopy(clo.d["locals"]))
    nblocks = len(d["blocks"])
    b_none, b_some, boff = nblocks, nblocks + 1, nblocks + 2
    cval = ["k", "bool", none_value, {"int": "1" if none_value == "true" else "0"}]
    d["blocks"].append({"s": [["=", copy.deepcopy(dest), ["use", cval], loc]], "t": ["goto", target], "c": False})
    payload = [opt_place[0], list(opt_place[1]) + [["d", 1, "Some"], ["f", 0, "0"]]]
    d["blocks"].append({"s": [["=", [loff + 1, []], ["use", copy.deepcopy(args[1])], loc],
                              ["=", [loff + 2, []], ["use", ["m", payload]], loc]],
                        "t": ["goto", boff], "c": False})
    d["origin"].extend([d["origin"][b]] * 2 + list(clo.d.get("origin") or [clo.uid] * len(clo.d["blocks"])))
    for cb in clo.d["blocks"]:
        ns = [_remap_stmt(s, loff) for s in cb["s"]]
        ct = cb["t"]
        if ct[0] == "ret":
            ns.append(["=", copy.deepcopy(dest), ["use", ["m", [loff, []]]], loc])
            nt = ["goto", target]
        else:
            nt = _remap_term(ct, loff, boff)
        d["blocks"].append({"s": ns, "t": nt, "c": cb["c"]})
    d["blocks"][b]["s"] = d["blocks"][b]["s"] + [["=", [dl, []], ["discr", copy.deepcopy(opt_place), "std::option::Option", [["0", "None"], ["1", "Some"]]], loc]]
    d["blocks"][b]["t"] = ["switch", ["m", [dl, []]], [["0", b_none]], b_some, "isize", loc]
    return True


def inline(prog, fn, keep=None, depth=2, inlinable=None, _seen=None):
    """-> Fn (a new object when something was inlined, else `fn` itself)"""
    inlinable = inlinable or default_inlinable
    _seen = _seen or set()
    d = None
    changed = False
    blocks = fn.d["blocks"]
    locals_ = fn.d["locals"]
    inlined_names = []
    i = 0
    nblocks = len(blocks)
    for b in range(nblocks):
        t = (d["blocks"] if d else blocks)[b]["t"]
        if t[0] != "call":
            continue
        cal = t[1]
        nm = cal.get("name") if isinstance(cal, dict) else None
        comb = next((v for r, v in COMBINATORS.items() if nm and re.search(r, nm)), None)
        if comb is not None:
            if d is None:
                d = dict(fn.d)
                d["blocks"] = [dict(s=list(bl["s"]), t=bl["t"], c=bl["c"]) for bl in blocks]
                d["locals"] = list(locals_)
                d["origin"] = list(fn.d.get("origin") or [fn.uid] * len(blocks))
            if _expand_combinator(prog, d, b, t, comb[0], depth, keep, inlinable, _seen | {fn.uid}):
                changed = True
                inlined_names.append(nm)
            continue
        uid = cal.get("def") if isinstance(cal, dict) else None
        callee = prog.fns.get(uid) if uid else None
        if callee is None or cal.get("kind") not in ("direct", None, "trait-resolved", "resolved"):
            continue
        if callee.uid in _seen or not inlinable(prog, fn, callee, keep):
            continue
        if depth > 1:
            callee = inline(prog, callee, keep, depth - 1, inlinable, _seen | {fn.uid})
        if d is None:
            d = dict(fn.d)
            d["blocks"] = [dict(s=list(bl["s"]), t=bl["t"], c=bl["c"]) for bl in blocks]
            d["locals"] = list(locals_)
            d["origin"] = list(fn.d.get("origin") or [fn.uid] * len(blocks))
        loff = len(d["locals"])
        boff = len(d["blocks"])
        d["origin"].extend(callee.d.get("origin") or [callee.uid] * len(callee.d["blocks"]))
        d["locals"].extend(copy.deepcopy(callee.d["locals"]))
        args, dest, target = t[2], t[3], t[4]
        loc = t[6] if len(t) > 6 else [0, 0, False]
        tupled = None
        if len(args) != callee.argc:
            # rust-call ABI: `Fn::call(&closure, (a, b))` against a body with parameters
            # (env, a, b): the parameters are the fields of the argument tuple
            if callee.kind == "closure" and len(args) == 2 and args[1][0] in ("m", "c") and callee.argc >= 1:
                tupled = args[1][1]
            else:
                del d["locals"][loff:]
                del d["origin"][boff:]
                continue
        for cb in callee.d["blocks"]:
            ns = [_remap_stmt(s, loff) for s in cb["s"]]
            ct = cb["t"]
            if ct[0] == "ret":
                if target is None:
                    nt = ["unreachable"]
                else:
                    ns.append(["=", copy.deepcopy(dest), ["use", ["m", [loff, []]]], loc])
                    nt = ["goto", target]
            else:
                nt = _remap_term(ct, loff, boff)
            d["blocks"].append({"s": ns, "t": nt, "c": cb["c"]})
        if tupled is not None:
            bind = [["=", [loff + 1, []], ["use", copy.deepcopy(args[0])], loc]]
            for j in range(callee.argc - 1):
                fld = [tupled[0], list(tupled[1]) + [["f", j, str(j)]]]
                bind.append(["=", [loff + j + 2, []], ["use", ["m", fld]], loc])
        else:
            bind = [["=", [loff + j + 1, []], ["use", copy.deepcopy(a)], loc] for j, a in enumerate(args)]
        d["blocks"][b]["s"] = d["blocks"][b]["s"] + bind
        d["blocks"][b]["t"] = ["goto", boff]
        changed = True
        inlined_names.append(callee.name)
    if not changed:
        return fn
    nf = Fn(fn.uid, d, fn.crate)
    nf.inlined = list(getattr(fn, "inlined", [])) + inlined_names
    return nf
