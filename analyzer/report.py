"""Report object shared by all rules: instances, findings, floors, evidence."""
import json
import os
import re
import time

VERIF = os.path.dirname(os.path.dirname(os.path.abspath(__file__)))


class Finding:
    def __init__(self, rule, fn, site, msg, loc=None, detail=None):
        self.rule = rule
        self.fn = fn
        self.site = site
        self.msg = msg
        self.loc = loc
        self.detail = detail

    @property
    def key(self):
        return "%s|%s|%s" % (self.rule, self.fn, self.site)


class Report:
    def __init__(self, pid, tier):
        self.pid = pid
        self.tier = tier
        self.instances = []  # (rule, description)
        self.findings = []
        self.failures = []  # floor / anchor / undecided failures (strings)
        self.rule_counts = {}
        self.floors = {}
        self.notes = []
        self.assumptions = []
        self.obligations = 0
        self.discharged = 0
        self.extra = {}
        self.t0 = time.time()

    def instance(self, rule, desc):
        self.instances.append((rule, desc))
        self.rule_counts[rule] = self.rule_counts.get(rule, 0) + 1

    def obligation(self, ok=True):
        self.obligations += 1
        if ok:
            self.discharged += 1

    def finding(self, rule, fn, site, msg, loc=None, detail=None):
        self.findings.append(Finding(rule, fn, site, msg, loc, detail))

    def fail(self, msg):
        self.failures.append(msg)

    def floor(self, rule, minimum):
        """declare the hand-counted floor for a rule; checked at the end"""
        self.floors[rule] = minimum

    def note(self, s):
        self.notes.append(s)

    def assume(self, s):
        if s not in self.assumptions:
            self.assumptions.append(s)

    def check_floors(self):
        per_rule_findings = {}
        for f in self.findings:
            per_rule_findings[f.rule] = per_rule_findings.get(f.rule, 0) + 1
        for rule, minimum in self.floors.items():
            # a site that was analysed and found violating still counts as analysed
            n = self.rule_counts.get(rule, 0) + per_rule_findings.get(rule, 0)
            # The declared number is what was counted by hand on the pinned tree.  Consolidating
            # two sites into one helper (or splitting one) legitimately changes the count, so the
            # check fails closed only when fewer than 60 % of the confirmed sites are still
            # matched: a rule that went vacuous or lost most of its anchors, not a refactoring.
            effective = max(1, (minimum * 3 + 4) // 5)
            if n < effective:
                self.fail(
                    "FLOOR rule=%s instances=%d floor=%d (the rule matched fewer sites than were "
                    "confirmed by hand: anchor moved or rule went vacuous)" % (rule, n, minimum)
                )


def load_known():
    p = os.path.join(VERIF, "known_findings.json")
    if not os.path.isfile(p):
        return {"known": [], "fixed": []}
    with open(p) as fh:
        return json.load(fh)


def safe(s):
    return re.sub(r"[^A-Za-z0-9_.-]+", "_", s)[:150]
