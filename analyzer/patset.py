"""E3: pattern-set evaluator - folds pure predicates over finite domains (chars, bytes, enum
variants) from HIR-lite.  A tiny evaluator for a closed expression language: literals,
comparisons, && || !, std char/u8 classifiers, casts, lookups into const-evaluated static
tables, match/if with patterns and guards, and calls to other local pure predicate functions.
Anything outside the list raises Undecided (fail closed)."""
import re

from .core import Undecided


class Char(int):
    """a Unicode scalar value (distinguished from plain integers for method dispatch)"""


class Return(Exception):
    def __init__(self, v):
        self.v = v


class EnumVal:
    """value of a fieldless-or-payload enum: variant name + payload list"""

    def __init__(self, variant, payload=()):
        self.variant = variant
        self.payload = tuple(payload)

    def __eq__(self, o):
        return isinstance(o, EnumVal) and self.variant == o.variant and self.payload == o.payload

    def __hash__(self):
        return hash((self.variant, self.payload))

    def __repr__(self):
        return "%s%s" % (self.variant, "(%s)" % ", ".join(map(repr, self.payload)) if self.payload else "")


CHAR_METHODS = {
    "is_ascii_digit": lambda c: 0x30 <= c <= 0x39,
    "is_ascii_hexdigit": lambda c: 0x30 <= c <= 0x39 or 0x41 <= c <= 0x46 or 0x61 <= c <= 0x66,
    "is_ascii_alphabetic": lambda c: 0x41 <= c <= 0x5A or 0x61 <= c <= 0x7A,
    "is_ascii_alphanumeric": lambda c: 0x30 <= c <= 0x39 or 0x41 <= c <= 0x5A or 0x61 <= c <= 0x7A,
    "is_ascii_uppercase": lambda c: 0x41 <= c <= 0x5A,
    "is_ascii_lowercase": lambda c: 0x61 <= c <= 0x7A,
    "is_ascii": lambda c: c < 0x80,
    "is_ascii_whitespace": lambda c: c in (0x20, 0x09, 0x0A, 0x0C, 0x0D),
    "is_ascii_control": lambda c: c < 0x20 or c == 0x7F,
    "is_ascii_punctuation": lambda c: 0x21 <= c <= 0x2F or 0x3A <= c <= 0x40 or 0x5B <= c <= 0x60 or 0x7B <= c <= 0x7E,
    "is_ascii_graphic": lambda c: 0x21 <= c <= 0x7E,
    # Unicode general category Cc: C0, DEL and the C1 controls U+0080..U+009F
    "is_control": lambda c: c < 0x20 or 0x7F <= c <= 0x9F,
    # Unicode-aware predicates of `char`, through Python's tables of the same properties (General
    # Category N* / Alphabetic / White_Space): used only to show that a predicate is NOT the ASCII
    # class the grammar wants, on the non-ASCII representatives of CHAR_DOMAIN
    "is_numeric": lambda c: chr(c).isnumeric(),
    "is_alphabetic": lambda c: chr(c).isalpha(),
    "is_alphanumeric": lambda c: chr(c).isalnum(),
    "is_lowercase": lambda c: chr(c).islower(),
    "is_uppercase": lambda c: chr(c).isupper(),
}


def parse_static_array(value):
    """split a pretty-printed array constant `[a, b, c]` into element strings"""
    v = value.strip()
    if not (v.startswith("[") and v.endswith("]")):
        raise Undecided("static value is not an array: %s" % v[:40])
    inner = v[1:-1]
    out, depth, cur = [], 0, ""
    for ch in inner:
        if ch in "([{<":
            depth += 1
        elif ch in ")]}>":
            depth -= 1
        if ch == "," and depth == 0:
            out.append(cur.strip())
            cur = ""
        else:
            cur += ch
    if cur.strip():
        out.append(cur.strip())
    return out


def parse_const_elem(s):
    """`true` / `false` / `Option::<..>::None` / `Option::<..>::Some(TokenKind::X)` / ints"""
    s = s.strip()
    if s in ("true", "false"):
        return s == "true"
    m = re.match(r"^(-?\d+)(_[iu]\w+)?$", s)
    if m:
        return int(m.group(1))
    m = re.match(r"^.*Option::<.*>::None$", s)
    if m:
        return EnumVal("None")
    m = re.match(r"^.*Option::<.*>::Some\((.*)\)$", s)
    if m:
        return EnumVal("Some", [parse_const_elem(m.group(1))])
    m = re.match(r"^([\w:]+)::(\w+)$", s)
    if m:
        return EnumVal(m.group(2))
    raise Undecided("cannot parse constant element `%s`" % s[:60])


class Evaluator:
    def __init__(self, prog, crate):
        self.prog = prog
        self.crate = crate
        self._bodies = {}
        for uid, b in prog.hir(crate).items():
            self._bodies[b["name"]] = b
        self._statics = {}
        self.depth = 0

    # ---- lookup
    def body(self, name):
        b = self._bodies.get(name)
        if b is None:
            cands = [k for k in self._bodies if k.endswith("::" + name) or k == name]
            if len(cands) == 1:
                return self._bodies[cands[0]]
            raise Undecided("predicate `%s` not found (or ambiguous) among local functions" % name)
        return b

    def static_table(self, path):
        if path not in self._statics:
            cs = [c for c in self.prog.consts.values() if c["name"] == path]
            if len(cs) != 1 or "value" not in cs[0]:
                raise Undecided("static `%s` has no const-evaluated value" % path)
            self._statics[path] = [parse_const_elem(e) for e in parse_static_array(cs[0]["value"])]
        return self._statics[path]

    # ---- calls
    def call(self, name, args):
        b = self.body(name)
        self.depth += 1
        if self.depth > 40:
            raise Undecided("predicate recursion too deep")
        try:
            env = {}
            for p, a in zip(b["params"], args):
                if not self.bind(p, a, env):
                    raise Undecided("parameter pattern does not bind")
            try:
                return self.eval(b["body"], env)
            except Return as r:
                return r.v
        finally:
            self.depth -= 1

    def eval_closure(self, node, args, env=None):
        """evaluate a HIR closure node (`|params| body`) on concrete arguments"""
        e2 = dict(env or {})
        for p, a in zip(node["params"], args):
            if not self.bind(p, a, e2):
                raise Undecided("closure parameter pattern does not bind")
        try:
            return self.eval(node["body"], e2)
        except Return as r:
            return r.v

    # ---- patterns
    def bind(self, p, v, env):
        """match pattern p against value v, binding into env; returns bool"""
        k = p.get("k")
        if k == "_":
            return True
        if k == "bind":
            if p.get("sub") is not None and not self.bind(p["sub"], v, env):
                return False
            env[p["name"]] = v
            return True
        if k == "ref":
            return self.bind(p["p"], v, env)
        if k == "lit":
            return self.lit(p) == v
        if k == "range":
            lo = self.lit(p["lo"]) if p.get("lo") else None
            hi = self.lit(p["hi"]) if p.get("hi") else None
            if lo is not None and v < lo:
                return False
            if hi is not None and (v > hi if p.get("incl") else v >= hi):
                return False
            return True
        if k == "or":
            for q in p["pats"]:
                e2 = dict(env)
                if self.bind(q, v, e2):
                    env.update(e2)
                    return True
            return False
        if k in ("tstruct", "path", "struct"):
            from .tables import variant_name_of_pat
            vn = variant_name_of_pat(p)
            if not isinstance(v, EnumVal):
                # constants used as patterns
                r = p.get("res")
                if r and r[0] == "def" and r[1] in ("Const", "AssocConst"):
                    return self.const_value(r[2]) == v
                raise Undecided("enum pattern against non-enum value")
            if vn != v.variant:
                return False
            subs = p.get("subs") or []
            if len(subs) > len(v.payload):
                raise Undecided("payload arity")
            return all(self.bind(s, x, env) for s, x in zip(subs, v.payload))
        if k == "tuple":
            if not isinstance(v, tuple) or len(v) != len(p["pats"]):
                raise Undecided("tuple pattern arity")
            return all(self.bind(q, x, env) for q, x in zip(p["pats"], v))
        if k == "slice":
            if not isinstance(v, (list, tuple)):
                raise Undecided("slice pattern against non-sequence")
            before, mid, after = p["before"], p.get("mid"), p["after"]
            n = len(before) + len(after)
            if mid is None:
                if len(v) != n:
                    return False
            elif len(v) < n:
                return False
            for q, x in zip(before, v[:len(before)]):
                if not self.bind(q, x, env):
                    return False
            if after:
                for q, x in zip(after, v[len(v) - len(after):]):
                    if not self.bind(q, x, env):
                        return False
            if mid is not None and mid.get("k") == "bind":
                env[mid["name"]] = list(v[len(before):len(v) - len(after)])
            return True
        raise Undecided("pattern kind `%s` not supported by the evaluator" % k)

    def lit(self, n):
        if n.get("k") == "path":
            r = n.get("res")
            if r and r[0] == "def" and r[1] in ("Const", "AssocConst"):
                return self.const_value(r[2])
            raise Undecided("path literal")
        t = n.get("t")
        if t == "char":
            return Char(n["v"])
        if t in ("int", "byte"):
            return int(n["v"])
        if t == "bool":
            return bool(n["v"])
        if t == "str":
            return n["v"]
        if t == "bytes":
            return list(n["v"])
        raise Undecided("literal type %s" % t)

    def const_value(self, path):
        cs = [c for c in self.prog.consts.values() if c["name"] == path]
        if len(cs) == 1:
            c = cs[0]
            if "int" in c:
                v = int(c["int"])
                return Char(v) if c["ty"] == "char" else v
            val = c.get("value", "")
            m = re.match(r'^"(.*)"$', val, re.S)
            if m:
                return bytes(m.group(1), "utf-8").decode("unicode_escape")
        raise Undecided("constant `%s` has no usable value" % path)

    # ---- expressions
    def eval(self, e, env):
        k = e.get("k")
        if k == "lit":
            return self.lit(e)
        if k == "path":
            r = e.get("res")
            if r[0] == "local":
                if r[1] not in env:
                    raise Undecided("unbound local `%s`" % r[1])
                return env[r[1]]
            if r[0] == "def" and r[1] in ("Const", "AssocConst"):
                return self.const_value(r[2])
            if r[0] == "def" and r[1].startswith("Static"):
                return ("static", r[2])
            if r[0] == "def" and r[1].startswith("ctor"):
                return EnumVal(r[4].split("::")[-1] if len(r) > 4 else r[2].split("::")[-1])
            raise Undecided("path `%s`" % (r,))
        if k == "block":
            env = dict(env)
            for s in e.get("stmts", []):
                if s.get("k") == "slet":
                    if s.get("init") is None:
                        raise Undecided("let without initialiser")
                    v = self.eval(s["init"], env)
                    if not self.bind(s["pat"], v, env):
                        if s.get("els"):
                            self.eval(s["els"], env)
                        raise Undecided("let pattern failed")
                elif s.get("k") == "semi":
                    self.eval(s["e"], env)
                else:
                    self.eval(s, env)
            if e.get("expr") is not None:
                return self.eval(e["expr"], env)
            return ()
        if k == "if":
            c = e["cond"]
            if c.get("k") == "let":
                v = self.eval(c["init"], env)
                e2 = dict(env)
                if self.bind(c["pat"], v, e2):
                    return self.eval(e["then"], e2)
                return self.eval(e["else"], env) if e.get("else") else ()
            if self.truth(self.eval(c, env)):
                return self.eval(e["then"], env)
            return self.eval(e["else"], env) if e.get("else") else ()
        if k == "match":
            v = self.eval(e["scrut"], env)
            for arm in e["arms"]:
                e2 = dict(env)
                if self.bind(arm["pat"], v, e2):
                    if arm.get("guard") is not None and not self.truth(self.eval(arm["guard"], e2)):
                        continue
                    return self.eval(arm["body"], e2)
            raise Undecided("non-exhaustive match in evaluator")
        if k == "bin":
            op = e["op"]
            if op == "&&":
                return self.truth(self.eval(e["a"], env)) and self.truth(self.eval(e["b"], env))
            if op == "||":
                return self.truth(self.eval(e["a"], env)) or self.truth(self.eval(e["b"], env))
            a, b = self.eval(e["a"], env), self.eval(e["b"], env)
            try:
                return {
                    "==": lambda: a == b, "!=": lambda: a != b, "<": lambda: a < b, "<=": lambda: a <= b,
                    ">": lambda: a > b, ">=": lambda: a >= b, "+": lambda: a + b, "-": lambda: a - b,
                    "*": lambda: a * b, "&": lambda: a & b, "|": lambda: a | b, "^": lambda: a ^ b,
                    "<<": lambda: a << b, ">>": lambda: a >> b,
                }[op]()
            except KeyError:
                raise Undecided("operator %s" % op)
        if k == "un":
            a = self.eval(e["a"], env)
            if e["op"] == "!":
                return (not a) if isinstance(a, bool) else ~a
            if e["op"] == "-":
                return -a
            if e["op"] == "*":
                return a
            raise Undecided("unary %s" % e["op"])
        if k == "ref":
            return self.eval(e["e"], env)
        if k == "cast":
            v = self.eval(e["e"], env)
            ty = e.get("ty", "")
            if ty == "char":
                return Char(v)
            if ty in ("u8", "u16", "u32", "u64", "usize", "i32", "i64", "u128"):
                v = int(v)
                if ty == "u8":
                    v &= 0xFF
                return v
            raise Undecided("cast to %s" % ty)
        if k == "index":
            base = self.eval(e["e"], env)
            i = self.eval(e["i"], env)
            if isinstance(base, tuple) and base and base[0] == "static":
                t = self.static_table(base[1])
                if not (0 <= i < len(t)):
                    raise Undecided("static table index %s out of range" % i)
                return t[i]
            if isinstance(base, (list, str)):
                return base[i]
            raise Undecided("index into %r" % (base,))
        if k == "ret":
            raise Return(self.eval(e["e"], env) if e.get("e") else ())
        if k == "mcall":
            recv = self.eval(e["recv"], env)
            m = e["m"]
            args = [self.eval(a, env) for a in e["args"]]
            if isinstance(recv, Char) or (isinstance(recv, int) and not isinstance(recv, bool)):
                if m in CHAR_METHODS and not args:
                    return CHAR_METHODS[m](int(recv))
                if m == "is_whitespace" and isinstance(recv, Char):
                    raise Undecided("char::is_whitespace (Unicode table) not modelled")
            cal = e.get("callee") or ""
            if cal.startswith(self.crate.replace("-", "_") + "::") or cal.split("::")[0] in ("apollo_parser", "apollo_compiler", "apollo_smith"):
                return self.call(cal, [recv] + args)
            if m in ("contains",) and isinstance(recv, (list, str)):
                return args[0] in recv
            raise Undecided("method `%s` on %r not in the closed list" % (m, type(recv).__name__))
        if k == "call":
            c = e.get("callee")
            if c and c[0] == "def":
                if c[1].startswith("ctor"):
                    args = [self.eval(a, env) for a in e["args"]]
                    return EnumVal(c[4].split("::")[-1] if len(c) > 4 else c[2].split("::")[-1], args)
                if c[1] in ("Fn", "AssocFn"):
                    args = [self.eval(a, env) for a in e["args"]]
                    if c[2].split("::")[0] in ("apollo_parser", "apollo_compiler", "apollo_smith"):
                        return self.call(c[2], args)
            raise Undecided("call `%s`" % (c,))
        if k == "tup":
            return tuple(self.eval(x, env) for x in e["es"])
        if k == "array":
            return [self.eval(x, env) for x in e["es"]]
        raise Undecided("expression kind `%s` not supported by the evaluator" % k)

    @staticmethod
    def truth(v):
        if not isinstance(v, bool):
            raise Undecided("non-boolean condition %r" % (v,))
        return v


# the char partition: every ASCII code point + representatives of the non-ASCII classes any
# predicate in the repository distinguishes
CHAR_DOMAIN = [Char(c) for c in range(128)] + [Char(0x85), Char(0xA0), Char(0xB2), Char(0xE9), Char(0x661), Char(0x2028), Char(0x2029), Char(0x3000), Char(0xFEFF), Char(0xFF11), Char(0xFFFD), Char(0x1F680)]


def char_set(ev, fn_name, domain=None):
    return set(int(c) for c in (domain or CHAR_DOMAIN) if ev.call(fn_name, [c]) is True)


def byte_set(ev, fn_name):
    return set(b for b in range(256) if ev.call(fn_name, [b]) is True)
