"""Diagnostic construction sites and region decision tables (shared by C15, C17, C18 ...)."""
import re

from .core import Undecided
from .flow import _strip, loop_headers
from .tables import enum_paths

DIAG_PUSH = r"validation::DiagnosticList::push$|from_ast::BuildErrors::<'a>::push$|from_ast::BuildErrors::push$"


def variant_of_site(fn, c):
    """variant of DiagnosticData / BuildError / Details constructed for a push call"""
    s = fn.sym(c.args[2]) if len(c.args) > 2 else ""
    m = re.search(r"(DiagnosticData|BuildError|Details)::(\w+)", s)
    return m.group(2) if m else None


def push_sites(fn):
    """[(Call, variant)] for every diagnostic push in fn"""
    out = []
    for c in fn.live_calls():
        if re.search(DIAG_PUSH, c.name):
            out.append((c, variant_of_site(fn, c)))
    return out


def all_push_sites(prog, crate="apollo_compiler"):
    """variant -> [(fn, Call)] over the whole crate"""
    out = {}
    for fn in prog.fns.values():
        if fn.crate != crate:
            continue
        for c, v in push_sites(fn):
            out.setdefault(v, []).append((fn, c))
    return out


def region_rows(fn, start=0, stops=()):
    """Enumerate the paths of a region; -> [(facts, pushed_variants, calls_on_path, path)]"""
    rows = []
    for atoms, end, path in enum_paths(fn, start=start, stops=stops, inner_loops="cut"):
        pushed = []
        calls = []
        for b in path[:-1] if end in stops else path:
            c = fn.call_at(b)
            if c is None:
                continue
            calls.append(c)
            if re.search(DIAG_PUSH, c.name):
                pushed.append(variant_of_site(fn, c))
        rows.append((_strip(atoms), pushed, calls, path))
    return rows


def loop_region(fn, header, headers=None):
    headers = headers or loop_headers(fn)
    some, _none, _nxt = headers[header]
    return some, [header]


def check_rows(rep, rule, fn, rows, classify, violating, label, needs):
    """For every path whose classified atoms satisfy `violating(atoms)` (a predicate over a dict
    atom->value; unknown atoms are completed both ways), some diagnostic in `needs` must be
    pushed on the path.  Returns number of rows checked.  `classify(fact)` -> (atom, value) |
    [(atom, value), ...] | None."""
    n = 0
    bad = []
    atoms_all = set()
    prepared = []
    for facts, pushed, calls, path in rows:
        known = {}
        for f in facts:
            r = classify(f)
            if r is None:
                continue
            if isinstance(r, tuple):
                r = [r]
            for a, v in r:
                known[a] = v
        atoms_all |= set(known)
        prepared.append((known, pushed, path))
    for known, pushed, path in prepared:
        try:
            viol = violating(known)
        except KeyError as e:
            raise Undecided("%s %s: a path does not decide atom %s" % (rule, fn.name, e))
        if viol is None:
            continue
        n += 1
        if viol:
            ok = any(p in needs for p in pushed)
            rep.obligation(ok)
            if not ok:
                bad.append((known, pushed))
        else:
            rep.obligation(True)
    for known, pushed in bad:
        site = label + ":" + ",".join("%s=%s" % kv for kv in sorted(known.items()))
        rep.finding(rule, fn.name, site[:120],
                    "on the path where %s the validator reports %s, not one of %s: a schema breaking `%s` passes validation" % (
                        ", ".join("%s=%s" % kv for kv in sorted(known.items())), pushed or "nothing", sorted(needs), label), fn.loc())
    return n, len(bad)
