"""C06 — String literals decode to their spec-defined values (DESIGN.md C06)."""
import re

from ..core import AnchorError, Undecided, short
from ..hirq import callee_path, walk
from ..patset import Char, Evaluator, char_set
from ..speceval import Spec
from ..tables import local_of, strip_expr

CRATES = ["apollo_parser", "apollo_compiler"]
LEVEL = "other"
EXPLANATION = """
C06.ESC: every escape letter the lexer accepts (is_escaped_char plus `u`) has an arm in
unescape_string that pushes the spec's character (b->U+0008, f->U+000C, n->U+000A, r->U+000D,
t->U+0009, quote/backslash/slash -> themselves, u -> the decoded code point); no accepted letter
falls into the silent `_ => ()` arm (sibling agreement between the lexer's table and the decoder's).
C06.BLOCK: block-string WhiteSpace = {space, tab}; GraphQLLines splits on CR, LF (memchr2 needles)
and treats CRLF as one terminator; the escaped-triple-quote / triple-quote constants; the
delimiter offsets in From<&StringValue> (3/3 for block strings, 1/1 for quoted ones, chosen by
is_block_string).  C06.CONV: the compiler builds string values and descriptions from
String::from(&cst::StringValue) (the decoder), not from raw token text.  C06.NOPANIC (thorough):
the decoder's four panic sites are discharged by facts of the extracted lexer machine.
C06.INDENT: the arithmetic of BlockStringValue() where the shape shows it (first line excluded from
commonIndent, indent < length, min(commonIndent, len) removed from all but the first line, leading
and trailing blank lines, LF joining) - judged only when the construct is recognised.
"""

SPEC = {'"': ("same",), "\\": ("same",), "/": ("same",), "b": ("lit", 0x08), "f": ("lit", 0x0C), "n": ("lit", 0x0A), "r": ("lit", 0x0D), "t": ("lit", 0x09), "u": ("unicode",)}


def rule_esc(prog, rep):
    rep.floor("C06.ESC", 9)
    ev = Evaluator(prog, "apollo_parser")
    accepted = char_set(ev, "apollo_parser::lexer::is_escaped_char") | {ord("u")}
    if accepted != set(ord(c) for c in SPEC):
        rep.finding("C06.ESC", "apollo_parser::lexer::is_escaped_char", "lexer-set", "the lexer accepts escape letters %s; the grammar has %s" % (sorted(map(chr, accepted)), sorted(SPEC)), None)
    fn = prog.fn(r"^apollo_parser::cst::node_ext::unescape_string$")
    # The decoder's loop: `iter.next()` yields c; after a backslash a second `iter.next()` yields the
    # escape letter.  The table is read by specialising the loop body's CFG for (c, letter) - see
    # analyzer/speceval.py - so it does not matter whether the source says `match`, `if c != '\\'
    # { ..; continue }` or an `else if` chain.
    nexts = [c for c in fn.live_calls() if re.search(r"Chars<'\w+> as std::iter::Iterator>::next$", c.name)]
    if len(nexts) < 2:
        raise Undecided("unescape_string: expected the loop's `iter.next()` and a second one for the escape letter (found %d)" % len(nexts))
    first = [c for c in nexts if all(fn.dominates(c.block, o.block) for o in nexts)]
    if len(first) != 1:
        raise Undecided("unescape_string: no `iter.next()` dominates the others")
    first = first[0]
    rest = [c for c in nexts if c is not first]
    second = [c for c in rest if all(fn.dominates(c.block, o.block) for o in rest)]
    if len(second) != 1 or len(rest) != 1:
        raise Undecided("unescape_string: expected exactly one further `iter.next()` for the escape letter (found %d)" % len(rest))
    second = second[0]
    d1, d2 = first.dest[0], second.dest[0]
    PUSH = r"^std::string::String::(push|push_str|insert|insert_str|extend\w*)$|String as std::iter::Extend"

    def row(c, letter):
        sp = Spec(fn, payloads={(d1, "Some", 0): c, (d2, "Some", 0): letter}, discrs={d1: 1, d2: 1}, effect_re=PUSH, stop_blocks=[first.block])
        paths = sp.run(first.target)
        return sorted(set(tuple((n.rsplit("::", 1)[-1], a[1:]) for n, a, _b in eff) for eff, _end in paths))

    # plain characters are copied
    for c in (0x61, 0x22, 0x75, 0x6E, 0x2F, 0x10FFFF):
        got = row(c, 0x61)
        if got != [(("push", (c,)),)]:
            rep.finding("C06.ESC", fn.name, "plain:%#x" % c, "a character other than backslash (U+%04X) is not copied unchanged: effects %s" % (c, got), fn.loc())
    for letter in sorted(accepted):
        ch = chr(letter)
        want = SPEC.get(ch)
        got = row(0x5C, letter)
        if want is None:
            rep.finding("C06.ESC", fn.name, "extra:" + ch, "the lexer accepts escape `\\%s`, which the grammar does not have" % ch, fn.loc())
            continue
        ok = False
        if len(got) == 1 and len(got[0]) == 1 and got[0][0][0] == "push":
            v = got[0][0][1][0]
            if want[0] == "same":
                ok = v == letter
            elif want[0] == "lit":
                ok = v == want[1]
            else:
                ok = isinstance(v, str) and "(" in v  # an undetermined value that is the result of a call
        if ok:
            rep.instance("C06.ESC", "\\%s -> %s" % (ch, "itself" if want == ("same",) else ("U+%04X" % want[1] if want[0] == "lit" else "decoded \\uXXXX")))
        else:
            desc = "drops it silently" if got in ([()], []) else "does %s" % (got,)
            rep.finding("C06.ESC", fn.name, "escape:" + ch,
                        "escape `\\%s` is accepted by the lexer but the decoder %s; the spec value is %s" % (ch, desc, "the character itself" if want == ("same",) else ("U+%04X" % want[1] if want[0] == "lit" else "the code point")), fn.loc())
    # \uXXXX: 4 hex digits folded as (acc << 4) + digit, in unescape_string or a local helper of it
    bodies = [prog.hir_body(fn)["body"]]
    for uid in prog.reachable([fn]):
        g = prog.fns.get(uid)
        if g is not None and g.uid != fn.uid and g.crate == fn.crate and g.kind in ("fn", "assoc_fn") and g.name.startswith("apollo_parser::cst::node_ext::"):
            hb = prog.hir_body(g)
            if hb:
                bodies.append(hb["body"])
    nodes = [n for b in bodies for n in walk(b)]
    takes = [n for n in nodes if n.get("k") == "mcall" and n["m"] == "take"]
    ok = any(strip_expr(t["args"][0]).get("v") == 4 for t in takes)
    shl = [n for n in nodes if n.get("k") == "bin" and n["op"] == "<<" and strip_expr(n["b"]).get("v") == 4]
    radix = [n for n in nodes if n.get("k") == "mcall" and n["m"] == "to_digit" and strip_expr(n["args"][0]).get("v") == 16]
    if ok and shl and radix:
        rep.instance("C06.ESC", "\\uXXXX: take(4) hex digits, value = fold (acc << 4) + to_digit(16)")
    else:
        rep.finding("C06.ESC", fn.name, "unicode-fold", "the \\u escape is not decoded as four hexadecimal digits (take(4): %s, <<4: %s, to_digit(16): %s)" % (ok, bool(shl), bool(radix)), fn.loc())


def rule_indent(prog, rep):
    """C06.INDENT: the arithmetic of BlockStringValue() where the code's shape shows it.  Each
    sub-rule first recognises the construct (an iterator chain, a closure's path table); when the
    construct is written differently it says so in a note and does not judge - only a recognised
    construct with a different constant / operator / source is a finding.
      commonIndent = min over the lines *after the first* of indent(line) where indent < length;
      every line but the first loses min(commonIndent, len) leading characters;
      leading blank lines are skipped with the WhiteSpace-only test; lines are joined with U+000A,
      nothing before the first; trailing blank lines are cut by truncating at the end of the last
      non-blank line."""
    rep.floor("C06.INDENT", 1)
    from ..flow import _strip, facts_at, loop_headers, loop_body
    from ..tables import enum_paths, return_value_on_path
    ubs = prog.fn(r"^apollo_parser::cst::node_ext::unescape_block_string$")
    clos = {g.uid: g for g in prog.fns.values() if g.parent == ubs.uid and g.kind == "closure"}

    def closure_of(symtext):
        m = re.search(r"closure:([^,()]+\{closure#\d+\})", symtext)
        return clos.get(m.group(1)) if m else None

    # (1) commonIndent
    mins = [c for c in ubs.live_calls() if re.search(r"Iterator::min$|Iterator>::min$", c.name)]
    done = False
    for c in mins:
        chain = ubs.sym(c.args[0])
        m = re.match(r"^Iterator::filter_map\((.*), closure:[^()]*\)$", chain)
        if not m:
            continue
        src = m.group(1)
        done = True
        m2 = re.match(r"^Iterator::skip\((?:node_ext::)?split_lines\(&?arg1\), (\d+)\)$", src)
        if m2 and m2.group(1) == "1":
            rep.instance("C06.INDENT", "commonIndent: minimum over the lines after the first (skip(1))")
        elif m2 or re.match(r"^(?:node_ext::)?split_lines\(&?arg1\)$", src):
            rep.finding("C06.INDENT", ubs.name, "first-line", "commonIndent is computed over `%s`: BlockStringValue() excludes exactly the first line (its indentation is the text after the opening quotes)" % src, c.loc())
        else:
            rep.note("C06.INDENT: source of the commonIndent minimum not recognised (%s)" % src[:80])
        clo = closure_of(chain)
        if clo is not None:
            leaves = [(_strip(a), return_value_on_path(clo, p) or "") for a, _r, p in enum_paths(clo)]
            ok = None
            if len(leaves) == 1:
                mm = re.match(r"^bool::then_some\((\w+)\((.*?), (.*?)\), (.*)\)$", leaves[0][1])
                if mm:
                    ok = mm.group(1) == "Lt" and "count_indent(" in mm.group(2) and "str::len(" in mm.group(3) and mm.group(4) == mm.group(2)
                    got = "%s(%s, %s) -> %s" % mm.groups()
            else:
                somes = [(a, v) for a, v in leaves if v.startswith("Option::Some{")]
                if somes:
                    ok = all(any(f[0] == "cmp" and ((f[1] == "Lt" and f[4] is True) or (f[1] == "Ge" and f[4] is False)) and "count_indent" in str(f[2]) for f in a) and "count_indent(" in v for a, v in somes)
                    got = str(somes[0])
            if ok is True:
                rep.instance("C06.INDENT", "commonIndent: a line counts iff indent < length (a WhiteSpace-only line does not)")
            elif ok is False:
                rep.finding("C06.INDENT", clo.name, "indent-lt-length", "a line contributes its indentation under `%s`; BlockStringValue() says: if indent is less than length" % got[:160], clo.loc())
            else:
                rep.note("C06.INDENT: per-line indent closure not recognised")
        # the default when no line counts
        uo = [u for u in ubs.live_calls() if u.name.endswith("Option::<T>::unwrap_or") and "Iterator::min(" in ubs.sym(u.args[0])]
        if uo and ubs.sym(uo[0].args[1]) != "0":
            rep.finding("C06.INDENT", ubs.name, "no-indent-default", "commonIndent defaults to %s when no line has content; it must be 0 (nothing removed)" % ubs.sym(uo[0].args[1]), uo[0].loc())
    if not done:
        rep.note("C06.INDENT: commonIndent is not computed by a min() over a filter_map chain; not judged")
    # (2) removal of commonIndent from every line but the first
    maps = [c for c in ubs.live_calls() if re.search(r"Iterator::map$|Iterator>::map$", c.name) and "enumerate(" in ubs.sym(c.args[0])]
    for c in maps:
        clo = closure_of(ubs.sym(c.args[1]))
        if clo is None:
            continue
        rows = [(_strip(a), return_value_on_path(clo, p) or "") for a, _r, p in enum_paths(clo)]
        first = [v for a, v in rows if any(f[0] == "cmp" and f[1] == "Eq" and f[2] == "arg2.0" and f[3] == "const:0" and f[4] is True for f in a)]
        rest = [v for a, v in rows if any(f[0] == "cmp" and f[1] == "Eq" and f[2] == "arg2.0" and f[3] == "const:0" and f[4] is False for f in a)]
        other_idx = sorted(set(f[3] for a, _v in rows for f in a if f[0] == "cmp" and f[2] == "arg2.0" and str(f[3]).startswith("const:") and f[3] != "const:0"))
        if other_idx:
            rep.finding("C06.INDENT", clo.name, "first-line-index", "the line that keeps its indentation is selected by comparing its index with %s; BlockStringValue() treats exactly the first line (index 0) specially" % other_idx, clo.loc())
            continue
        if len(rows) != 2 or len(first) != 1 or len(rest) != 1:
            rep.note("C06.INDENT: the line-mapping closure is not `if index == 0 {..} else {..}`; not judged")
            continue
        ok = first[0] == "arg2.1" and re.match(r"^&\*?traits::index\(&?arg2\.1, RangeFrom::RangeFrom\{Ord::min\(arg1\.0, str::len\(&?arg2\.1\)\)\}\)$", rest[0]) is not None
        if ok:
            rep.instance("C06.INDENT", "lines: the first is kept whole, every other loses min(commonIndent, len) leading characters")
        else:
            rep.finding("C06.INDENT", clo.name, "strip", "line 0 maps to `%s` and the other lines to `%s`; BlockStringValue() keeps the first line and removes commonIndent characters (at most the whole line) from each other line" % (first[0][:60], rest[0][:120]), clo.loc())
    # (3) leading blank lines
    sw = [c for c in ubs.live_calls() if re.search(r"Iterator::skip_while$|Iterator>::skip_while$", c.name)]
    for c in sw:
        clo = closure_of(ubs.sym(c.args[1]))
        if clo is None:
            continue
        leaves = set(return_value_on_path(clo, p) or "" for _a, _r, p in enum_paths(clo))
        if leaves == {"unescape_block_string::is_whitespace_line(&arg2)"} or (len(leaves) == 1 and re.search(r"is_whitespace_line\(&?\*?arg2\)$", list(leaves)[0])):
            rep.instance("C06.INDENT", "leading lines are dropped while they are WhiteSpace-only")
        elif len(leaves) == 1 and re.search(r"^Not\(|is_empty\(", list(leaves)[0]):
            rep.finding("C06.INDENT", clo.name, "leading-blank", "leading lines are dropped while `%s`, not while they contain only WhiteSpace" % list(leaves)[0][:100], clo.loc())
        else:
            rep.note("C06.INDENT: skip_while predicate not recognised (%s)" % sorted(leaves)[:1])
    # (4) joining and trailing blank lines
    hs = {h: v for h, v in loop_headers(ubs).items() if h in ubs.reachable_blocks([v[0]])}  # real loops only
    nl = [c for c in ubs.live_calls() if c.name.endswith("String::push")]
    reps = [c for c in ubs.live_calls() if c.name.endswith("node_ext::replace_into")]
    if len(hs) == 1 and len(reps) == 2:
        h = list(hs)[0]
        body = set(loop_body(ubs, h, hs))
        inb = [c for c in reps if c.block in body]
        outb = [c for c in reps if c.block not in body]
        pushes_in = [c for c in nl if c.block in body]
        ok = len(inb) == 1 and len(outb) == 1 and len(pushes_in) == 1 and ubs.sym(pushes_in[0].args[1]) == "10" and ubs.dominates(pushes_in[0].block, inb[0].block) and not [c for c in nl if c.block not in body]
        if ok:
            rep.instance("C06.INDENT", "lines are joined with U+000A: nothing before the first line, one line feed before every other")
        else:
            rep.finding("C06.INDENT", ubs.name, "join", "lines are not joined as `first (LF line)*` (pushes in the loop: %s, outside: %d)" % ([ubs.sym(c.args[1]) for c in pushes_in], len([c for c in nl if c.block not in body])), ubs.loc())
        tr = [c for c in ubs.live_calls() if c.name.endswith("String::truncate")]
        upd = []
        for b in sorted(body):
            for st in ubs.stmts(b):
                if st[0] == "=" and not st[1][1] and tr and ubs.sym(tr[0].args[1]) == "var:%s" % (ubs.local_name(st[1][0]) or ""):
                    upd.append(b)
        if len(tr) == 1 and upd:
            good = all(any(f[0] == "callbool" and f[1].endswith("is_whitespace_line") and f[3] is False for f in facts_at(ubs, b)) for b in upd)
            if good:
                rep.instance("C06.INDENT", "trailing WhiteSpace-only lines are cut: the end mark moves only after a line that is not blank, and the result is truncated there")
            else:
                rep.finding("C06.INDENT", ubs.name, "trailing-blank", "the end-of-content mark is also moved after WhiteSpace-only lines: trailing blank lines are kept", ubs.loc())
        else:
            rep.note("C06.INDENT: trailing-blank-line handling not recognised (truncate: %d)" % len(tr))
    else:
        rep.note("C06.INDENT: joining loop not recognised")


def rule_block(prog, rep):
    rep.floor("C06.BLOCK", 5)
    ev = Evaluator(prog, "apollo_parser")
    # the WhiteSpace predicate(s) of BlockStringValue(): every `fn(char) -> bool` nested in (or a
    # private helper of) unescape_block_string, whatever it is called
    ubs = prog.fn(r"^apollo_parser::cst::node_ext::unescape_block_string$")
    from ..core import private_helpers_of
    cands = [g for g in prog.fns.values() if g.crate == "apollo_parser" and g.kind in ("fn", "assoc_fn")
             and (g.name.startswith(ubs.name + "::") or g.uid in private_helpers_of(prog, [ubs]))
             and (g.d.get("sig_in") or []) == ["char"] and (g.d.get("sig_out") or "") == "bool"]
    # std's notion of whitespace (Unicode White_Space / ASCII whitespace incl. form feed) is not the
    # grammar's: any use of it in the block-string algorithm changes which lines count as blank and
    # how much indentation is removed
    UNI = r"str>::(trim|trim_start|trim_end|trim_left|trim_right|split_whitespace|split_ascii_whitespace|trim_ascii\w*)$|char::methods::<impl char>::(is_whitespace|is_ascii_whitespace)$|u8>::is_ascii_whitespace$"
    uni = []
    for g in [ubs] + [prog.fns[u] for u in private_helpers_of(prog, [ubs])] + [g for g in prog.fns.values() if g.name.startswith(ubs.name + "::")]:
        uni += [(g, c) for c in g.live_calls() if re.search(UNI, c.name)]
    for g, c in uni:
        rep.finding("C06.BLOCK", "apollo_parser::cst::node_ext::unescape_block_string::is_whitespace", "whitespace",
                    "the block-string algorithm uses `%s` (std's whitespace: Unicode White_Space or ASCII incl. form feed); BlockStringValue() counts only space and tab" % c.name.split("::")[-1], c.loc())
    if not cands and not uni:
        raise Undecided("unescape_block_string: no `fn(char) -> bool` whitespace predicate found among its nested / private helper functions")
    for g in cands:
        ws = char_set(ev, g.name)
        if ws == {0x20, 0x09}:
            rep.instance("C06.BLOCK", "block string WhiteSpace = {space, tab}")
        else:
            rep.finding("C06.BLOCK", "apollo_parser::cst::node_ext::unescape_block_string::is_whitespace", "whitespace", "block-string WhiteSpace (`%s`) is %s, the spec says {space, tab}" % (g.name.split("::")[-1], sorted(ws)), None)
    tq = prog.const(r"^apollo_parser::cst::node_ext::TRIPLE_QUOTE$")["value"]
    etq = prog.const(r"^apollo_parser::cst::node_ext::ESCAPED_TRIPLE_QUOTE$")["value"]
    if tq == '"\\"\\"\\""' and etq == '"\\\\\\"\\"\\""':
        rep.instance("C06.BLOCK", 'TRIPLE_QUOTE = """ and ESCAPED_TRIPLE_QUOTE = \\"""')
    else:
        rep.finding("C06.BLOCK", "apollo_parser::cst::node_ext::TRIPLE_QUOTE", "constants", "triple-quote constants are %s / %s" % (tq, etq), None)
    # replace_into(line, ESCAPED, TRIPLE)
    ub = prog.fn(r"^apollo_parser::cst::node_ext::unescape_block_string$")
    body = prog.hir_body(ub)["body"]
    reps = [n for n in walk(body) if n.get("k") == "call" and (callee_path(n) or "").endswith("node_ext::replace_into")]
    good = reps and all(_const_name(n["args"][1]) == "ESCAPED_TRIPLE_QUOTE" and _const_name(n["args"][2]) == "TRIPLE_QUOTE" for n in reps)
    if good:
        rep.instance("C06.BLOCK", "unescape_block_string replaces ESCAPED_TRIPLE_QUOTE by TRIPLE_QUOTE (%d sites) and nothing else" % len(reps))
    else:
        rep.finding("C06.BLOCK", ub.name, "replace", "unescape_block_string does not replace exactly the escaped triple quote by the triple quote", ub.loc())
    # GraphQLLines::next
    nx = prog.fn(r"<apollo_parser::cst::node_ext::GraphQLLines<'a> as std::iter::Iterator>::next$")
    body = prog.hir_body(nx)["body"]
    mem = [n for n in walk(body) if n.get("k") == "call" and (callee_path(n) or "").endswith("memchr2")]
    needles = set()
    for n in mem:
        for a in n["args"][:2]:
            a = strip_expr(a)
            if a.get("k") == "lit":
                needles.add(a["v"])
    crlf = [n for n in walk(body) if n.get("k") == "lit" and n.get("t") == "str" and n.get("v") == "\r\n"]
    if needles == {0x0D, 0x0A} and crlf:
        rep.instance("C06.BLOCK", "GraphQLLines splits on CR / LF and treats CRLF as a single terminator")
    else:
        rep.finding("C06.BLOCK", nx.name, "line-split", "GraphQLLines does not split on exactly CR, LF and CRLF (needles %s, CRLF literal: %s)" % (sorted(needles), bool(crlf)), nx.loc())
    # delimiter offsets
    fs = prog.fn(r"node_ext::<impl std::convert::From<&('_ )?apollo_parser::cst::(generated::nodes::)?StringValue> for std::string::String>::from$")
    body = prog.hir_body(fs)["body"]
    ifs = [n for n in walk(body) if n.get("k") == "if"]
    ok = False
    for n in ifs:
        c = strip_expr(n["cond"])
        if c.get("k") == "call" and (callee_path(c) or "").endswith("is_block_string"):
            t = _slice_offsets(n["then"])
            e = _slice_offsets(n.get("else"))
            tcal = [callee_path(x) for x in walk(n["then"]) if x.get("k") == "call" and callee_path(x)]
            ecal = [callee_path(x) for x in walk(n["else"]) if x.get("k") == "call" and callee_path(x)]
            if t == (3, 3) and e == (1, 1) and any(x.endswith("unescape_block_string") for x in tcal) and any(x.endswith("unescape_string") for x in ecal):
                ok = True
            else:
                rep.finding("C06.BLOCK", fs.name, "delimiters", "delimiter offsets are %s for block strings and %s for quoted strings (expected (3, 3) and (1, 1))" % (t, e), fs.loc())
                ok = None
    if ok:
        rep.instance("C06.BLOCK", "From<&StringValue>: block strings strip 3+3 delimiter bytes and use unescape_block_string; quoted strings strip 1+1 and use unescape_string")
    elif ok is False:
        rep.fail("UNDECIDED rule=C06.BLOCK From<&StringValue>: `if is_block_string(..)` shape not recognised")
    ib = prog.fn(r"^apollo_parser::cst::node_ext::is_block_string$")
    body = prog.hir_body(ib)["body"]
    sw = [n for n in walk(body) if n.get("k") == "mcall" and n["m"] == "starts_with" and _const_name(n["args"][0]) == "TRIPLE_QUOTE"]
    if sw:
        rep.instance("C06.BLOCK", "is_block_string = starts_with(TRIPLE_QUOTE)")
    else:
        rep.finding("C06.BLOCK", ib.name, "is-block", "is_block_string is not starts_with(TRIPLE_QUOTE)", ib.loc())


def _const_name(e):
    e = strip_expr(e)
    if isinstance(e, dict) and e.get("k") == "path" and e.get("res") and e["res"][0] == "def":
        return e["res"][2].split("::")[-1]
    return None


def _slice_offsets(node):
    """(start, trailing) of `&text[a..text.len() - b]` inside node"""
    if node is None:
        return None
    for n in walk(node):
        if n.get("k") == "index":
            i = strip_expr(n["i"])
            if i.get("k") == "struct" and "Range" in str(i.get("res")):
                fl = dict((f[0], strip_expr(f[1])) for f in i["fields"])
                s, e = fl.get("start"), fl.get("end")
                if s is not None and s.get("k") == "lit" and e is not None and e.get("k") == "bin" and e["op"] == "-":
                    eb = strip_expr(e["b"])
                    if eb.get("k") == "lit":
                        return (s["v"], eb["v"])
    return None


def rule_conv(prog, rep):
    rep.floor("C06.CONV", 2)
    n = 0
    for fn in prog.fns.values():
        if fn.crate != "apollo_compiler" or "from_cst" not in fn.name:
            continue
        try:
            body = prog.hir_body(prog.fns.get(fn.root) if fn.root else fn)["body"]
        except Exception:
            continue
        if fn.root:
            continue
        for c in fn.live_calls():
            if re.search(r"From<&?('_ )?apollo_parser::cst::(generated::nodes::)?StringValue> for std::string::String>::from$", c.name):
                n += 1
                rep.instance("C06.CONV", "%s builds its string with String::from(cst::StringValue)" % fn.name.split("from_cst::")[-1][:70])
    if n < 2:
        rep.finding("C06.CONV", "apollo_compiler::ast::from_cst", "decoder-use", "string values / descriptions are no longer converted through String::from(&cst::StringValue)", None)
    # no conversion takes the raw token text of a STRING_VALUE
    for fn in prog.fns.values():
        if fn.crate == "apollo_compiler" and "from_cst" in fn.name and ("StringValue" in fn.name or "Description" in fn.name):
            for c in fn.live_calls():
                if re.search(r"SyntaxToken.*::text$|text_of_first_token$|::source_string$", c.name):
                    rep.finding("C06.CONV", fn.name, "raw-text", "a string conversion reads raw token text (%s) instead of the decoded value" % c.name.split("::")[-1], c.loc())


def run(prog, rep):
    rule_esc(prog, rep)
    rule_block(prog, rep)
    rule_indent(prog, rep)
    # which string tokens exist at all (escapes accepted, surrogates rejected, where a string ends)
    # is the lexer's decision: the lexer machine (C03.DFA), shared
    from . import lexer_dfa
    lexer_dfa.run(prog, rep)
    rule_conv(prog, rep)
    if rep.tier == "thorough":
        rep.note("C06.NOPANIC: discharged through C03.DFA facts (see C03 thorough tier)")
