"""C21.INV (thorough tier) - reviewed inventory of panic-capable sites in apollo-compiler.

Same construction as inv_parser: every `Assert` terminator (overflow, bounds; the pointer-alignment
and coroutine-resume asserts that rustc inserts in debug builds are excluded), every call to a
panicking std routine and every panic!/unreachable!/assert!/debug_assert! expansion in the crate
(outside Debug impls) was read once and given a discharge class.  The rule fails for a site that is
not in the table, or when a (function, kind) pair has more sites than were reviewed, naming it.
Conservative by construction (a new harmless unwrap is reported), hence thorough tier only."""
import re

from .inv_parser import PANIC_CALL, kind_of_call

TABLE = {
    ('<apollo_parser::cst::Name as ast::from_cst::Convert>::convert', 'call:panicking::panic'): (1, 'debug-assert', 'compiled out in release builds; states an invariant of parsed/validated input'),
    ('ast::impls::<impl apollo_compiler::ast::IntValue>::new_parsed', 'call:panicking::panic_fmt'): (1, 'debug-assert', 'compiled out in release builds; states an invariant of parsed/validated input'),
    ('ast::impls::<impl apollo_compiler::ast::FloatValue>::new_parsed', 'call:panicking::panic_fmt'): (1, 'debug-assert', 'compiled out in release builds; states an invariant of parsed/validated input'),
    ('ast::impls::try_to_f64', 'call:Result::unwrap_err'): (1, 'debug-assert', 'compiled out in release builds; states an invariant of parsed/validated input'),
    ('ast::impls::try_to_f64', 'call:panicking::panic_display'): (1, 'debug-assert', 'compiled out in release builds; states an invariant of parsed/validated input'),
    ('ast::impls::try_to_f64', 'call:panicking::panic'): (1, 'debug-assert', 'compiled out in release builds; states an invariant of parsed/validated input'),
    ('ast::impls::<impl std::convert::From<i32> for apollo_compiler::ast::IntValue>::from', 'call:panicking::panic_fmt'): (1, 'debug-assert', 'compiled out in release builds; states an invariant of parsed/validated input'),
    ('ast::impls::<impl std::convert::From<f64> for apollo_compiler::ast::FloatValue>::from', 'call:panicking::panic_fmt'): (1, 'debug-assert', 'compiled out in release builds; states an invariant of parsed/validated input'),
    ("ast::serialize::State::<'_, '_, '_>::indent", 'assert:Overflow(Add)'): (1, 'arith', 'a counter bounded by the size of the input / nesting depth'),
    ("ast::serialize::State::<'_, '_, '_>::indent_or_space", 'assert:Overflow(Add)'): (1, 'arith', 'a counter bounded by the size of the input / nesting depth'),
    ("ast::serialize::State::<'_, '_, '_>::dedent", 'assert:Overflow(Sub)'): (1, 'arith', 'a counter bounded by the size of the input / nesting depth'),
    ("ast::serialize::State::<'_, '_, '_>::dedent_or_space", 'assert:Overflow(Sub)'): (1, 'arith', 'a counter bounded by the size of the input / nesting depth'),
    ("ast::serialize::State::<'_, '_, '_>::require_new_line", 'call:Option::expect'): (1, 'guarded-by-caller', 'called only from serialize_block_string, which is entered under state.newlines_enabled()'),
    ('ast::serialize::serialize_string_value', 'call:<impl str>::split_at'): (1, 'find-index', 'i is the byte index returned by str::find: a char boundary'),
    ('ast::serialize::serialize_string_value', 'assert:BoundsCheck'): (1, 'find-index', 'rest starts with the matched character: not empty'),
    ('ast::serialize::serialize_string_value', 'call:Index<str>::index'): (1, 'find-index', 'the matched character is ASCII (one byte)'),
    ('ast::serialize::can_be_block_string::{closure#2}', 'assert:Overflow(Sub)'): (1, 'arith', 'a counter bounded by the size of the input / nesting depth'),
    ("<diagnostic::CliReport<'s>::into_string::OneTimeDisplay<'_> as std::fmt::Display>::fmt", 'call:Option::unwrap'): (1, 'internal-invariant', 'the wrapper is formatted exactly once by into_string'),
    ("executable::from_ast::ExecutableDocumentBuilder::<'schema, 'errors>::add_ast_document_not_adding_sources", 'call:panicking::panic'): (1, 'debug-assert', 'compiled out in release builds; states an invariant of parsed/validated input'),
    ("executable::from_ast::ExecutableDocumentBuilder::<'schema, 'errors>::add_ast_document_not_adding_sources", 'call:Option::unwrap'): (2, 'guarded-by-lookup', 'the else branch of an Entry::Vacant / contains test on the same key'),
    ('executable::OperationMap::len', 'assert:Overflow(Add)'): (1, 'arith', 'a counter bounded by the size of the input / nesting depth'),
    ('introspection::max_depth::check_selection_set', 'assert:Overflow(Add)'): (2, 'arith', 'a counter bounded by the size of the input / nesting depth'),
    ('introspection::max_depth::check_selection_set', 'assert:Overflow(Sub)'): (1, 'arith', 'a counter bounded by the size of the input / nesting depth'),
    ("<introspection::resolvers::TypeResolver<'_> as apollo_compiler::resolvers::ObjectValue>::resolve_field", 'call:panicking::panic'): (2, 'internal-invariant', 'an arm excluded by an earlier test in the same function'),
    ('introspection::resolvers::include_deprecated', 'call:panicking::panic'): (1, 'internal-invariant', 'an arm excluded by an earlier test in the same function'),
    ('name::Name::with_location', 'call:panicking::assert_failed'): (1, 'debug-assert', 'compiled out in release builds; states an invariant of parsed/validated input'),
    ('name::Name::new_len', 'call:panicking::panic_fmt'): (1, 'out-of-scope', 'names of 4 GiB and more (inputs over 4 GiB are out of scope)'),
    ('name::Name::is_valid_syntax', 'assert:BoundsCheck'): (1, 'loop-bound', 'i < bytes.len() is the loop condition (C10.NAME)'),
    ('name::Name::is_valid_syntax', 'assert:Overflow(Add)'): (1, 'arith', 'a counter bounded by the size of the input / nesting depth'),
    ('parser::_::<impl apollo_compiler::ast::_::_serde::Serialize for apollo_compiler::parser::LineColumn>::serialize', 'assert:Overflow(Add)'): (2, 'derive', 'arithmetic on field counts in serde-generated code'),
    ('parser::Parser::parse_type::{closure#1}', 'call:Option::expect'): (1, 'no-syntax-errors', 'runs only when the error list is empty: the tree has a TYPE root whose conversion is total'),
    ('parser::SourceFile::get_line_column', 'call:Index<str>::index'): (1, 'find-index', 'line_start is 0 or the index after an ASCII line terminator inside `before`'),
    ('parser::SourceFile::get_line_column', 'assert:Overflow(Add)'): (4, 'arith', 'a counter bounded by the size of the input / nesting depth'),
    ('parser::FileId::new', 'call:Option::unwrap'): (1, 'decided-by-C31.RMW', 'ids start at INITIAL = 3 and the tag bit is excluded before use: never zero'),
    ('parser::FileId::const_new', 'call:panicking::panic'): (2, 'const-eval', 'const fn evaluated at compile time for the three reserved ids'),
    ('parser::TaggedFileId::pack', 'call:panicking::panic'): (1, 'debug-assert', 'compiled out in release builds; states an invariant of parsed/validated input'),
    ('resolvers::execution::execute_field::{closure#0}', 'assert:BoundsCheck'): (1, 'non-empty-group', 'field groups are created by pushing a first field (collect_fields)'),
    ("resolvers::Execution::<'a>::operation", 'call:panicking::panic_fmt'): (1, 'api-contract', "documented `Panics if` of the Execution builder: a caller's double configuration, not input"),
    ("resolvers::Execution::<'a>::operation_name", 'call:panicking::panic_fmt'): (1, 'api-contract', "documented `Panics if` of the Execution builder: a caller's double configuration, not input"),
    ("resolvers::Execution::<'a>::implementers_map", 'call:panicking::panic_fmt'): (1, 'api-contract', "documented `Panics if` of the Execution builder: a caller's double configuration, not input"),
    ("resolvers::Execution::<'a>::coerced_variable_values", 'call:panicking::panic_fmt'): (1, 'api-contract', "documented `Panics if` of the Execution builder: a caller's double configuration, not input"),
    ("resolvers::Execution::<'a>::raw_variable_values", 'call:panicking::panic_fmt'): (1, 'api-contract', "documented `Panics if` of the Execution builder: a caller's double configuration, not input"),
    ("resolvers::Execution::<'a>::enable_schema_introspection", 'call:panicking::panic_fmt'): (1, 'api-contract', "documented `Panics if` of the Execution builder: a caller's double configuration, not input"),
    ("resolvers::Execution::<'a>::execute_sync", 'call:Option::expect'): (1, 'decided-by-C27.SHARED', 'now_or_never on a future that only awaits MaybeAsync::Sync values'),
    ("resolvers::ResolveInfo::<'a>::field_name", 'assert:BoundsCheck'): (1, 'non-empty-group', 'field groups are created by pushing a first field (collect_fields)'),
    ("resolvers::ResolveInfo::<'a>::field_definition", 'assert:BoundsCheck'): (1, 'non-empty-group', 'field groups are created by pushing a first field (collect_fields)'),
    ('resolvers::result_coercion::complete_value::{closure#0}', 'assert:BoundsCheck'): (1, 'non-empty-group', 'field groups are created by pushing a first field (collect_fields)'),
    ('resolvers::result_coercion::complete_value::{closure#0}', 'call:panicking::panic'): (1, 'internal-invariant', 'an arm excluded by an earlier test in the same function'),
    ('resolvers::result_coercion::complete_list_value::{closure#0}', 'assert:BoundsCheck'): (1, 'non-empty-group', 'field groups are created by pushing a first field (collect_fields)'),
    ('resolvers::result_coercion::complete_list_value::{closure#0}::{closure#0}', 'assert:BoundsCheck'): (1, 'non-empty-group', 'field groups are created by pushing a first field (collect_fields)'),
    ('resolvers::result_coercion::complete_leaf_value', 'assert:BoundsCheck'): (1, 'non-empty-group', 'field groups are created by pushing a first field (collect_fields)'),
    ('resolvers::result_coercion::complete_leaf_value', 'call:panicking::panic'): (1, 'internal-invariant', 'an arm excluded by an earlier test in the same function'),
    ('response::_::<impl apollo_compiler::ast::_::_serde::Serialize for apollo_compiler::response::ExecutionResponse>::serialize', 'assert:Overflow(Add)'): (2, 'derive', 'arithmetic on field counts in serde-generated code'),
    ('response::_::<impl apollo_compiler::ast::_::_serde::Serialize for apollo_compiler::response::GraphQLError>::serialize', 'assert:Overflow(Add)'): (4, 'derive', 'arithmetic on field counts in serde-generated code'),
    ('schema::from_ast::SchemaBuilder::built_in::{closure#0}', 'call:panicking::panic'): (1, 'static-input', 'the built-in schema is a compile-time constant document'),
    ('schema::from_ast::SchemaBuilder::build_inner', 'call:panicking::panic'): (1, 'guarded-by-lookup', 'orphan extensions exist only for names without a definition in schema.types'),
    ('schema::from_ast::SchemaBuilder::build_inner', 'call:Option::unwrap'): (1, 'variant-invariant', 'only type extensions (which all have a name) are queued as orphans'),
    ('schema::from_ast::adopt_type_extensions', 'assert:BoundsCheck'): (1, 'non-empty-group', 'an orphan entry is created by pushing its first extension'),
    ('schema::from_ast::adopt_type_extensions', 'call:panicking::panic'): (1, 'variant-invariant', 'unreachable!: only the six type-extension variants are queued'),
    ('schema::from_ast::adopt_type_extensions', 'call:Option::unwrap'): (6, 'variant-invariant', 'ext.name() of a type extension'),
    ('schema::Schema::new', 'call:Result::unwrap'): (1, 'static-input', 'an empty builder has no errors'),
    ('schema::validation::BuiltInScalars::all_used', 'assert:Overflow(Add)'): (1, 'arith', 'a counter bounded by the size of the input / nesting depth'),
    ('validation::fragment::validate_fragment_spread_type', 'call:panicking::panic'): (1, 'internal-invariant', 'an arm excluded by an earlier test in the same function'),
    ('validation::fragment::validate_fragment_spread_type', 'call:Option::unwrap'): (1, 'guarded-by-caller', 'validate_fragment_spread calls it inside the Some(def) arm of the same lookup'),
    ('<validation::DiagnosticData as apollo_compiler::diagnostic::ToCliReport>::report', 'call:panicking::panic'): (2, 'internal-invariant', 'an arm excluded by an earlier test in the same function'),
    ("validation::DepthGuard::<'_>::increment", 'assert:Overflow(Add)'): (1, 'arith', 'a counter bounded by the size of the input / nesting depth'),
    ("validation::RecursionGuard::<'_>::push", 'call:panicking::panic_fmt'): (1, 'debug-assert', 'compiled out in release builds; states an invariant of parsed/validated input'),
    ('validation::selection::same_name_and_arguments::{closure#0}', 'call:panicking::panic_fmt'): (1, 'debug-assert', 'compiled out in release builds; states an invariant of parsed/validated input'),
    ('validation::selection::same_name_and_arguments::{closure#0}', 'call:Option::unwrap'): (1, 'guarded-by-lookup', 'the closure is called for a name taken from one of the two argument lists'),
}


def sites(prog):
    out = []
    for fn in prog.fns.values():
        if fn.crate != "apollo_compiler":
            continue
        if re.search(r" as std::fmt::Debug>::fmt$", fn.name):
            continue
        for b in sorted(fn.live_blocks()):
            t = fn.term(b)
            if t[0] == "assert":
                kk = str(t[3])
                if "Misaligned" in kk or "NullDeref" in kk or "Resumed" in kk:
                    continue
                mm = re.match(r"^\['?(\w+)'?(?:, '?(\w+)'?)?", kk)
                kind = "assert:%s%s" % (mm.group(1), "(%s)" % mm.group(2) if mm.group(2) and mm.group(1) == "Overflow" else "") if mm else "assert:" + kk[:20]
                out.append((fn, kind, "%s:%s" % (fn.file, t[6][0])))
            elif t[0] == "call":
                c = fn.call_at(b)
                if PANIC_CALL.search(c.name):
                    out.append((fn, kind_of_call(c.name), c.loc()))
    return out


def run(prog, rep):
    rep.floor("C21.INV", 60)
    found = sites(prog)
    counts, where = {}, {}
    for fn, kind, loc in found:
        short = fn.name.replace("apollo_compiler::", "", 1)
        counts[(short, kind)] = counts.get((short, kind), 0) + 1
        where.setdefault((short, kind), []).append(loc)
    classes = {}
    for key, n in sorted(counts.items()):
        row = TABLE.get(key)
        if row is None:
            rep.finding("C21.INV", "apollo_compiler::" + key[0], "unreviewed:" + key[1],
                        "a panic-capable site (%s) is not in the reviewed inventory of apollo-compiler" % key[1], where[key][0])
        elif n > row[0]:
            rep.finding("C21.INV", "apollo_compiler::" + key[0], "count:" + key[1],
                        "%d sites of kind %s (reviewed: %d): a new panic-capable site" % (n, key[1], row[0]), where[key][-1])
        else:
            classes[row[1]] = classes.get(row[1], 0) + n
            rep.instance("C21.INV", "%s: %d x %s - %s (%s)" % (key[0].split("::")[-1][:40], n, key[1], row[1], row[2][:80]))
    rep.extra["inventory"] = {"sites": len(found), "rows": len(TABLE), "by_class": classes}
    gone = [k for k in TABLE if k not in counts]
    if gone:
        rep.note("inventory rows without a site on this tree: %d" % len(gone))
    rep.assume("ariadne rendering, serde_json and allocation failure are outside the inventory; `api-contract` rows panic on a caller's misuse of the builder API, not on input")
