"""C21.INV placeholder until the reviewed inventory is written (see inv_common)."""


def run(prog, rep):
    rep.note("C21.INV: panic-site inventory not built yet; thorough tier currently equals quick tier")
