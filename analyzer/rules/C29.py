"""C29 — Type compatibility checks match the specification (DESIGN.md C29)."""
import re

from ..core import AnchorError, Undecided
from ..hirq import callee_path, walk
from ..tables import (
    bindings,
    enum_paths,
    find_single_match,
    first_match,
    local_of,
    pat_matches_variant,
    return_value_on_path,
    strip_expr,
)

CRATES = ["apollo_compiler"]
LEVEL = "proof"
TRUSTED = [
    "rustc type checker / HIR / MIR construction (the extracted match arms and CFG are the program)",
    "the specification tables written in this file from the October 2021 text (AreTypesCompatible, IsVariableUsageAllowed, IsValidImplementationFieldType)",
    "structural induction: the recursive cell calls the same function on the item types, so the 16-cell table decides all nestings",
]
EXPLANATION = """
Finite decision tables extracted from the source and compared cell by cell with the
specification.  C29.ASSIGN: Type::is_assignable_to as a 4x4 table over (target variant, self
variant) with first-match semantics; each cell is `false`, `names equal`, or `recurse(self item,
target item)` with the argument order checked = AreTypesCompatible().  C29.IMPL: the same for
is_valid_implementation_field_type (names equal OR is_subtype(iface, impl)) and the variant table
of Schema::is_subtype.  C29.VARUSE: all CFG paths of is_variable_usage_allowed enumerated; for every
assignment of the atoms (location non-null, variable non-null, variable default present, variable
default is null, location default present) consistent with a path, the path's leaf must equal
IsVariableUsageAllowed() - in particular a `null` default must not count as a default.
obligations = table cells + atom assignments; the recursive cell closes the induction over nesting.
"""

VARIANTS = ["Named", "NonNullNamed", "List", "NonNullList"]


def spec_compat(target, self_):
    """AreTypesCompatible(variableType=self, locationType=target) at the outermost level"""
    tn, sn = target.startswith("NonNull"), self_.startswith("NonNull")
    tl, sl = target.endswith("List"), self_.endswith("List")
    if tn and not sn:
        return "false"
    if tl != sl:
        return "false"
    return "recurse" if tl else "eq"


_LISTS = ("List", "NonNullList")


def _mir_pair_table(fn, pa, pb, rec_re):
    """decision table of a two-type predicate read from the CFG: for every pair of variants
    (va of parameter pa, vb of parameter pb) the set of results over all paths whose conditions
    agree with the pair, each normalised to false | true | eq(name,name) | eq-true |
    subtype(x,y) | recurse(x,y).  Independent of whether the source is one tuple match, nested
    matches, if-chains or helper accessors (inner_named_type / item_type on a known variant)."""
    from ..flow import _strip
    A, B = "arg%d" % pa, "arg%d" % pb
    rows = enum_paths(fn)

    def agrees(atoms, va, vb):
        for f in _strip(atoms):
            if f[0] in ("variant", "variant_in") and f[1] in (A, B):
                v = va if f[1] == A else vb
                names = (f[2],) if f[0] == "variant" else tuple(f[2])
                pos = f[3] if (f[0] == "variant" and len(f) > 3) else True
                if (v in names) != (pos is not False):
                    return False
            if f[0] == "callbool" and re.search(r"Type>?::(is_list|is_named|is_non_null)$", f[1]) and f[2] and f[2][0] in (A, B):
                v = va if f[2][0] == A else vb
                q = f[1].rsplit("::", 1)[-1]
                val = {"is_list": v in _LISTS, "is_named": v not in _LISTS, "is_non_null": v.startswith("NonNull")}[q]
                if val is not f[3]:
                    return False
        return True

    def norm(x, va, vb):
        x = re.sub(r"as<\*const [^()]*Type>\(([^()]*)\.0\.pointer\)", r"\1", x)
        x = re.sub(r"[&*\s]", "", x)
        while True:
            m = re.fullmatch(r"\((.*)\)", x) or re.fullmatch(r"<NameasDeref>::deref\((.*)\)", x) or re.fullmatch(r"<Box<[^()]*>as(?:Deref|AsRef<[^()]*>)>::(?:deref|as_ref)\((.*)\)", x)
            if not m:
                break
            x = m.group(1)
        for arg, v in ((A, va), (B, vb)):
            if re.fullmatch(r"%s\.as:(Named|NonNullNamed)\.0" % arg, x) or (re.fullmatch(r"(\w+::)*inner_named_type\(%s\)" % arg, x) and v not in _LISTS):
                return "name(%s)" % ("a" if arg == A else "b")
            if re.fullmatch(r"%s\.as:(List|NonNullList)\.0" % arg, x) or (re.fullmatch(r"(\w+::)*item_type\(%s\)" % arg, x) and v in _LISTS):
                return "item(%s)" % ("a" if arg == A else "b")
            if re.fullmatch(r"(\w+::)*inner_named_type\(%s\)" % arg, x):
                return "innermost-name(%s)" % ("a" if arg == A else "b")
        return x[:60]

    def split_args(t):
        out, n, cur = [], 0, ""
        for ch in t:
            if ch == "," and n == 0:
                out.append(cur)
                cur = ""
                continue
            n += ch == "("
            n -= ch == ")"
            cur += ch
        out.append(cur)
        return [o.strip() for o in out]

    def leaf(atoms, path, va, vb):
        rv = return_value_on_path(fn, path) or "?"
        if rv == "const:false":
            return "false"
        if rv == "const:true":
            for f in atoms:
                if f[0] == "callbool" and re.search(r"PartialEq.*::eq$", f[1]) and f[3] is True and len(f) > 4:
                    ops = sorted(norm(fn.sym_on_path(a, path), va, vb) for a in f[4].args)
                    return "eq-true(%s)" % ",".join(ops)
            return "true"
        m = re.match(r"^(.*?)\((.*)\)$", rv)
        if m:
            callee, args = m.group(1), split_args(m.group(2))
            if re.search(r"::eq$|^eq$", callee) and len(args) == 2:
                return "eq(%s)" % ",".join(sorted(norm(a, va, vb) for a in args))
            if callee.endswith("is_subtype") and len(args) == 3:
                return "subtype(%s,%s)" % (norm(args[1], va, vb), norm(args[2], va, vb))
            if re.search(rec_re, callee):
                return "recurse(%s)" % ",".join(norm(a, va, vb) for a in args if not re.fullmatch(r"[&*]*arg\d+", a) or a.lstrip("&*") in (A, B))
        return "?" + rv[:80]

    table = {}
    for va in VARIANTS:
        for vb in VARIANTS:
            res = set()
            for atoms, rb, path in rows:
                if agrees(atoms, va, vb):
                    res.add(leaf(atoms, path, va, vb))
            table[(va, vb)] = res
    return table


def _cell_class(res, first, second):
    """first / second: 'a' or 'b' - the roles expected in first and second position"""
    n1, n2 = "name(%s)" % first, "name(%s)" % second
    i1, i2 = "item(%s)" % first, "item(%s)" % second
    eqn = "eq(%s)" % ",".join(sorted((n1, n2)))
    eqt = "eq-true(%s)" % ",".join(sorted((n1, n2)))
    if res == {"false"}:
        return "false"
    if res == {"true"}:
        return "true"
    if res == {eqn} or res == {eqt, "false"}:
        return "eq"
    if res == {eqt, "subtype(%s,%s)" % (n1, n2)}:
        return "eq-or-subtype"
    if res == {eqt, "subtype(%s,%s)" % (n2, n1)}:
        return "eq-or-subtype-swapped"
    if res == {"recurse(%s,%s)" % (i1, i2)}:
        return "recurse"
    if res == {"recurse(%s,%s)" % (i2, i1)}:
        return "recurse-swapped"
    return "other:" + "|".join(sorted(res))[:160]


def _tuple_match_table(prog, rep, fn, rule, first_param, second_param, classify):
    """extract {(v_first, v_second): class} from `match (first, second) { ... }`"""
    hb = prog.hir_body(fn)
    m = find_single_match(hb["body"])
    if m is None:
        raise Undecided("%s is no longer a single `match` expression (decision-table extractor needs that shape)" % fn.name)
    scrut = strip_expr(m["scrut"])
    if scrut.get("k") != "tup" or len(scrut["es"]) != 2:
        raise Undecided("%s: match scrutinee is not a pair" % fn.name)
    order = [local_of(e) for e in scrut["es"]]
    if sorted(order) != sorted([first_param, second_param]):
        raise Undecided("%s: match scrutinee is (%s), expected the two type parameters" % (fn.name, order))
    idx_first = order.index(first_param)
    idx_second = order.index(second_param)
    table = {}
    for a in VARIANTS:
        for b in VARIANTS:
            def pred(p):
                p2 = p
                while p2.get("k") == "ref":
                    p2 = p2["p"]
                if p2.get("k") == "or":
                    return any(pred(q) for q in p2["pats"])
                if p2.get("k") == "_":
                    return True
                if p2.get("k") != "tuple":
                    raise Undecided("%s: arm pattern is not a tuple" % fn.name)
                return pat_matches_variant(p2["pats"][idx_first], a) and pat_matches_variant(p2["pats"][idx_second], b)
            i = first_match(m["arms"], pred)
            if i is None:
                raise Undecided("%s: no arm matches (%s, %s)" % (fn.name, a, b))
            arm = m["arms"][i]
            # which bindings come from which side (for this cell, resolve or-patterns to the alternative that matches)
            bf, bs = _cell_bindings(arm["pat"], idx_first, idx_second, a, b)
            table[(a, b)] = (classify(strip_expr(arm["body"]), bf, bs), arm.get("l"))
    return table


def _cell_bindings(p, i1, i2, a, b):
    while p.get("k") == "ref":
        p = p["p"]
    if p.get("k") == "or":
        for q in p["pats"]:
            try:
                r = _cell_bindings(q, i1, i2, a, b)
            except Undecided:
                continue
            if r is not None:
                return r
        return None
    if p.get("k") != "tuple":
        return ([], [])
    if not (pat_matches_variant(p["pats"][i1], a) and pat_matches_variant(p["pats"][i2], b)):
        return None
    return (_alt_bindings(p["pats"][i1], a), _alt_bindings(p["pats"][i2], b))


def _alt_bindings(p, v):
    while p.get("k") == "ref":
        p = p["p"]
    if p.get("k") == "or":
        for q in p["pats"]:
            if pat_matches_variant(q, v):
                return _alt_bindings(q, v)
        return []
    return bindings(p)


def rule_assign(prog, rep):
    fn = prog.fn(r"^apollo_compiler::ast::impls::<impl apollo_compiler::ast::Type>::is_assignable_to$|^apollo_compiler::ast::Type::is_assignable_to$")

    def classify(body, b_target, b_self):
        if body.get("k") == "lit" and body.get("t") == "bool":
            return "true" if body["v"] else "false"
        if body.get("k") == "bin" and body.get("op") == "==":
            l, r = local_of(body["a"]), local_of(body["b"])
            if {l, r} == {(b_target or [None])[0], (b_self or [None])[0]} and l != r:
                return "eq"
            return "eq?(%s,%s)" % (l, r)
        if body.get("k") == "mcall" and re.search(r"Type>?::is_assignable_to$", body.get("callee") or ""):
            recv, arg = local_of(body["recv"]), local_of(body["args"][0])
            if b_self and b_target and recv == b_self[0] and arg == b_target[0]:
                return "recurse"
            if b_self and b_target and recv == b_target[0] and arg == b_self[0]:
                return "recurse-swapped"
            return "recurse?(%s,%s)" % (recv, arg)
        return "other:%s" % body.get("k")

    try:
        table = _tuple_match_table(prog, rep, fn, "C29.ASSIGN", "target", "self", classify)
    except Undecided:
        table = {}
    # the deciding table is read from the CFG (self = arg1, target = arg2; the recursion is
    # item(self).is_assignable_to(item(target))); the typed-HIR table only supplies line numbers
    mir = _mir_pair_table(prog.inline(fn, keep=r"is_assignable_to$"), 1, 2, r"is_assignable_to$")
    for (s, t), res in sorted(mir.items()):
        line = table.get((t, s), (None, None))[1]
        table[(t, s)] = (_cell_class(res, "a", "b"), line)
    for (t, s), (cls, line) in sorted(table.items()):
        want = spec_compat(t, s)
        ok = cls == want
        rep.obligation(ok)
        if ok:
            rep.instance("C29.ASSIGN", "cell (target=%s, self=%s) = %s" % (t, s, cls))
        else:
            rep.finding("C29.ASSIGN", fn.name, "cell:%s:%s" % (t, s),
                        "is_assignable_to(target=%s, self=%s) is `%s`; AreTypesCompatible() requires `%s`" % (t, s, cls, want), fn.loc(line))
    # nullable(): NonNullNamed -> Named, NonNullList -> List, identity otherwise (used by VARUSE leaf)
    nf = prog.fn(r"impl apollo_compiler::ast::Type>::nullable$|^apollo_compiler::ast::Type::nullable$")
    hb = prog.hir_body(nf)
    m = find_single_match(hb["body"])
    if m is None:
        raise Undecided("Type::nullable is not a single match")
    want = {"Named": "self", "List": "self", "NonNullNamed": "Named", "NonNullList": "List"}
    for v in VARIANTS:
        i = first_match(m["arms"], lambda p: pat_matches_variant(p, v))
        body = strip_expr(m["arms"][i]["body"])
        if body.get("k") == "path" and local_of(body) == "self":
            got = "self"
        elif body.get("k") == "call":
            cp = callee_path(body) or ""
            got = cp.split("::")[-1]
            # payload must be the bound payload
            bs = bindings(m["arms"][i]["pat"])
            if not (bs and local_of(body["args"][0]) == bs[0]):
                got += "?"
        else:
            got = "other"
        ok = got == want[v]
        rep.obligation(ok)
        if ok:
            rep.instance("C29.ASSIGN", "nullable(%s) = %s" % (v, got))
        else:
            rep.finding("C29.ASSIGN", nf.name, "nullable:" + v, "Type::nullable maps %s to `%s`, expected %s" % (v, got, want[v]), nf.loc())
    # is_non_null
    inn = prog.fn(r"impl apollo_compiler::ast::Type>::is_non_null$|^apollo_compiler::ast::Type::is_non_null$")
    hb = prog.hir_body(inn)
    ms = [n for n in walk(hb["body"]) if n.get("k") == "match"]
    if len(ms) != 1:
        raise Undecided("Type::is_non_null is not a single matches!")
    for v in VARIANTS:
        i = first_match(ms[0]["arms"], lambda p: pat_matches_variant(p, v))
        body = strip_expr(ms[0]["arms"][i]["body"])
        got = body.get("v") if body.get("k") == "lit" else None
        ok = got == v.startswith("NonNull")
        rep.obligation(ok)
        if ok:
            rep.instance("C29.ASSIGN", "is_non_null(%s) = %s" % (v, got))
        else:
            rep.finding("C29.ASSIGN", inn.name, "is_non_null:" + v, "is_non_null(%s) = %s" % (v, got), inn.loc())


def rule_impl(prog, rep):
    fn = prog.fn(r"^apollo_compiler::validation::interface::is_valid_implementation_field_type$")

    def classify(body, b_iface, b_impl):
        if body.get("k") == "lit" and body.get("t") == "bool":
            return "true" if body["v"] else "false"
        if body.get("k") == "bin" and body.get("op") == "||":
            l, r = strip_expr(body["a"]), strip_expr(body["b"])
            if r.get("k") == "bin" and r.get("op") == "==":
                l, r = r, l
            okeq = l.get("k") == "bin" and l.get("op") == "==" and {local_of(l["a"]), local_of(l["b"])} == {b_iface[0], b_impl[0]}
            oksub = r.get("k") == "mcall" and (r.get("callee") or "").endswith("Schema::is_subtype") and local_of(r["args"][0]) == b_iface[0] and local_of(r["args"][1]) == b_impl[0]
            if okeq and oksub:
                return "eq-or-subtype"
            if okeq and r.get("k") == "mcall" and (r.get("callee") or "").endswith("Schema::is_subtype"):
                return "eq-or-subtype-swapped"
            return "or?"
        if body.get("k") == "call" and (callee_path(body) or "").endswith("is_valid_implementation_field_type"):
            a1, a2 = local_of(body["args"][1]), local_of(body["args"][2])
            if b_iface and b_impl and a1 == b_iface[0] and a2 == b_impl[0]:
                return "recurse"
            return "recurse-swapped" if b_iface and b_impl and a1 == b_impl[0] and a2 == b_iface[0] else "recurse?"
        return "other:%s" % body.get("k")

    try:
        table = _tuple_match_table(prog, rep, fn, "C29.IMPL", "interface_field_type", "impl_field_type", classify)
    except Undecided:
        table = {}
    # local helpers (a `same or subtype` function) are folded in first, so the table is that of
    # the behaviour, not of where the comparison was written
    mir = _mir_pair_table(prog.inline(fn, keep=r"is_valid_implementation_field_type$|Schema::is_subtype$"), 2, 3, r"is_valid_implementation_field_type$")
    for (t, s), res in sorted(mir.items()):
        line = table.get((t, s), (None, None))[1]
        table[(t, s)] = (_cell_class(res, "a", "b"), line)
    for (t, s), (cls, line) in sorted(table.items()):
        want = spec_compat(t, s)
        want = "eq-or-subtype" if want == "eq" else want
        ok = cls == want
        rep.obligation(ok)
        if ok:
            rep.instance("C29.IMPL", "cell (interface=%s, impl=%s) = %s" % (t, s, cls))
        else:
            rep.finding("C29.IMPL", fn.name, "cell:%s:%s" % (t, s),
                        "is_valid_implementation_field_type(interface=%s, impl=%s) is `%s`; IsValidImplementationFieldType() requires `%s`" % (t, s, cls, want), fn.loc(line))
    # Schema::is_subtype(abstract_type, maybe_subtype) as a decision table over (kind of the
    # abstract type or missing, kind of the candidate or missing).  Closures given to
    # Option::is_some_and are expanded in place (analyzer/inline.py), so the table is the same
    # whether the function is written with combinators, let-else or nested matches.
    st = prog.inline(prog.fn(r"^apollo_compiler::schema::Schema::is_subtype$"))
    EXT = ["Scalar", "Object", "Interface", "Union", "Enum", "InputObject"]
    from ..flow import _strip

    def lookup_role(path):
        m = re.match(r"^call:.*::get@(\d+)(\.as:Some\.0)?$", path)
        if not m:
            return None
        c = st.call_at(int(m.group(1)))
        if c is None or len(c.args) != 2 or not re.sub(r"[&*]", "", st.sym(c.args[0])).endswith("arg1.types"):
            return None
        key = re.sub(r"[&*]", "", st.sym(c.args[1]))
        role = {"arg2": "A", "arg3": "S"}.get(key)
        return (role, bool(m.group(2))) if role else None

    paths = []
    for atoms, rb, path in enum_paths(st):
        preds = []
        for f in _strip(atoms):
            names = (f[2],) if f[0] == "variant" else (tuple(f[2]) if f[0] == "variant_in" else None)
            role = lookup_role(f[1]) if names else None
            if role is None:
                raise Undecided("Schema::is_subtype: unrecognised condition %s" % (f,))
            r, payload = role
            if payload:
                preds.append((r, lambda v, ns=names: v in ns))
            else:
                preds.append((r, lambda v, ns=names: ("None" if v == "missing" else "Some") in ns))
        val = re.sub(r"<Node<T> as Deref>::deref\(([^()]*(\([^()]*\))?[^()]*)\)", r"\1", return_value_on_path(st, path) or "")
        val = re.sub(r"[&*]", "", val)
        m = re.match(r"^IndexSet::contains\(IndexMap::get\(arg1\.types, (arg\d)\)\.as:Some\.0\.as:(\w+)\.0\)?\.(\w+), (arg\d)\)$", val)
        if val == "const:false":
            leaf = "false"
        elif val == "const:true":
            leaf = "true"
        elif m:
            leaf = "%s(%s).%s.contains(%s)" % (m.group(2), m.group(1), m.group(3), m.group(4))
        else:
            leaf = "?" + val[:100]
        paths.append((preds, leaf))
    bad_outer, bad_inner, bad_contains = {}, {}, []
    for A in EXT + ["missing"]:
        for S in EXT + ["missing"]:
            env = {"A": A, "S": S}
            leaves = set(leaf for preds, leaf in paths if all(pred(env[r]) for r, pred in preds))
            if A == "Union":
                want = "Union(arg2).members.contains(arg3)"
            elif A == "Interface" and S in ("Object", "Interface"):
                want = "%s(arg3).implements_interfaces.contains(arg2)" % S
            else:
                want = "false"
            ok = leaves == {want}
            rep.obligation(ok)
            if ok:
                continue
            if A == "Interface" and S in ("Object", "Interface") and any("implements_interfaces.contains" in l for l in leaves):
                bad_contains.append((A, S, sorted(leaves), want))
            elif A == "Interface":
                bad_inner.setdefault(S, (sorted(leaves), want))
            else:
                bad_outer.setdefault(A, (sorted(leaves), want))
    for v in EXT:
        if v in bad_outer:
            rep.finding("C29.IMPL", st.name, "subtype-outer:" + v, "is_subtype with abstract type of kind %s is `%s`, expected `%s`" % (v, bad_outer[v][0], bad_outer[v][1]), st.loc())
        else:
            rep.instance("C29.IMPL", "is_subtype: abstract type %s -> %s" % (v, {"Interface": "implements", "Union": "members.contains(maybe_subtype)"}.get(v, "false")))
    if "missing" in bad_outer:
        rep.finding("C29.IMPL", st.name, "subtype-outer:missing", "is_subtype with an undefined abstract type is `%s`, expected false" % (bad_outer["missing"][0],), st.loc())
    for v in EXT:
        if v in bad_inner:
            rep.finding("C29.IMPL", st.name, "subtype-inner:" + v, "is_subtype for a candidate of kind %s uses `%s`, expected `%s`" % (v, bad_inner[v][0], bad_inner[v][1]), st.loc())
        else:
            rep.instance("C29.IMPL", "is_subtype: candidate of kind %s -> %s" % (v, "implements_interfaces" if v in ("Object", "Interface") else "return false"))
    if "missing" in bad_inner:
        rep.finding("C29.IMPL", st.name, "subtype-inner:missing", "is_subtype for an undefined candidate is `%s`, expected false" % (bad_inner["missing"][0],), st.loc())
    if bad_contains:
        rep.finding("C29.IMPL", st.name, "subtype-contains", "the implements list is not tested for the abstract type's name: %s" % (bad_contains[0],), st.loc())
    else:
        rep.instance("C29.IMPL", "is_subtype: implements_interfaces.contains(abstract_type)")


def rule_varuse(prog, rep):
    fn = prog.fn(r"^apollo_compiler::validation::variable::is_variable_usage_allowed$")
    paths = enum_paths(fn)
    if not paths:
        raise Undecided("is_variable_usage_allowed: no paths")

    def classify_atom(f):
        """-> (atom, value) or None"""
        if f[0] == "callbool":
            name, args, val = f[1], f[2], f[3]
            a0 = (args[0] or "") if args else ""
            if re.search(r"Type>?::is_non_null$", name):
                if a0.startswith("arg2.ty") or a0.startswith("call:") and "arg2" in a0:
                    return ("loc_nonnull", val)
                if a0.startswith("arg1.ty"):
                    return ("var_nonnull", val)
            if name.endswith("Option::<T>::is_some") or name.endswith("Option::<T>::is_none"):
                v = val if name.endswith("is_some") else (not val)
                if a0.startswith("arg1.default_value"):
                    return ("var_default_some", v)
                if a0.startswith("arg2.default_value"):
                    return ("loc_default_some", v)
            if re.search(r"Value>?::is_null$", name):
                if "arg1.default_value" in a0 or "arg1" in a0:
                    return ("var_default_null", val)
            if re.search(r"Option::<T>::is_some_and$", name) and "arg1.default_value" in a0:
                # `default_value.as_ref().is_some_and(|v| !v.is_null())`
                call = f[4] if len(f) > 4 else None
                clo = None
                if call is not None and len(call.args) > 1:
                    from ..core import op_local
                    l = op_local(call.args[1])
                    sd = fn.single_def(l) if l is not None else None
                    if sd and sd[2][0] == "agg" and isinstance(sd[2][1], list) and sd[2][1][0] == "closure":
                        clo = prog.fns.get(sd[2][1][1])
                if clo is None:
                    raise Undecided("is_some_and with a callable that is not a local closure")
                leaves = set(return_value_on_path(clo, p) for _a, _r, p in enum_paths(clo))
                if all(re.match(r"^Not\(\w+::is_null\(.*arg2.*\)\)$", x or "") for x in leaves) and leaves:
                    return ("has_nonnull_default", val)
                raise Undecided("is_some_and closure is not `|v| !v.is_null()` (%s)" % sorted(leaves))
            if re.search(r"Option::<T>::is_some_and$|Option::<T>::is_none_or$", name):
                raise Undecided("closure-based Option test in is_variable_usage_allowed (idiom not enumerated)")
        if f[0] == "variant":
            path, variant = f[1], f[2]
            if path.startswith("arg1.default_value"):
                if variant in ("Some", "None") and path.rstrip(".") == "arg1.default_value":
                    return ("var_default_some", variant == "Some")
                if variant == "Null":
                    return ("var_default_null", True)
            if path.startswith("arg2.default_value") and variant in ("Some", "None"):
                return ("loc_default_some", variant == "Some")
        if f[0] == "variant_in":
            path, vs = f[1], f[2]
            if path.startswith("arg1.default_value") and "Null" not in vs and "Some" not in vs and "None" not in vs:
                return ("var_default_null", False)
        return None

    def leaf_class(v):
        if v in ("const:false",):
            return "false"
        if v in ("const:true",):
            return "true"
        m = re.match(r"^\w+::is_assignable_to\((.*)\)$", v or "")
        if m:
            args = m.group(1)
            if re.search(r"\w+::nullable\(", args):
                first, rest = args.split(", ", 1)
                return "assignable(var, nullable(loc))" if "arg1.ty" in first and "arg2.ty" in rest and "arg1" not in rest else "assignable(?, nullable)"
            first = args.split(",")[0]
            if "arg1.ty" in first and "arg2.ty" in args:
                return "assignable(var, loc)"
            return "assignable(?)"
        return "other:%s" % v

    def spec(a):
        if a["loc_nonnull"] and not a["var_nonnull"]:
            has_nonnull_default = a["var_default_some"] and not a["var_default_null"]
            if not has_nonnull_default and not a["loc_default_some"]:
                return "false"
            return "assignable(var, nullable(loc))"
        return "assignable(var, loc)"

    ATOMS = ["loc_nonnull", "var_nonnull", "var_default_some", "var_default_null", "loc_default_some"]
    n_assign = 0
    bad = {}
    for atoms, rb, path in paths:
        known = {}
        combined = []
        for f in atoms:
            ca = classify_atom(f)
            if ca is None:
                continue
            if ca[0] == "has_nonnull_default":
                combined.append(ca[1])
                continue
            known[ca[0]] = ca[1]
        leaf = leaf_class(return_value_on_path(fn, path))
        # all completions of the unknown atoms
        unknown = [x for x in ATOMS if x not in known]
        for bits in range(1 << len(unknown)):
            a = dict(known)
            for i, x in enumerate(unknown):
                a[x] = bool(bits >> i & 1)
            if a["var_default_null"] and not a["var_default_some"]:
                continue  # a null default is a present default
            if any((a["var_default_some"] and not a["var_default_null"]) != v for v in combined):
                continue  # inconsistent with an `is_some_and(|v| !v.is_null())` test on this path
            n_assign += 1
            want = spec(a)
            ok = leaf == want
            rep.obligation(ok)
            if not ok:
                key = tuple(sorted((k, v) for k, v in a.items() if k in ("loc_nonnull", "var_nonnull", "var_default_some", "var_default_null", "loc_default_some")))
                bad.setdefault((leaf, want), []).append(a)
    for (leaf, want), cases in sorted(bad.items()):
        ex = cases[0]
        null_case = all(c["var_default_null"] for c in cases)
        site = "null-default" if null_case else "atoms"
        rep.finding("C29.VARUSE", fn.name, site + ":" + want.split("(")[0],
                    "for %s the function returns `%s` but IsVariableUsageAllowed() gives `%s`%s" % (
                        ", ".join("%s=%s" % (k, ex[k]) for k in ATOMS), leaf, want,
                        " (the default-value test never asks whether the default is `null`)" if null_case else ""), fn.loc())
    rep.instance("C29.VARUSE", "%d CFG paths x atom completions = %d assignments compared with IsVariableUsageAllowed(); mismatching leaf classes: %d" % (len(paths), n_assign, len(bad)))


def run(prog, rep):
    rep.floor("C29.ASSIGN", 16)
    rep.floor("C29.IMPL", 16)
    rep.floor("C29.VARUSE", 1)
    rule_assign(prog, rep)
    rule_impl(prog, rep)
    rule_varuse(prog, rep)
