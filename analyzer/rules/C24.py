"""C24 — Introspection agrees with the reference implementation (DESIGN.md C24).

Equality of response data with graphql-js on all schemas is NOT decidable by this family.
Decided: the introspection resolvers are string-keyed tables over the schema; each table is
extracted from the type-checked source and compared with the introspection schema the crate itself
ships (built_in_types.graphql) and with the spec's per-kind table."""
import os
import re

from ..core import AnchorError, Undecided
from ..hirq import walk
from ..hirx import Scope

CRATES = ["apollo_parser", "apollo_compiler"]
LEVEL = "other"
EXPLANATION = """
C24.FIELDS: each of the seven introspection resolvers (__Schema, __Type for definitions, __Type for
list/non-null wrappers, __Directive, __Field, __EnumValue, __InputValue) reports its own type name
and handles exactly the fields that built_in_types.graphql declares for that type (a declared field
without an arm is a field error on a valid introspection query).  C24.KIND: __Type.kind is
SCALAR/OBJECT/INTERFACE/UNION/ENUM/INPUT_OBJECT by ExtendedType variant and LIST/NON_NULL by wrapper,
all members of __TypeKind.  C24.PERKIND: fields / interfaces are non-null for OBJECT and INTERFACE
only, possibleTypes for INTERFACE and UNION, enumValues for ENUM, inputFields for INPUT_OBJECT,
specifiedByURL for SCALAR, ofType for wrappers only (null on definitions), and wrappers answer null
for everything but kind and ofType.  C24.OFTYPE: List(t) -> t, NonNullNamed(n) -> the definition of
n, NonNullList(t) -> List(t); a named type is resolved through schema.types.  C24.ROOTS:
queryType / mutationType / subscriptionType read schema_definition.query / mutation /
subscription.  C24.DEPRECATED: every deprecable list is filtered by
`includeDeprecated || no @deprecated`, isDeprecated is `@deprecated present`, deprecationReason
reads its `reason` argument, includeDeprecated defaults to false.  C24.LEAVES: name / description /
type / defaultValue / isRepeatable / locations read the same-named part of the definition.
"""

R = "apollo_compiler::introspection::resolvers::"
RESOLVERS = {
    "SchemaMetaField": "__Schema",
    "TypeDefResolver<'_>": "__Type",
    "TypeResolver<'_>": "__Type",
    "DirectiveResolver<'_>": "__Directive",
    "FieldResolver<'_>": "__Field",
    "EnumValueResolver<'_>": "__EnumValue",
    "InputValueResolver<'_>": "__InputValue",
}


def builtin_types():
    repo = os.environ.get("VERIF_REPO", "/repo")
    p = os.path.join(repo, "crates/apollo-compiler/src/built_in_types.graphql")
    if not os.path.isfile(p):
        raise AnchorError("built_in_types.graphql not found")
    txt = open(p).read()
    txt = re.sub(r'"""(?:.|\n)*?"""', "", txt)
    txt = re.sub(r'"[^"\n]*"', "", txt)
    txt = re.sub(r"#[^\n]*", "", txt)
    out = {}
    for m in re.finditer(r"\b(type|enum)\s+(__\w+)\s*\{([^}]*)\}", txt):
        kind, name, body = m.groups()
        if kind == "type":
            out[name] = re.findall(r"^\s*(\w+)\s*(?:\([^)]*\))?\s*:", body, re.M)
        else:
            out[name] = re.findall(r"^\s*([A-Z_]+)\s*$", body, re.M)
    return out


def arms_of(prog, struct):
    f = prog.fn(r"^<%s%s as apollo_compiler::resolvers::ObjectValue>::resolve_field$" % (re.escape(R), re.escape(struct)))
    hb = prog.hir_body(f)
    sc = Scope(hb)
    ms = [n for n in walk(hb["body"]) if n.get("k") == "match" and n.get("src") == "normal" and sc.key(n["scrut"]) == "param:info.field_name()"]
    if len(ms) != 1:
        raise Undecided("%s::resolve_field is not a single match on info.field_name()" % struct)
    arms = {}
    default = None
    for arm in ms[0]["arms"]:
        lits = [q["v"] for q in walk(arm["pat"]) if q.get("k") == "lit" and q.get("t") == "str"]
        if not lits:
            default = arm
        for l in lits:
            arms[l] = arm
    return f, hb, sc, arms, default


def rule_fields(prog, rep, bt):
    rep.floor("C24.FIELDS", 14)
    for struct, tyname in RESOLVERS.items():
        tn = prog.fn(r"^<%s%s as apollo_compiler::resolvers::ObjectValue>::type_name$" % (re.escape(R), re.escape(struct)))
        tb = prog.hir_body(tn)["body"]
        while tb.get("k") == "block" and not tb.get("stmts") and tb.get("expr") is not None:
            tb = tb["expr"]
        vals = [tb.get("v")] if tb.get("k") == "lit" else []
        ok = vals == [tyname]
        rep.obligation(ok)
        if ok:
            rep.instance("C24.FIELDS", "%s::type_name() = %s" % (struct, tyname))
        else:
            rep.finding("C24.FIELDS", tn.name, "type-name", "%s reports type name %s, expected %s" % (struct, vals, tyname), tn.loc())
        f, hb, sc, arms, default = arms_of(prog, struct)
        declared = set(bt.get(tyname, []))
        if not declared:
            raise AnchorError("type %s not found in built_in_types.graphql" % tyname)
        got = set(arms)
        missing, extra = declared - got, got - declared
        ok = not missing and not extra and default is not None and "unknown_field_error" in sc.key(default["body"])
        rep.obligation(ok)
        if ok:
            rep.instance("C24.FIELDS", "%s handles exactly the %d fields declared for %s; anything else is unknown_field_error" % (struct, len(declared), tyname))
        else:
            rep.finding("C24.FIELDS", f.name, "fields", "%s handles %s but %s declares %s (missing %s, extra %s)" % (struct, sorted(got), tyname, sorted(declared), sorted(missing), sorted(extra)), f.loc())


def _variant_map(sc, m):
    """match over enum variants with literal bodies -> {variant: key of body}"""
    out = {}
    for arm in m["arms"]:
        vs = []
        for q in walk(arm["pat"]):
            if q.get("k") in ("tstruct", "path", "struct") and q.get("res") and q["res"][0] == "def":
                vs.append((q["res"][4] if len(q["res"]) > 4 else q["res"][2]).split("::")[-1])
        for v in vs:
            out[v] = sc.key(arm["body"])
    return out


def rule_kind(prog, rep, bt):
    rep.floor("C24.KIND", 2)
    f, hb, sc, arms, _d = arms_of(prog, "TypeDefResolver<'_>")
    ms = [n for n in walk(arms["kind"]["body"]) if n.get("k") == "match"]
    got = _variant_map(sc, ms[0]) if len(ms) == 1 else {}
    want = {"Scalar": "'SCALAR'", "Object": "'OBJECT'", "Interface": "'INTERFACE'", "Union": "'UNION'", "Enum": "'ENUM'", "InputObject": "'INPUT_OBJECT'"}
    ok = got == want and sc.key(ms[0]["scrut"]) == "param:self.def"
    rep.obligation(ok)
    if ok:
        rep.instance("C24.KIND", "definitions: %s" % ", ".join("%s->%s" % (k, v.strip("'")) for k, v in want.items()))
    else:
        rep.finding("C24.KIND", f.name, "definition-kinds", "__Type.kind for definitions is %s" % got, f.loc())
    f2, hb2, sc2, arms2, _d = arms_of(prog, "TypeResolver<'_>")
    ms = [n for n in walk(arms2["kind"]["body"]) if n.get("k") == "match"]
    got = _variant_map(sc2, ms[0]) if len(ms) == 1 else {}
    ok = got.get("List") == "'LIST'" and got.get("NonNullNamed") == "'NON_NULL'" and got.get("NonNullList") == "'NON_NULL'"
    allk = set(v.strip("'") for v in list(want.values()) + ["'LIST'", "'NON_NULL'"])
    ok = ok and allk == set(bt.get("__TypeKind", []))
    rep.obligation(ok)
    if ok:
        rep.instance("C24.KIND", "wrappers: List->LIST, NonNullNamed/NonNullList->NON_NULL; the eight kinds are exactly __TypeKind")
    else:
        rep.finding("C24.KIND", f2.name, "wrapper-kinds", "__Type.kind for wrappers is %s (enum __TypeKind: %s)" % (got, bt.get("__TypeKind")), f2.loc())


PERKIND = {
    "fields": {"Object", "Interface"},
    "interfaces": {"Object", "Interface"},
    "possibleTypes": {"Interface", "Union"},
    "enumValues": {"Enum"},
    "inputFields": {"InputObject"},
    "specifiedByURL": {"Scalar"},
}
ALL = {"Scalar", "Object", "Interface", "Union", "Enum", "InputObject"}


def rule_perkind(prog, rep):
    rep.floor("C24.PERKIND", 8)
    f, hb, sc, arms, _d = arms_of(prog, "TypeDefResolver<'_>")
    for field, nonnull in PERKIND.items():
        arm = arms.get(field)
        if arm is None:
            continue
        body = arm["body"]
        null_variants, data_variants = set(), set()
        found = False
        for n in walk(body):
            if n.get("k") == "match" and sc.key(n.get("scrut", {})) == "param:self.def":
                found = True
                for a in n["arms"]:
                    vs = set()
                    for q in walk(a["pat"]):
                        if q.get("k") in ("tstruct", "path", "struct") and q.get("res") and q["res"][0] == "def":
                            vs.add((q["res"][4] if len(q["res"]) > 4 else q["res"][2]).split("::")[-1])
                    ab = a["body"]
                    kb = sc.key(ab["e"]) if ab.get("k") == "ret" and ab.get("e") else sc.key(ab)
                    if re.search(r"ResolvedValue::<'a>::null\(\)", kb):
                        null_variants |= vs
                    else:
                        data_variants |= vs
            if n.get("k") == "slet" and n.get("els") is not None and sc.key(n.get("init", {})) == "param:self.def":
                found = True
                for q in walk(n["pat"]):
                    if q.get("k") in ("tstruct", "path", "struct") and q.get("res") and q["res"][0] == "def":
                        data_variants.add((q["res"][4] if len(q["res"]) > 4 else q["res"][2]).split("::")[-1])
                if re.search(r"ResolvedValue::<'a>::null\(\)", " ".join(sc.key(x.get("e", {})) for x in walk(n["els"]) if x.get("k") == "ret")):
                    null_variants |= ALL - data_variants
        ok = found and data_variants == nonnull and null_variants == ALL - nonnull
        rep.obligation(ok)
        if ok:
            rep.instance("C24.PERKIND", "__Type.%s: data for %s, null for every other kind" % (field, "/".join(sorted(nonnull))))
        else:
            rep.finding("C24.PERKIND", f.name, "field:" + field, "__Type.%s gives data for %s and null for %s; the introspection schema prescribes data for %s only" % (field, sorted(data_variants), sorted(null_variants), sorted(nonnull)), f.loc(arm.get("l")))
    ok = re.search(r"^Ok\(.*ResolvedValue::<'a>::null\(\)\)$", sc.key(arms["ofType"]["body"])) is not None
    rep.obligation(ok)
    if ok:
        rep.instance("C24.PERKIND", "__Type.ofType is null for type definitions")
    else:
        rep.finding("C24.PERKIND", f.name, "field:ofType", "ofType of a type definition is not null", f.loc())
    f2, hb2, sc2, arms2, _d = arms_of(prog, "TypeResolver<'_>")
    bad = [k for k, a in arms2.items() if k not in ("kind", "ofType") and not re.search(r"^Ok\(.*ResolvedValue::<'a>::null\(\)\)$", sc2.key(a["body"]))]
    rep.obligation(not bad)
    if not bad:
        rep.instance("C24.PERKIND", "list / non-null wrappers answer null for every field but kind and ofType")
    else:
        rep.finding("C24.PERKIND", f2.name, "wrapper-fields", "wrapper types answer non-null for %s" % bad, f2.loc())


COLLECTIONS = {"objects", "interfaces", "members", "implements_interfaces", "fields", "values"}
SOURCES = {
    ("fields", "Object"): "fields", ("fields", "Interface"): "fields",
    ("interfaces", "Object"): "implements_interfaces", ("interfaces", "Interface"): "implements_interfaces",
    ("possibleTypes", "Interface"): "objects", ("possibleTypes", "Union"): "members",
    ("enumValues", "Enum"): "values", ("inputFields", "InputObject"): "fields",
}


def rule_sources(prog, rep):
    """C24.SOURCES: for each (field of __Type, kind of type) that yields data, the collection the
    data is read from: possibleTypes of an INTERFACE are the implementing *objects* (not the
    implementing interfaces), of a UNION its members; interfaces = implements_interfaces; fields /
    inputFields = fields; enumValues = values.  A neighbouring collection of the same element type
    (Implementers.interfaces, Implementers::iter() = objects followed by interfaces) type-checks."""
    rep.floor("C24.SOURCES", 8)
    from ..hirq import callee_path
    f, hb, sc, arms, _d = arms_of(prog, "TypeDefResolver<'_>")
    for (field, kind), want in sorted(SOURCES.items()):
        arm = arms.get(field)
        if arm is None:
            rep.finding("C24.SOURCES", f.name, "%s:%s" % (field, kind), "__Type.%s has no handler" % field, f.loc())
            continue
        bodies = []
        for n in walk(arm["body"]):
            if n.get("k") == "match" and sc.key(n.get("scrut", {})) == "param:self.def":
                for a2 in n["arms"]:
                    vs = set((q["res"][4] if len(q["res"]) > 4 else q["res"][2]).split("::")[-1] for q in walk(a2["pat"]) if q.get("k") in ("tstruct", "path", "struct") and q.get("res") and q["res"][0] == "def")
                    if kind in vs:
                        bodies.append(a2["body"])
            if n.get("k") == "slet" and n.get("els") is not None and sc.key(n.get("init", {})) == "param:self.def":
                vs = set((q["res"][4] if len(q["res"]) > 4 else q["res"][2]).split("::")[-1] for q in walk(n["pat"]) if q.get("k") in ("tstruct", "path", "struct") and q.get("res") and q["res"][0] == "def")
                if kind in vs:
                    bodies.append(arm["body"])
        if not bodies:
            rep.fail("UNDECIDED rule=C24.SOURCES __Type.%s: no arm for %s found" % (field, kind))
            continue
        used = set(x.get("name") for b in bodies for x in walk(b) if x.get("k") == "field") & COLLECTIONS
        whole = [callee_path(x) for b in bodies for x in walk(b) if x.get("k") in ("call", "mcall") and re.search(r"Implementers::iter$", callee_path(x) or "")]
        # a data-bearing (field, kind) pair never answers null: an empty collection is an empty list
        nulls = [x for b in bodies for x in walk(b) if x.get("k") in ("call", "mcall") and re.search(r"ResolvedValue::<'a>::null$|ResolvedValue::null$", callee_path(x) or "")]
        if field == "possibleTypes" or len(bodies) == 1 and bodies[0] is not arm["body"]:
            if nulls:
                rep.finding("C24.SOURCES", f.name, "null:%s:%s" % (field, kind),
                            "__Type.%s of a %s type can answer null (a `ResolvedValue::null()` inside the arm for that kind); the reference implementation answers a list, empty if there is nothing to list" % (field, kind), f.loc(arm.get("l")))
        ok = used == {want} and not whole
        rep.obligation(ok)
        if ok:
            rep.instance("C24.SOURCES", "__Type.%s of %s reads `%s`" % (field, kind, want))
        else:
            rep.finding("C24.SOURCES", f.name, "%s:%s" % (field, kind),
                        "__Type.%s of a %s type reads %s%s; the introspection schema prescribes `%s` only" % (field, kind, sorted(used) or "no collection", " and Implementers::iter() (objects followed by interfaces)" if whole else "", want), f.loc(arm.get("l")))


def rule_oftype(prog, rep):
    rep.floor("C24.OFTYPE", 2)
    f, hb, sc, arms, _d = arms_of(prog, "TypeResolver<'_>")
    ms = [n for n in walk(arms["ofType"]["body"]) if n.get("k") == "match"]
    got = {}
    if len(ms) == 1:
        for a in ms[0]["arms"]:
            vs = [(q["res"][4] if len(q["res"]) > 4 else q["res"][2]).split("::")[-1] for q in walk(a["pat"]) if q.get("k") in ("tstruct", "path") and q.get("res") and q["res"][0] == "def"]
            binds = [q["name"] for q in walk(a["pat"]) if q.get("k") == "bind"]
            kb = re.sub(r"#\d+", "", sc.key(a["body"]))
            for v in vs:
                got[v] = (binds, kb)
    ok = bool(got)
    ok = ok and got.get("List", ([], ""))[1] == "apollo_compiler::introspection::resolvers::ty(param:info, inner)"
    ok = ok and got.get("NonNullNamed", ([], ""))[1] == "apollo_compiler::introspection::resolvers::type_def(param:info, inner)"
    nl = got.get("NonNullList", ([], ""))[1]
    ok = ok and re.search(r"ResolvedValue::<'a>::object\(<struct>\)|object\(", nl) is not None
    if ok:
        # the struct literal wraps Type::List(inner.clone())
        st = [n for n in walk(ms[0]) if n.get("k") == "struct"]
        ok = len(st) == 1 and any("List(inner" in re.sub(r"#\d+", "", sc.key(x)) for x in walk(st[0]) if x.get("k") == "call")
    rep.obligation(ok)
    if ok:
        rep.instance("C24.OFTYPE", "ofType: List(t) -> t; NonNullNamed(n) -> definition of n; NonNullList(t) -> List(t)")
    else:
        rep.finding("C24.OFTYPE", f.name, "table", "ofType of wrappers is %s" % {k: v[1][:70] for k, v in got.items()}, f.loc())
    g = prog.fn(r"^%sty$" % re.escape(R))
    from ..tables import enum_paths, return_value_on_path
    from ..flow import _strip
    rows = {}
    for atoms, rb, path in enum_paths(g):
        a = _strip(atoms)
        v = [x for x in a if x[0] in ("variant", "variant_in") and x[1] == "arg2"]
        key = v[0][2] if v and v[0][0] == "variant" else "other"
        rows[key] = return_value_on_path(g, path) or ""
    ok = re.search(r"^resolvers::type_def\(&?arg1, .*arg2\.as:Named\.0", rows.get("Named", "")) is not None and re.search(r"TypeResolver\{Cow::Borrowed\{&?arg2\}\}", rows.get("other", "")) is not None
    rep.obligation(ok)
    if ok:
        rep.instance("C24.OFTYPE", "ty(): Named(n) -> type_def(n) via schema.types; wrappers -> TypeResolver of the same type")
    else:
        rep.finding("C24.OFTYPE", g.name, "ty", "ty() is %s" % rows, g.loc())


def rule_roots_leaves(prog, rep):
    rep.floor("C24.ROOTS", 1)
    rep.floor("C24.LEAVES", 12)
    f, hb, sc, arms, _d = arms_of(prog, "SchemaMetaField")
    want = {"queryType": "query", "mutationType": "mutation", "subscriptionType": "subscription"}
    bad = [k for k, v in want.items() if not re.fullmatch(r"Ok\(apollo_compiler::introspection::resolvers::type_def_opt\(param:info, schema_def#\d+\.%s\)\)" % v, sc.key(arms[k]["body"]))]
    sd = [n for lid, n in sc.lets.items() if sc.names[lid] == "schema_def"]
    ok = not bad and len(sd) == 1 and sc.key(sd[0]["init"]) == "param:info.schema().schema_definition"
    rep.obligation(ok)
    if ok:
        rep.instance("C24.ROOTS", "queryType/mutationType/subscriptionType <- schema_definition.query/mutation/subscription")
    else:
        rep.finding("C24.ROOTS", f.name, "roots", "root operation types are read from the wrong fields (%s)" % bad, f.loc())
    leaves = [
        ("SchemaMetaField", "description", r"leaf\(schema_def#\d+\.description\.as_deref\(\)\)"),
        ("SchemaMetaField", "types", r"list\(param:info\.schema\(\)\.types\.values\(\)\.map\(<closure>\)\)"),
        ("SchemaMetaField", "directives", r"list\(param:info\.schema\(\)\.directive_definitions\.values\(\)\.map\(<closure>\)\)"),
        ("TypeDefResolver<'_>", "name", r"leaf\(param:self\.def\.name\(\)\.as_str\(\)\)"),
        ("TypeDefResolver<'_>", "description", r"leaf\(param:self\.def\.description\(\)\.map\(<closure>\)\)"),
        ("DirectiveResolver<'_>", "name", r"leaf\(param:self\.def\.name\.as_str\(\)\)"),
        ("DirectiveResolver<'_>", "description", r"leaf\(param:self\.def\.description\.as_deref\(\)\)"),
        ("DirectiveResolver<'_>", "isRepeatable", r"leaf\(param:self\.def\.repeatable\)"),
        ("DirectiveResolver<'_>", "locations", r"list\(param:self\.def\.locations\.iter\(\)\.map\(<closure>\)\)"),
        ("FieldResolver<'_>", "name", r"leaf\(param:self\.def\.name\.as_str\(\)\)"),
        ("FieldResolver<'_>", "description", r"leaf\(param:self\.def\.description\.as_deref\(\)\)"),
        ("FieldResolver<'_>", "type", r"ty\(param:info, param:self\.def\.ty\)"),
        ("EnumValueResolver<'_>", "name", r"leaf\(param:self\.def\.value\.as_str\(\)\)"),
        ("EnumValueResolver<'_>", "description", r"leaf\(param:self\.def\.description\.as_deref\(\)\)"),
        ("InputValueResolver<'_>", "name", r"leaf\(param:self\.def\.name\.as_str\(\)\)"),
        ("InputValueResolver<'_>", "description", r"leaf\(param:self\.def\.description\.as_deref\(\)\)"),
        ("InputValueResolver<'_>", "type", r"ty\(param:info, param:self\.def\.ty\)"),
        ("InputValueResolver<'_>", "defaultValue", r"leaf\(param:self\.def\.default_value\.as_ref\(\)\.map\(<closure>\)\)"),
    ]
    cache = {}
    for struct, field, rx in leaves:
        if struct not in cache:
            cache[struct] = arms_of(prog, struct)
        f, hb, sc, arms, _d = cache[struct]
        k = sc.key(arms[field]["body"]) if field in arms else "<no arm>"
        ok = re.search(rx, k) is not None
        rep.obligation(ok)
        if ok:
            rep.instance("C24.LEAVES", "%s.%s reads the same-named part of its definition" % (RESOLVERS[struct], field))
        else:
            rep.finding("C24.LEAVES", f.name, "leaf:" + field, "%s.%s is `%s`" % (RESOLVERS[struct], field, k[:140]), f.loc())


def rule_deprecated(prog, rep):
    rep.floor("C24.DEPRECATED", 10)
    sites = [("TypeDefResolver<'_>", "fields"), ("TypeDefResolver<'_>", "enumValues"), ("TypeDefResolver<'_>", "inputFields"), ("DirectiveResolver<'_>", "args"), ("FieldResolver<'_>", "args")]
    cache = {}
    for struct, field in sites:
        if struct not in cache:
            cache[struct] = arms_of(prog, struct)
        f, hb, sc, arms, _d = cache[struct]
        body = arms[field]["body"]
        filt = [n for n in walk(body) if n.get("k") == "mcall" and n["m"] == "filter"]
        ok = len(filt) == 1
        if ok:
            cl = filt[0]["args"][0]
            cb = cl.get("body", {})
            while cb.get("k") == "block" and not cb.get("stmts") and cb.get("expr") is not None:
                cb = cb["expr"]
            csc = Scope({"params": cl.get("params", []), "body": cb})
            ok = cb.get("k") == "bin" and cb["op"] == "||"
            if ok:
                a, b = sc.key(cb["a"]), csc.key(cb["b"])
                ok = re.fullmatch(r"include_deprecated#\d+", a) is not None and re.fullmatch(r"param:def\.directives\.get\('deprecated'\)\.is_none\(\)", b) is not None
                lid = int(a.split("#")[1]) if ok else None
                ok = ok and lid in sc.lets and re.fullmatch(r"apollo_compiler::introspection::resolvers::include_deprecated\(param:info\.arguments\(\)\)", sc.key(sc.lets[lid]["init"])) is not None
        rep.obligation(ok)
        if ok:
            rep.instance("C24.DEPRECATED", "%s.%s: filter(includeDeprecated || no @deprecated)" % (RESOLVERS[struct], field))
        else:
            rep.finding("C24.DEPRECATED", f.name, "filter:" + field, "%s.%s is not filtered by `includeDeprecated || def.directives.get(\"deprecated\").is_none()`" % (RESOLVERS[struct], field), f.loc())
    for struct in ("FieldResolver<'_>", "EnumValueResolver<'_>", "InputValueResolver<'_>"):
        if struct not in cache:
            cache[struct] = arms_of(prog, struct)
        f, hb, sc, arms, _d = cache[struct]
        k1 = sc.key(arms["isDeprecated"]["body"])
        k2 = sc.key(arms["deprecationReason"]["body"])
        ok = re.search(r"leaf\(param:self\.def\.directives\.get\('deprecated'\)\.is_some\(\)\)", k1) is not None
        ok = ok and re.search(r"deprecation_reason\(param:info, param:self\.def\.directives\.get\('deprecated'\)\)", k2) is not None
        rep.obligation(ok)
        if ok:
            rep.instance("C24.DEPRECATED", "%s: isDeprecated = @deprecated present; deprecationReason from the same directive" % RESOLVERS[struct])
        else:
            rep.finding("C24.DEPRECATED", f.name, "flags", "%s: isDeprecated is `%s`, deprecationReason is `%s`" % (RESOLVERS[struct], k1[:80], k2[:80]), f.loc())
    g = prog.fn(r"^%sdeprecation_reason$" % re.escape(R))
    hb = prog.hir_body(g)
    sc = Scope(hb)
    abn = [n for n in walk(hb["body"]) if n.get("k") == "mcall" and n["m"] == "argument_by_name"]
    ok = len(abn) == 1 and abn[0]["args"][0].get("v") == "reason"
    rep.obligation(ok)
    if ok:
        rep.instance("C24.DEPRECATED", "deprecation_reason reads the `reason` argument (with its schema default)")
    else:
        rep.finding("C24.DEPRECATED", g.name, "reason", "deprecationReason does not read the `reason` argument", g.loc())
    h = prog.fn(r"^%sinclude_deprecated$" % re.escape(R))
    hb = prog.hir_body(h)
    sc = Scope(hb)
    ms = [n for n in walk(hb["body"]) if n.get("k") == "match"]
    ok = len(ms) == 1 and "includeDeprecated" in sc.key(ms[0]["scrut"])
    if ok:
        got = {}
        for a in ms[0]["arms"]:
            vs = [(q["res"][4] if len(q["res"]) > 4 else q["res"][2]).split("::")[-1] for q in walk(a["pat"]) if q.get("k") in ("tstruct", "path") and q.get("res") and q["res"][0] == "def"]
            for v in vs:
                got[v] = re.sub(r"#\d+", "", sc.key(a["body"]))
        ok = got.get("Bool") == "b" and got.get("Null") == "False"
    rep.obligation(ok)
    if ok:
        rep.instance("C24.DEPRECATED", "includeDeprecated: Bool(b) -> b, Null -> false")
    else:
        rep.finding("C24.DEPRECATED", h.name, "default", "includeDeprecated is not read as `b` / default false", h.loc())


def run(prog, rep):
    bt = builtin_types()
    rule_fields(prog, rep, bt)
    rule_kind(prog, rep, bt)
    rule_perkind(prog, rep)
    rule_sources(prog, rep)
    rule_oftype(prog, rep)
    rule_roots_leaves(prog, rep)
    rule_deprecated(prog, rep)
    rep.assume("the executor (C26) calls resolve_field with the field name of a validated introspection query; built_in_types.graphql is the introspection schema the crate validates queries against")
    rep.note("equality of introspection responses with graphql-js, ordering inside lists beyond map order, and the serialized form of defaultValue (C08/C09) are not decided")
    # `description`, `deprecationReason` and string default values are what the string decoder made
    # of the source literals: the block-string algorithm (common indentation without the first
    # line, blank first / last lines removed) and the escape table are decided by C06, shared
    from .C06 import rule_block, rule_esc, rule_indent
    rule_esc(prog, rep)
    rule_block(prog, rep)
    rule_indent(prog, rep)
