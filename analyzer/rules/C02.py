"""C02 — The document syntax tree is lossless (DESIGN.md section 4, C02)."""
import re

from ..core import AnchorError, norm_path, op_const, op_local, op_place
from ..flow import arg_path_s, branch_on_call, facts_at, has_fact, must_pass
from . import parser_common as PC

CRATES = ["apollo_parser"]
LEVEL = "other"
EXPLANATION = """
Token conservation for the document tree, decided on MIR: C02.AFFINE (every Token returned by
Parser::pop is moved, on every path, into push_token or into PendingToken::Ignored pushed on
Parser.pending; a token that escapes through the return value or dies unrecorded is reported),
C02.TEXT (the text given to the tree builder is the token's whole data), C02.LEXERR (a lexer error
with non-empty data is queued as an ERROR token before being recorded), C02.FLUSH (document()
flushes the pending queue before closing the root; push_ignored drains the queue completely),
C02.WHO (tokens enter the tree builder only through push_token / push_ignored), C02.PARTITION
(the lexer's writers of Cursor.index are exactly the slice-taking primitives).  Given that rowan
concatenates token texts in insertion order, every byte the lexer hands to the parser appears in
the document tree exactly once and in order.
"""


def _token_flow(fn, start_block, src_local):
    """forward may-hold taint of a Token value by moves/copies/aggregates/clones.
    returns (tainted locals, list of (block, call, argindex) where a tainted value is passed by value)"""
    tainted = {src_local}
    changed = True
    live = fn.live_blocks()
    while changed:
        changed = False
        for b in live:
            for s in fn.stmts(b):
                if s[0] != "=":
                    continue
                rv = s[2]
                srcs = []
                if rv[0] == "use":
                    l = op_place(rv[1])
                    if l is not None:
                        srcs.append(l[0])
                elif rv[0] == "agg":
                    for o in rv[2]:
                        l = op_place(o)
                        if l is not None:
                            srcs.append(l[0])
                if any(x in tainted for x in srcs) and s[1][0] not in tainted:
                    tainted.add(s[1][0])
                    changed = True
            t = fn.term(b)
            if t[0] == "call":
                c = fn.call_at(b)
                if re.search(r"clone::Clone::clone$|Clone>::clone$", c.name) or re.search(r"clone::Clone::clone$", c.orig_name):
                    # clone of a reference to a tainted local
                    a0 = op_local(c.args[0]) if c.args else None
                    if a0 is not None:
                        sd = fn.single_def(a0)
                        if sd and sd[2][0] == "ref" and sd[2][2][0] in tainted and c.dest[0] not in tainted:
                            tainted.add(c.dest[0])
                            changed = True
    uses = []
    for c in fn.live_calls():
        for i, a in enumerate(c.args):
            pl = op_place(a)
            if pl is not None and pl[0] in tainted and a[0] == "m":
                uses.append((c.block, c, i))
    return tainted, uses


def rule_affine(prog, rep):
    pop = prog.fn(r"parser::Parser::<'input>::pop$")
    push_token = prog.fn(r"parser::Parser::<'input>::push_token$")
    rep.floor("C02.AFFINE", 5)
    for fn in sorted(prog.fns.values(), key=lambda f: f.name):
        if fn.crate != "apollo_parser":
            continue
        sites = [c for c in fn.live_calls() if c.uid == pop.uid]
        for i, c in enumerate(sites):
            if c.dest[1]:
                rep.fail("UNDECIDED rule=C02.AFFINE %s: pop() result stored into a projected place" % c.loc())
                continue
            tainted, uses = _token_flow(fn, c.block, c.dest[0])
            sink_blocks = set()
            other = []
            for b, call, ai in uses:
                if call.uid == push_token.uid and ai == 2:
                    sink_blocks.add(b)
                elif re.search(r"vec::Vec::<T, A>::push$", call.name) and (arg_path_s(fn, call, 0) or "").endswith(".pending") and ai == 1:
                    # must be wrapped in PendingToken::Ignored
                    l = op_local(call.args[1])
                    sd = fn.single_def(l) if l is not None else None
                    if sd and sd[2][0] == "agg" and isinstance(sd[2][1], list) and sd[2][1][1].endswith("PendingToken") and sd[2][1][2] == "Ignored":
                        sink_blocks.add(b)
                    else:
                        other.append(call)
                else:
                    other.append(call)
            passed, leak = must_pass(fn, [c.target], fn.return_blocks(), sink_blocks)
            escapes = 0 in tainted
            site = "pop#%d" % i
            if not passed:
                how = "escapes through the return value without being attached to the tree" if escapes else "reaches the end of its scope without being attached to the tree"
                rep.finding("C02.AFFINE", fn.name, site,
                            "the token popped here %s: its text is missing from the syntax tree (lossless property broken for the input that takes this path)" % how,
                            c.loc(), {"return_blocks": sorted(leak), "sinks": sorted(sink_blocks)})
            for call in other:
                rep.finding("C02.AFFINE", fn.name, site + ":moved-into:" + call.name.split("::")[-1],
                            "the popped token is moved into `%s`, which is not a tree sink" % call.name, call.loc())
            rep.instance("C02.AFFINE", "%s pop at %s: sinks at blocks %s, all paths recorded: %s" % (fn.name, c.loc(), sorted(sink_blocks), passed))


def rule_text(prog, rep):
    rep.floor("C02.TEXT", 3)
    push_token = prog.fn(r"parser::Parser::<'input>::push_token$")
    push_ignored = prog.fn(r"parser::Parser::<'input>::push_ignored$")
    next_token = prog.inline(prog.fn(r"parser::Parser::<'input>::next_token$"), keep=r"Parser::<'input>::(push_err|limit_err|push_token|push_ignored|pop|peek\w*|bump|eat|err\w*)$|lexer::|syntax_tree::")
    tok = r"syntax_tree::SyntaxTreeBuilder::token$"
    cs = push_token.calls_to(tok)
    if len(cs) != 1:
        raise AnchorError("push_token: expected one call to SyntaxTreeBuilder::token")
    ap = push_token.apath(op_place(cs[0].args[2]), transparent=False)
    ok = False
    m = re.match(r"call:.*lexer::token::Token::<'a>::data@(\d+)$", ap[0])
    if m and len([e for e in ap[1:] if e not in ("*", "&")]) == 0:
        dc = push_token.call_at(int(m.group(1)))
        if arg_path_s(push_token, dc, 0) == "arg3":
            ok = True
    if ok:
        rep.instance("C02.TEXT", "push_token: builder.token(kind, token.data()) with the whole data of its own token parameter")
    else:
        rep.finding("C02.TEXT", push_token.name, "text", "the text given to the tree builder is not `token.data()` of the pushed token (got %s)" % (ap,), cs[0].loc())
    # Token::data returns the data field
    data = prog.fn(r"lexer::token::Token::<'a>::data$")
    okd = any(s[0] == "=" and s[1][0] == 0 and s[2][0] == "use" and op_place(s[2][1]) and norm_path(data.apath(op_place(s[2][1]))) == "arg1.data"
              for b in data.live_blocks() for s in data.stmts(b))
    if okd:
        rep.instance("C02.TEXT", "Token::data returns field `data`")
    else:
        rep.finding("C02.TEXT", data.name, "data-accessor", "Token::data does not return the `data` field", data.loc())
    # push_ignored Error arm: builder.token(ERROR, &data) with data = payload of PendingToken::Error
    cs = push_ignored.calls_to(tok)
    if len(cs) != 1:
        raise AnchorError("push_ignored: expected one direct call to SyntaxTreeBuilder::token")
    ap = push_ignored.apath(op_place(cs[0].args[2]))
    fs = facts_at(push_ignored, cs[0].block)
    if has_fact(fs, "variant", variant="Error") and "as:Error" in ap:
        rep.instance("C02.TEXT", "push_ignored: PendingToken::Error(data) -> builder.token(ERROR, &data)")
    else:
        rep.finding("C02.TEXT", push_ignored.name, "error-text", "ERROR token text is not the payload of PendingToken::Error (%s)" % (ap,), cs[0].loc())
    # next_token: PendingToken::Error(err.data().to_owned())
    found = False
    for b in sorted(next_token.live_blocks()):
        for s in next_token.stmts(b):
            if s[0] == "=" and s[2][0] == "agg" and isinstance(s[2][1], list) and s[2][1][1].endswith("PendingToken") and s[2][1][2] == "Error":
                found = True
                ap = next_token.apath(op_place(s[2][2][0]), transparent=False)
                # to_owned(data) where data = Error::data(&err)
                m = re.match(r"call:.*(to_owned|to_string|String.*from)@(\d+)$", ap[0])
                good = False
                if m:
                    oc = next_token.call_at(int(m.group(2)))
                    ap2 = next_token.apath(op_place(oc.args[0]), transparent=False)
                    if re.match(r"call:.*error::Error::data@\d+$", ap2[0]) and not [e for e in ap2[1:] if e not in ("*", "&")]:
                        good = True
                if good:
                    rep.instance("C02.TEXT", "next_token: PendingToken::Error(err.data().to_owned()) - whole error data")
                else:
                    rep.finding("C02.TEXT", next_token.name, "lexerr-text", "queued ERROR token text is not the whole `err.data()` (%s)" % (ap,), next_token.loc(s[3][0]))
    if not found:
        raise AnchorError("next_token: PendingToken::Error aggregate not found")


def rule_lexerr(prog, rep):
    rep.floor("C02.LEXERR", 1)
    fn = prog.inline(prog.fn(r"parser::Parser::<'input>::next_token$"), keep=r"Parser::<'input>::(push_err|limit_err|push_token|push_ignored|pop|peek\w*|bump|eat|err\w*)$|lexer::|syntax_tree::")
    isempty = [c for c in fn.live_calls() if re.search(r"str::<impl str>::is_empty$|str::is_empty$", c.name)]
    pend = [c for c in fn.live_calls() if re.search(r"vec::Vec::<T, A>::push$", c.name) and (arg_path_s(fn, c, 0) or "").endswith(".pending")]
    errs = [c for c in fn.live_calls() if re.search(r"vec::Vec::<T, A>::push$", c.name) and (arg_path_s(fn, c, 0) or "").endswith(".errors")]
    if not errs:
        raise AnchorError("next_token: no errors.push")
    if len(isempty) != 1 or len(pend) != 1:
        rep.finding("C02.LEXERR", fn.name, "queue", "next_token does not queue lexer-error data as a pending ERROR token under an is_empty() test (found %d tests, %d pending pushes)" % (len(isempty), len(pend)), fn.loc())
        return
    br = branch_on_call(fn, isempty[0])
    if br is None:
        rep.fail("UNDECIDED rule=C02.LEXERR next_token: is_empty() not branched on")
        return
    t_empty, t_nonempty, sw_empty = br
    ap = fn.apath(op_place(isempty[0].args[0]), transparent=False)
    passed = all(must_pass(fn, [t_nonempty], [e.block], [pend[0].block])[0] for e in errs if e.block in fn.reachable_blocks([t_nonempty]))
    # conservation on the whole Err arm: from the Err edge of the lexer result, every path to the
    # next iteration / return queues the fragment - except on the `data is empty` edge and on
    # the `is_limit()` edge (limit errors carry no text: ErrorData::LimitExceeded)
    nxt = [c for c in fn.live_calls() if re.search(r"Iterator>::next$|Iterator::next$", c.name)]
    err_edge = None
    for b in sorted(fn.live_blocks()):
        info = fn.switch_info(b)
        if info and info.get("kind") == "enum" and info["adt"].endswith("result::Result") and "Err" in info["edges"] and nxt:
            # the matched Result is the lexer item: directly, or through `?` / a copy
            from ..flow import derives
            _paths, dcalls = derives(fn, info["place"])
            if re.search(r"call:.*next@%d" % nxt[0].block, norm_path(fn.apath(info["place"]))) or any(c is nxt[0] or (c.block == nxt[0].block) for c in dcalls):
                err_edge = info["edges"]["Err"]
    if err_edge is None or len(nxt) != 1:
        rep.fail("UNDECIDED rule=C02.LEXERR next_token: match on the lexer item not recognised")
        return
    exempt = {(sw_empty, t_empty)}
    isl = [c for c in fn.live_calls() if re.search(r"error::Error::is_limit$", c.name)]
    for c in isl:
        b2 = branch_on_call(fn, c)
        if b2:
            exempt.add((b2[2], b2[0]))
    seen, stack = set(), [err_edge]
    leak = False
    while stack:
        b = stack.pop()
        if b in seen or b == pend[0].block:
            continue
        seen.add(b)
        if b == nxt[0].block or fn.term(b)[0] == "ret":
            leak = True
            break
        for s in fn.succs()[b]:
            if (b, s) not in exempt:
                stack.append(s)
    if leak:
        rep.finding("C02.LEXERR", fn.name, "dropped-fragment",
                    "on the Err arm of the lexer result a path reaches the next token without queueing the error's text as a pending ERROR token (and it is neither the empty-data nor the limit-error edge): lexically invalid bytes on that path vanish from the tree", isempty[0].loc())
    lim = prog.fn(r"^apollo_parser::error::Error::limit$")
    lim_ok = any(s[0] == "=" and s[2][0] == "agg" and isinstance(s[2][1], list) and s[2][1][1].endswith("ErrorData") and s[2][1][2] == "LimitExceeded"
                 for b in lim.live_blocks() for s in lim.stmts(b))
    if not lim_ok:
        rep.finding("C02.LEXERR", lim.name, "limit-data", "Error::limit no longer builds ErrorData::LimitExceeded (limit errors would carry text that next_token does not queue)", lim.loc())
    # the Err arm dominates
    fs = facts_at(fn, isempty[0].block)
    if not has_fact(fs, "variant", variant="Err"):
        rep.finding("C02.LEXERR", fn.name, "arm", "the pending-ERROR queueing is not in the Err arm of the lexer result", isempty[0].loc())
    elif not passed:
        rep.finding("C02.LEXERR", fn.name, "order", "a lexer error with non-empty data can be recorded without its text being queued for the tree", isempty[0].loc())
    elif not re.match(r"call:.*error::Error::data@", ap[0]):
        rep.finding("C02.LEXERR", fn.name, "tested-data", "is_empty() is not applied to err.data()", isempty[0].loc())
    else:
        rep.instance("C02.LEXERR", "next_token Err arm: non-empty err.data() is pushed on `pending` before errors.push")
    # every Ok token is returned (not dropped): the Ok arm returns Some(token)
    # (tokens that are neither returned nor queued would be lost)
    ok_ret = False
    for b in fn.live_blocks():
        for s in fn.stmts(b):
            if s[0] == "=" and s[1][0] == 0 and s[2][0] == "agg" and isinstance(s[2][1], list) and s[2][1][2] == "Some":
                ap = fn.apath(op_place(s[2][2][0]))
                if "as:Ok" in ap:
                    ok_ret = True
    if ok_ret:
        rep.instance("C02.LEXERR", "next_token Ok arm returns Some(token)")
    else:
        rep.finding("C02.LEXERR", fn.name, "ok-arm", "next_token does not return the Ok token", fn.loc())


def rule_flush(prog, rep):
    rep.floor("C02.FLUSH", 3)
    doc = prog.fn(r"grammar::document::document$")
    pw = [c for c in doc.live_calls() if re.search(r"Parser::<'input>::peek_while$", c.name)]
    pi = [c.block for c in doc.live_calls() if re.search(r"Parser::<'input>::push_ignored$", c.name)]
    fin = [c.block for c in doc.live_calls() if re.search(r"parser::NodeGuard::finish_node$", c.name)]
    for b in doc.live_blocks():
        t = doc.term(b)
        if t[0] == "drop" and "NodeGuard" in t[2]:
            fin.append(b)
    if len(pw) != 1 or not fin:
        raise AnchorError("document(): peek_while / finish_node anchors not found")
    passed, leak = must_pass(doc, [pw[0].target], fin, pi)
    if not passed:
        rep.finding("C02.FLUSH", doc.name, "flush-before-close", "the document root can be closed without flushing pending ignored/error tokens (trailing whitespace, comments or invalid bytes would be lost)", doc.loc())
    else:
        rep.instance("C02.FLUSH", "document(): push_ignored on every path between the definition loop and closing the root")
    # nothing consumes or queues tokens after that flush
    emit = PC.may_emit_token(prog)
    after = doc.reachable_blocks([doc.term(b)[4] for b in pi if doc.term(b)[4] is not None])
    late = [c for c in doc.live_calls() if c.block in after and c.uid in emit and not re.search(r"finish_node$", c.name)]
    if late:
        rep.finding("C02.FLUSH", doc.name, "late-token", "`%s` can queue tokens after the final flush" % late[0].name.split("::")[-1], late[0].loc())
    # push_ignored drains completely
    pig = prog.fn(r"parser::Parser::<'input>::push_ignored$")
    take = [c for c in pig.live_calls() if re.search(r"mem::take$", c.name) and (arg_path_s(pig, c, 0) or "").endswith(".pending")]
    if len(take) != 1:
        rep.finding("C02.FLUSH", pig.name, "take", "push_ignored does not take the whole pending queue with mem::take", pig.loc())
    else:
        rep.instance("C02.FLUSH", "push_ignored: mem::take(&mut self.pending)")
    # loop: every iteration's arm emits
    nxt = [c for c in pig.live_calls() if re.search(r"Iterator>::next$|Iterator::next$", c.name)]
    if len(nxt) != 1:
        rep.fail("UNDECIDED rule=C02.FLUSH push_ignored: loop iterator idiom not recognised")
        return
    emitters = [c.block for c in pig.live_calls() if re.search(r"Parser::<'input>::push_token$|SyntaxTreeBuilder::token$", c.name)]
    # from the Some edge of next() back to next(): must pass an emitter
    from ..flow import branch_on_enum_call
    r = branch_on_enum_call(pig, nxt[0])
    if r is None:
        rep.fail("UNDECIDED rule=C02.FLUSH push_ignored: next() result not matched directly")
        return
    info, sw = r
    some_t = info["edges"].get("Some")
    if some_t is None:
        some_t = info["otherwise"]
    passed, _ = must_pass(pig, [some_t], [nxt[0].block] + pig.return_blocks(), emitters)
    if not passed:
        rep.finding("C02.FLUSH", pig.name, "arm-without-emit", "an arm of push_ignored's loop drops a pending item without emitting it to the tree", pig.loc())
    else:
        rep.instance("C02.FLUSH", "push_ignored: every loop iteration emits its item (push_token / builder.token)")


def rule_who(prog, rep):
    rep.floor("C02.WHO", 2)
    tok = prog.fn(r"syntax_tree::SyntaxTreeBuilder::token$")
    allowed = {"push_token", "push_ignored"}
    for fn in prog.fns.values():
        for c in fn.live_calls():
            if c.uid == tok.uid:
                if fn.name.split("::")[-1] in allowed and "parser::Parser" in fn.name:
                    rep.instance("C02.WHO", "%s calls SyntaxTreeBuilder::token" % fn.name)
                else:
                    rep.finding("C02.WHO", fn.name, "builder-token", "SyntaxTreeBuilder::token called outside push_token/push_ignored", c.loc())
    # current_token is only filled from next_token and only emptied by pop (take)
    for fn in prog.fns.values():
        if fn.crate != "apollo_parser":
            continue
        for b in fn.live_blocks():
            for s in fn.stmts(b):
                if s[0] == "=" and s[1][1] and fn.dest_s(s[1]).endswith(".current_token") and "parser::Parser<" in fn.local_ty(s[1][0]):
                    src = fn.apath(op_place(s[2][1]), transparent=False) if s[2][0] == "use" and op_place(s[2][1]) else ("?",)
                    if fn.name.endswith("::peek_token") and re.match(r"call:.*next_token@", src[0]):
                        rep.instance("C02.WHO", "peek_token: current_token = self.next_token()")
                    else:
                        rep.finding("C02.WHO", fn.name, "current-token-write", "Parser.current_token overwritten (a buffered token would be lost)", fn.loc(s[3][0]))


def rule_partition(prog, rep):
    """writers of Cursor.index are exactly prev_str / current_str / drain (+ constructor)"""
    rep.floor("C02.PARTITION", 3)
    allowed = {"prev_str", "current_str", "drain"}
    writers = set()
    for fn in prog.fns.values():
        if fn.crate != "apollo_parser":
            continue
        for b in fn.live_blocks():
            for s in fn.stmts(b):
                if s[0] == "=" and s[1][1] and "lexer::cursor::Cursor<" in fn.local_ty(s[1][0]):
                    d = fn.dest_s(s[1])
                    if d.endswith(".index") and d.count(".") == 1:
                        nm = fn.name.split("::")[-1]
                        writers.add(nm)
                        if nm not in allowed:
                            rep.finding("C02.PARTITION", fn.name, "index-writer", "Cursor.index written outside prev_str/current_str/drain: token boundaries no longer tile the input", fn.loc(s[3][0]))
                # mutable borrow of index
                if s[0] == "=" and s[2][0] == "ref" and s[2][1] == "mut":
                    pl = s[2][2]
                    if "lexer::cursor::Cursor<" in fn.local_ty(pl[0]) and norm_path(fn.apath(pl)).endswith(".index") and len(pl[1]) == 2:
                        rep.finding("C02.PARTITION", fn.name, "index-borrow", "Cursor.index mutably borrowed", fn.loc(s[3][0]))
    for w in sorted(writers & allowed):
        rep.instance("C02.PARTITION", "Cursor::%s writes Cursor.index" % w)
    # each slice-taking primitive starts its slice at the old index
    for nm in sorted(allowed):
        fn = prog.fn(r"lexer::cursor::Cursor::<'a>::%s$" % nm)
        # the slice start operand must be self.index read before the write
        ok = False
        for c in fn.live_calls():
            if re.search(r"Index.*::index$|str::<impl str>::get$|str::get$", c.name) or re.search(r"ops::index::Index::index$", c.orig_name):
                # range aggregate feeding it
                l = op_local(c.args[1]) if len(c.args) > 1 else None
                sd = fn.single_def(l) if l is not None else None
                o0 = None
                if sd and sd[2][0] == "agg":
                    o0 = sd[2][2][0]
                elif sd and sd[2][0] == "callret" and re.search(r"RangeInclusive::<Idx>::new$", sd[2][1].name):
                    o0 = sd[2][1].args[0]
                if o0 is not None:
                    pl = op_place(o0)
                    if pl is not None:
                        p0 = norm_path(fn.apath(pl))
                        if p0 in ("arg1.index", "var:current", "var:start"):
                            ok = True
        if ok:
            rep.instance("C02.PARTITION", "Cursor::%s slices from the previous index" % nm)
        else:
            rep.finding("C02.PARTITION", fn.name, "slice-start", "the slice taken by %s does not start at the previous Cursor.index" % nm, fn.loc())


def rule_input(prog, rep):
    """C02.INPUT: the tree can only be lossless if the lexer is given the caller's input itself.
    Every construction of the lexer inside the parser (Parser::new, Parser::with_* ..) passes the
    function's own `input` parameter unchanged - not a trimmed, stripped or sliced view of it (a
    BOM or whitespace removed up front is in no token, and shifts every range)."""
    rep.floor("C02.INPUT", 1)
    n = 0
    for f in sorted(prog.fns.values(), key=lambda g: g.name):
        if f.crate != "apollo_parser" or not re.search(r"^apollo_parser::parser::", f.name):
            continue
        for c in f.live_calls():
            if not re.search(r"^apollo_parser::lexer::Lexer::<'a>::new$", c.name):
                continue
            n += 1
            a0 = f.sym(c.args[0])
            ok = re.fullmatch(r"&?\*?arg\d+", a0) is not None and (f.local_ty(int(re.search(r"arg(\d+)", a0).group(1))) or "").startswith("&") and "str" in (f.local_ty(int(re.search(r"arg(\d+)", a0).group(1))) or "")
            rep.obligation(ok)
            if ok:
                rep.instance("C02.INPUT", "%s: the lexer reads the function's own input parameter, unchanged" % "::".join(f.name.split("::")[-2:]))
            else:
                rep.finding("C02.INPUT", f.name, "lexer-input",
                            "the lexer is built from `%s`, not from the input parameter itself: whatever was removed from the input (a BOM, leading whitespace) is in no token of the tree, and every range is shifted" % a0[:100], c.loc())
    if not n:
        raise AnchorError("no construction of the lexer found in apollo_parser::parser")


def run(prog, rep):
    rule_affine(prog, rep)
    rule_text(prog, rep)
    rule_lexerr(prog, rep)
    rule_flush(prog, rep)
    rule_who(prog, rep)
    rule_partition(prog, rep)
    rule_input(prog, rep)
    rep.assume("rowan::GreenNodeBuilder concatenates token texts in insertion order (trusted)")
    rep.assume("losslessness of the standalone type / selection-set trees is not claimed by the property and not decided")
