"""C05 — Syntax acceptance matches the GraphQL grammar (DESIGN.md C05): table- and
shape-level necessary conditions only."""
import os
import re

from .. import facts as F
from ..core import AnchorError, Undecided, op_const, op_local, op_place
from ..flow import branch_on_call, facts_at, must_pass
from ..hirq import callee_path, walk
from ..tables import local_of, strip_expr, variant_name_of_pat

CRATES = ["apollo_parser", "apollo_compiler"]
LEVEL = "other"
EXPLANATION = """
Verdict equivalence with a reference parser is not decidable by static analysis; these are the
table- and shape-level necessary conditions.  C05.DISPATCH: the keyword -> production tables of
select_definition (11 keywords + `{`), extensions (7) and operation_type (3), extracted from
string-literal patterns; each keyword maps to the function whose first start_node kind is the
matching SyntaxKind; the set of kinds equals the alternatives of `Definition` in graphql.ungram and
the variants of cst::Definition.  C05.LOCATIONS: four tables agree on the 19 directive locations
(parser keyword -> *_KW, cst::DirectiveLocation::text, CST->AST conversion,
ast::DirectiveLocation::name).  C05.NONEMPTY: in the productions the grammar marks one-or-more,
every path from the opening delimiter to the closing one passes an item parser or an error call
(removing an `expected ...` branch would make an empty list silently valid).
"""

DEFS = {
    "directive": "DIRECTIVE_DEFINITION", "enum": "ENUM_TYPE_DEFINITION", "fragment": "FRAGMENT_DEFINITION",
    "input": "INPUT_OBJECT_TYPE_DEFINITION", "interface": "INTERFACE_TYPE_DEFINITION", "type": "OBJECT_TYPE_DEFINITION",
    "query": "OPERATION_DEFINITION", "mutation": "OPERATION_DEFINITION", "subscription": "OPERATION_DEFINITION", "{": "OPERATION_DEFINITION",
    "scalar": "SCALAR_TYPE_DEFINITION", "schema": "SCHEMA_DEFINITION", "union": "UNION_TYPE_DEFINITION", "extend": "<extensions>",
}
EXTS = {"schema": "SCHEMA_EXTENSION", "scalar": "SCALAR_TYPE_EXTENSION", "type": "OBJECT_TYPE_EXTENSION", "interface": "INTERFACE_TYPE_EXTENSION",
        "union": "UNION_TYPE_EXTENSION", "enum": "ENUM_TYPE_EXTENSION", "input": "INPUT_OBJECT_TYPE_EXTENSION"}
LOCATIONS = ["QUERY", "MUTATION", "SUBSCRIPTION", "FIELD", "FRAGMENT_DEFINITION", "FRAGMENT_SPREAD", "INLINE_FRAGMENT", "VARIABLE_DEFINITION",
             "SCHEMA", "SCALAR", "OBJECT", "FIELD_DEFINITION", "ARGUMENT_DEFINITION", "INTERFACE", "UNION", "ENUM", "ENUM_VALUE", "INPUT_OBJECT",
             "INPUT_FIELD_DEFINITION"]


def camel(s):
    return "".join(p.capitalize() for p in s.lower().split("_"))


def snake_upper(s):
    return re.sub(r"(?<!^)(?=[A-Z])", "_", s).upper()


def first_node_kind(prog, fn):
    """SyntaxKind of the first start_node call (in block order from the entry)"""
    best = None
    for c in fn.live_calls():
        if re.search(r"Parser::<'input>::start_node$", c.name):
            k = fn.sym(c.args[1])
            m = re.match(r"^SyntaxKind::(\w+)\{\}$", k)
            if m and (best is None or fn.dominates(c.block, best[0]) or c.block < best[0]):
                if best is None or fn.dominates(c.block, best[0]):
                    best = (c.block, m.group(1))
    return best[1] if best else None


def str_arms(prog, fn, scrut_pred=None):
    """(literal, callee-path) pairs of the string match in fn's HIR body"""
    body = prog.hir_body(fn)["body"]
    out = []
    for n in walk(body):
        if n.get("k") != "match" or n.get("src") != "normal":
            continue
        lits = []
        for arm in n["arms"]:
            ps = arm["pat"]["pats"] if arm["pat"].get("k") == "or" else [arm["pat"]]
            strs = []
            for p in ps:
                q = p
                while q.get("k") in ("ref",):
                    q = q["p"]
                if q.get("k") == "tstruct" and q.get("subs"):
                    q = q["subs"][0]
                if q.get("k") == "lit" and q.get("t") == "str":
                    strs.append(q["v"])
            if strs:
                calls = [callee_path(x) for x in walk(arm["body"]) if x.get("k") in ("call", "mcall") and callee_path(x)]
                kinds = []
                for x in walk(arm["body"]):
                    if x.get("k") == "path" and x.get("res") and x["res"][0] == "def" and "SyntaxKind::" in x["res"][2]:
                        kinds.append(x["res"][2].split("::")[-1])
                lits.append((strs, calls, kinds, arm.get("l")))
        if lits:
            out.append(lits)
    return out


def rule_dispatch(prog, rep):
    rep.floor("C05.DISPATCH", 24)
    sd = prog.fn(r"^apollo_parser::parser::grammar::document::select_definition$")
    tables = str_arms(prog, sd)
    if len(tables) != 1:
        raise Undecided("select_definition: expected one string match")
    got = {}
    for strs, calls, kinds, line in tables[0]:
        gram = [c for c in calls if c.startswith("apollo_parser::parser::grammar::")]
        for s in strs:
            got[s] = gram[0] if gram else None
    for kw, want in DEFS.items():
        callee = got.get(kw)
        if callee is None:
            rep.finding("C05.DISPATCH", sd.name, "keyword:" + kw, "keyword `%s` has no arm in select_definition" % kw, sd.loc())
            continue
        if want == "<extensions>":
            ok = callee.endswith("extensions::extensions")
            kind = "extensions"
        else:
            kind = first_node_kind(prog, prog.fn("^" + re.escape(callee) + "$"))
            ok = kind == want
        if ok:
            rep.instance("C05.DISPATCH", "`%s` -> %s (%s)" % (kw, callee.split("::")[-1], kind))
        else:
            rep.finding("C05.DISPATCH", sd.name, "keyword:" + kw, "keyword `%s` dispatches to %s, whose root node is %s; the grammar needs %s" % (kw, callee, kind, want), sd.loc())
    for kw in set(got) - set(DEFS):
        rep.finding("C05.DISPATCH", sd.name, "extra-keyword:" + kw, "select_definition accepts the keyword `%s`, which starts no definition in the grammar" % kw, sd.loc())
    ex = prog.fn(r"^apollo_parser::parser::grammar::extensions::extensions$")
    tables = str_arms(prog, ex)
    got = {}
    for strs, calls, kinds, line in (tables[0] if tables else []):
        gram = [c for c in calls if c.startswith("apollo_parser::parser::grammar::")]
        for s in strs:
            got[s] = gram[0] if gram else None
    for kw, want in EXTS.items():
        callee = got.get(kw)
        kind = first_node_kind(prog, prog.fn("^" + re.escape(callee) + "$")) if callee else None
        if kind == want:
            rep.instance("C05.DISPATCH", "extend `%s` -> %s (%s)" % (kw, callee.split("::")[-1], kind))
        else:
            rep.finding("C05.DISPATCH", ex.name, "ext-keyword:" + kw, "`extend %s` dispatches to %s (root node %s); the grammar needs %s" % (kw, callee, kind, want), ex.loc())
    for kw in set(got) - set(EXTS):
        rep.finding("C05.DISPATCH", ex.name, "extra-ext-keyword:" + kw, "`extend %s` is accepted but is not a type-system extension" % kw, ex.loc())
    ot = prog.fn(r"^apollo_parser::parser::grammar::operation::operation_type$")
    tables = str_arms(prog, ot)
    got = {}
    for strs, calls, kinds, line in (tables[0] if tables else []):
        for s in strs:
            got[s] = [k for k in kinds if k.endswith("_KW")]
    for kw in ("query", "mutation", "subscription"):
        if got.get(kw) == [kw + "_KW"]:
            rep.instance("C05.DISPATCH", "operation type `%s` -> %s_KW" % (kw, kw))
        else:
            rep.finding("C05.DISPATCH", ot.name, "optype:" + kw, "operation type keyword `%s` bumps %s" % (kw, got.get(kw)), ot.loc())
    if set(got) - {"query", "mutation", "subscription"}:
        rep.finding("C05.DISPATCH", ot.name, "optype-extra", "operation_type accepts extra keywords %s" % sorted(set(got) - {"query", "mutation", "subscription"}), ot.loc())
    # the set of definition kinds = graphql.ungram alternatives = cst::Definition variants
    ungram = os.path.join(F.repo_dir(), "graphql.ungram")
    alts = []
    with open(ungram) as fh:
        txt = fh.read()
    m = re.search(r"^Definition =\n(.*?)\n\n", txt, re.S | re.M)
    if not m:
        raise AnchorError("graphql.ungram: `Definition =` rule not found")
    for line in m.group(1).splitlines():
        line = line.split("//")[0].strip().lstrip("|").strip()
        if line:
            alts.append(line)
    want_kinds = set(snake_upper(a) for a in alts)
    have_kinds = (set(DEFS.values()) | set(EXTS.values())) - {"<extensions>"}
    cstdef = prog.adt(r"^apollo_parser::cst::generated::nodes::Definition$")
    variants = set(snake_upper(v["name"]) for v in cstdef["variants"])
    if want_kinds == have_kinds == variants:
        rep.instance("C05.DISPATCH", "%d definition kinds: graphql.ungram alternatives = dispatch tables = cst::Definition variants" % len(want_kinds))
    else:
        rep.finding("C05.DISPATCH", "apollo_parser::cst::Definition", "kinds", "definition kinds differ: ungram-only %s, dispatch-only %s, cst-only %s" % (sorted(want_kinds - have_kinds), sorted(have_kinds - want_kinds), sorted(variants - want_kinds)), None)


def rule_locations(prog, rep):
    rep.floor("C05.LOCATIONS", 4)
    # (1) parser
    dl = prog.fn(r"^apollo_parser::parser::grammar::directive::directive_location$")
    tables = str_arms(prog, dl)
    t1 = {}
    for strs, calls, kinds, line in (tables[0] if tables else []):
        for s in strs:
            t1[s] = [k for k in kinds if k.endswith("_KW")]
    bad = [l for l in LOCATIONS if t1.get(l) != [l + "_KW"]]
    extra = set(t1) - set(LOCATIONS)
    if not bad and not extra:
        rep.instance("C05.LOCATIONS", "parser: 19 location keywords each bump their own *_KW")
    else:
        rep.finding("C05.LOCATIONS", dl.name, "parser-table", "directive_location: wrong/missing %s, extra %s" % ({b: t1.get(b) for b in bad}, sorted(extra)), dl.loc())
    # (2) cst text()
    tx = prog.fn(r"impl apollo_parser::cst::(generated::nodes::)?DirectiveLocation>::text$|cst::DirectiveLocation::text$")
    body = prog.hir_body(tx)["body"]
    t2 = {}
    for n in walk(body):
        if n.get("k") == "if":
            c = strip_expr(n["cond"])
            if c.get("k") == "mcall" and c["m"] == "is_some":
                r = strip_expr(c["recv"])
                if r.get("k") == "mcall" and r["m"].endswith("_token"):
                    lits = [x["v"] for x in walk(n["then"]) if x.get("k") == "lit" and x.get("t") == "str"]
                    # only the literal directly in this then-branch (not nested else-ifs)
                    th = strip_expr(n["then"])
                    first = [x["v"] for x in walk(th) if x.get("k") == "lit" and x.get("t") == "str"][:1]
                    t2[r["m"]] = first[0] if first else None
    bad = [l for l in LOCATIONS if t2.get(l.lower() + "_token") != l]
    if not bad and len(t2) == 19:
        rep.instance("C05.LOCATIONS", "cst::DirectiveLocation::text: 19 token accessors each return their own keyword")
    else:
        rep.finding("C05.LOCATIONS", tx.name, "cst-text", "cst::DirectiveLocation::text disagrees for %s (%d entries)" % (bad, len(t2)), tx.loc())
    # (3) from_cst
    cv = prog.fn(r"<apollo_parser::cst::(generated::nodes::)?DirectiveLocation as apollo_compiler::ast::from_cst::Convert>::convert$")
    body = prog.hir_body(cv)["body"]
    t3 = {}
    for n in walk(body):
        if n.get("k") == "match" and n.get("src") == "normal":
            for arm in n["arms"]:
                p = arm["pat"]
                vn = variant_name_of_pat(p) if p.get("k") in ("path", "tstruct", "struct") else None
                if p.get("k") == "path" and p.get("res"):
                    vn = p["res"][2].split("::")[-1]
                ctor = [x for x in walk(arm["body"]) if x.get("k") == "path" and x.get("res") and x["res"][0] == "def" and "ast::DirectiveLocation::" in x["res"][2]]
                if vn and ctor:
                    t3[vn] = ctor[0]["res"][2].split("::")[-1]
    bad = [l for l in LOCATIONS if t3.get(l + "_KW") != camel(l)]
    if not bad and len(t3) == 19:
        rep.instance("C05.LOCATIONS", "from_cst: 19 *_KW kinds each convert to their own ast::DirectiveLocation variant")
    else:
        rep.finding("C05.LOCATIONS", cv.name, "from-cst", "CST->AST conversion of directive locations disagrees for %s" % {b: t3.get(b + "_KW") for b in bad}, cv.loc())
    # (4) ast name()
    nm = prog.fn(r"impl apollo_compiler::ast::DirectiveLocation>::name$|ast::DirectiveLocation::name$")
    body = prog.hir_body(nm)["body"]
    t4 = {}
    for n in walk(body):
        if n.get("k") == "match":
            for arm in n["arms"]:
                vn = variant_name_of_pat(arm["pat"]) if arm["pat"].get("k") in ("path", "tstruct", "struct") else None
                if arm["pat"].get("k") == "path" and arm["pat"].get("res"):
                    vn = arm["pat"]["res"][2].split("::")[-1]
                b = strip_expr(arm["body"])
                if vn and b.get("k") == "lit":
                    t4[vn] = b["v"]
    bad = [l for l in LOCATIONS if t4.get(camel(l)) != l]
    if not bad and len(t4) == 19:
        rep.instance("C05.LOCATIONS", "ast::DirectiveLocation::name: 19 variants each print their own keyword")
    else:
        rep.finding("C05.LOCATIONS", nm.name, "ast-name", "ast::DirectiveLocation::name disagrees for %s" % {b: t4.get(camel(b)) for b in bad}, nm.loc())


NONEMPTY = [
    ("grammar::field::fields_definition", "bump"), ("grammar::argument::arguments", "bump"), ("grammar::argument::arguments_definition", "bump"),
    ("grammar::variable::variable_definitions", "bump"), ("grammar::enum_::enum_values_definition", "bump"), ("grammar::input::input_fields_definition", "bump"),
    ("grammar::selection::selection_set", "bump"), ("grammar::schema::schema_definition", "bump-curly"), ("grammar::union_::union_member_types", "bump"),
    ("grammar::object::implements_interfaces", "bump"), ("grammar::directive::directive_locations", "entry"),
]


def rule_nonempty(prog, rep):
    rep.floor("C05.NONEMPTY", 10)
    for name, start_kind in NONEMPTY:
        fn = prog.fn(r"^apollo_parser::parser::" + re.escape(name) + "$")
        calls = fn.live_calls()
        bumps = [c for c in calls if re.search(r"Parser::<'input>::bump$", c.name)]
        if start_kind == "bump-curly":
            bumps = [c for c in bumps if "L_CURLY" in fn.sym(c.args[1])]
        if start_kind == "entry":
            starts = [0]
        else:
            if not bumps:
                raise AnchorError("%s: opening delimiter bump not found" % fn.name)
            first = [c for c in bumps if not any(fn.dominates(o.block, c.block) and o.block != c.block for o in bumps)]
            starts = [first[0].target]
        expects = [c.block for c in calls if re.search(r"Parser::<'input>::expect$", c.name)]
        targets = expects if expects else fn.return_blocks()
        through = set()
        for c in calls:
            n = c.name
            if re.search(r"Parser::<'input>::(err|err_and_pop)$", n):
                through.add(c.block)
            elif n.startswith("apollo_parser::parser::grammar::") and c.block not in [b.block for b in bumps]:
                through.add(c.block)
            elif re.search(r"Parser::<'input>::parse_separated_list$", n):
                through.add(c.block)  # runs its item parser at least once
        # flag idiom: `let mut has_x = false; peek_while*(|p| { has_x = true; item(p) }); if !has_x { err }`
        flag_ok = _flag_idiom(prog, fn)
        passed, leak = must_pass(fn, starts, targets, through)
        if passed or flag_ok:
            rep.instance("C05.NONEMPTY", "%s: every path from the opening delimiter to the close passes an item parser or an error%s" % (name.split("::")[-1], " (flag idiom)" if flag_ok and not passed else ""))
        else:
            rep.finding("C05.NONEMPTY", fn.name, "empty-list",
                        "a path from the opening delimiter to the closing one parses no item and reports no error: an empty %s would be accepted although the grammar requires at least one element" % name.split("::")[-1], fn.loc())


def _zero_iteration_paths(fn):
    """Walk fn's CFG from the entry assuming every callback-driven list loop (peek_while*,
    parse_separated_list) runs ZERO times: boolean flags keep the constants assigned in fn itself
    (a `&mut` capture by the callback does not forget them, since the callback never runs), and a
    switch on a known flag follows one edge.  Yields (blocks on the path) for every path to a
    return."""
    out = []
    succs = fn.succs()

    def rec(b, env, path, onpath):
        if len(out) > 4000:
            raise Undecided("too many paths in %s" % fn.name)
        env = dict(env)
        for st in fn.stmts(b):
            if st[0] != "=" or st[1][1]:
                continue
            l, rv = st[1][0], st[2]
            if rv[0] == "use":
                c = op_const(rv[1])
                if c is not None and c[0] == "bool":
                    env[l] = (c[2].get("int") == "1") if "int" in c[2] else (c[1] == "true")
                    continue
                sl = op_local(rv[1])
                if sl is not None and sl in env:
                    env[l] = env[sl]
                    continue
            elif rv[0] == "un" and rv[1] == "Not":
                sl = op_local(rv[2])
                if sl is not None and sl in env:
                    env[l] = not env[sl]
                    continue
            elif rv[0] in ("ref", "agg"):
                continue  # borrowing / capturing a flag does not change it
            env.pop(l, None)
        t = fn.term(b)
        if t[0] == "ret":
            out.append(path + [b])
            return
        if t[0] == "call" and not t[3][1]:
            env.pop(t[3][0], None)
        nxt = list(dict.fromkeys(succs[b]))
        if t[0] == "switch":
            info = fn.switch_info(b)
            if info and info.get("kind") == "bool" and info["local"] in env:
                nxt = [info["edges"][env[info["local"]]]]
        for s2 in nxt:
            if s2 in onpath:
                continue
            rec(s2, env, path + [b], onpath | {b})

    rec(0, {}, [], frozenset())
    return out


def rule_schema_extension(prog, rep):
    """C05.NONEMPTY for SchemaExtension: `extend schema Directives? { RootOperationTypeDefinition+ }`
    or `extend schema Directives`.  The braces are optional, but once `{` is consumed at least one
    root operation type definition is required, whether or not directives came before.  Decided by
    walking the function with the list callback run zero times: every such path that consumes `{`
    must report an error."""
    fn = prog.fn(r"^apollo_parser::parser::grammar::schema::schema_extension$")
    calls = fn.live_calls()
    opens = [c.block for c in calls if re.search(r"Parser::<'input>::bump$", c.name) and "L_CURLY" in fn.sym(c.args[1])]
    errs = set(c.block for c in calls if re.search(r"Parser::<'input>::(err|err_and_pop)$", c.name))
    items = set(c.block for c in calls if re.search(r"grammar::schema::root_operation_type_definition$", c.name))
    if not opens:
        raise AnchorError("schema_extension: `{` bump not found")
    bad = [p for p in _zero_iteration_paths(fn) if set(p) & set(opens) and not (set(p) & errs) and not (set(p) & items)]
    if not bad:
        rep.instance("C05.NONEMPTY", "schema_extension: once `{` is consumed, an empty root operation list is reported on every path (with or without directives)")
    else:
        rep.finding("C05.NONEMPTY", fn.name, "empty-list",
                    "a path consumes `{` and `}` with no root operation type definition and reports no error (the `requirement met` flag was already set by the directives): `extend schema @d { }` is accepted although the grammar requires at least one RootOperationTypeDefinition inside the braces", fn.loc())


def _flag_idiom(prog, fn):
    """bool local set to true inside a peek_while* callback that also parses an item, tested
    after the loop with an error on its false edge"""
    clos = [f for f in prog.fns.values() if f.root == fn.uid and f.kind == "closure"]
    for clo in clos:
        sets_true = any(s[0] == "=" and s[1][1] and s[2][0] == "use" and (op_const(s[2][1]) or (0, 0, {}))[2].get("int") == "1" and (op_const(s[2][1]) or ("",))[0] == "bool"
                        for b in clo.live_blocks() for s in clo.stmts(b))
        item = any(c.name.startswith("apollo_parser::parser::grammar::") for c in clo.live_calls())
        if not (sets_true and item):
            continue
        # parent: a switch on a bool local whose false edge must pass an err call
        errs = [c.block for c in fn.live_calls() if re.search(r"Parser::<'input>::(err|err_and_pop)$", c.name)]
        for b in fn.live_blocks():
            info = fn.switch_info(b)
            if info and info.get("kind") == "bool":
                e = fn.sym(info["local"])
                m = re.match(r"^(Not\()?var:(has_\w+)\)?$", e)
                if m:
                    neg = bool(m.group(1))
                    no_item_edge = info["edges"][True] if neg else info["edges"][False]
                    exp = [c.block for c in fn.live_calls() if re.search(r"Parser::<'input>::expect$", c.name)] or fn.return_blocks()
                    if must_pass(fn, [no_item_edge], exp, errs)[0]:
                        return True
    return False


CONST_TAKERS = r"grammar::(directive::directives?|argument::arguments?|value::(value|list_value|object_value|object_field))$"
# October 2021: which productions take Directives / Arguments / Value *without* [Const]
NOTCONST_CALLERS = {"field", "fragment_definition", "fragment_spread", "inline_fragment", "operation_definition"}
CONST_CALLERS = {
    "variable_definition", "default_value", "schema_definition", "schema_extension",
    "scalar_type_definition", "scalar_type_extension", "object_type_definition", "object_type_extension",
    "field_definition", "input_value_definition", "interface_type_definition", "interface_type_extension",
    "union_type_definition", "union_type_extension", "enum_type_definition", "enum_type_extension",
    "enum_value_definition", "input_object_type_definition", "input_object_type_extension",
}


def rule_const(prog, rep):
    """C05.CONST: the [Const] parameter of Directives / Arguments / Value.  Every call into a
    production that takes a Constness either passes the caller's own parameter through unchanged
    (also through a closure capture) or passes the constant the grammar prescribes for the calling
    production; and `value` reports an error for a Variable under Const on every path."""
    rep.floor("C05.CONST", 30)
    for fn in sorted(prog.fns.values(), key=lambda f: f.name):
        if fn.crate != "apollo_parser":
            continue
        for c in fn.live_calls():
            if not re.search(CONST_TAKERS, c.name):
                continue
            callee = c.name.split("grammar::")[-1]
            caller = fn.name.split("grammar::")[-1]
            s = fn.sym(c.args[1])
            m = re.fullmatch(r"Constness::(Const|NotConst)\{\}", s)
            if m:
                leaf = caller.split("::")[1] if "::" in caller else caller
                want = "NotConst" if leaf in NOTCONST_CALLERS else "Const" if leaf in CONST_CALLERS else None
                if want is None:
                    rep.fail("UNDECIDED rule=C05.CONST %s passes a constant Constness to %s but is not in the [Const] table of the grammar" % (caller, callee))
                elif want == m.group(1):
                    rep.instance("C05.CONST", "%s -> %s(%s) as the grammar prescribes" % (caller, callee, want))
                else:
                    rep.finding("C05.CONST", fn.name, "%s:%s" % (callee, m.group(1)),
                                "%s calls %s with Constness::%s; the grammar has %s there, so %s" % (
                                    caller, callee, m.group(1), "[Const]" if want == "Const" else "no [Const]",
                                    "a variable is accepted where only constant values are allowed" if want == "Const" else "variables are rejected in an executable position"), c.loc())
                continue
            ok = False
            if fn.kind == "closure":
                mm = re.fullmatch(r"arg1\.(\d+)", s)
                parent = prog.fns.get(fn.parent)
                if mm and parent is not None:
                    # the captured value in the creating function
                    for b in parent.live_blocks():
                        for st in parent.stmts(b):
                            if st[0] == "=" and st[2][0] == "agg" and isinstance(st[2][1], list) and st[2][1][0] == "closure" and st[2][1][1] == fn.uid:
                                ops = st[2][2]
                                i = int(mm.group(1))
                                if i < len(ops) and parent.sym(ops[i]).lstrip("&") == "arg2" and parent.local_ty(2).endswith("value::Constness"):
                                    ok = True
            elif s == "arg2" and fn.local_ty(2).endswith("value::Constness"):
                ok = True
            if ok:
                rep.instance("C05.CONST", "%s -> %s passes its own [?Const] parameter through" % (caller, callee))
            else:
                rep.finding("C05.CONST", fn.name, "%s:not-propagated" % callee,
                            "%s calls %s with `%s` instead of its own Constness parameter: [?Const] is not propagated" % (caller, callee, s), c.loc())
    # the leaf: a Variable under Const is an error on every path
    val = prog.inline(prog.fn(r"^apollo_parser::parser::grammar::value::value$"),
                      keep=r"Parser::<'input>::|grammar::variable::variable$|grammar::value::(list_value|object_value|enum_value)$")
    var_calls = [c for c in val.live_calls() if re.search(r"grammar::variable::variable$", c.name)]
    errs = [c.block for c in val.live_calls() if re.search(r"Parser::<'input>::(err|err_and_pop)$", c.name)]
    sw = [(b, val.switch_info(b)) for b in sorted(val.live_blocks())]
    sw = [(b, i) for b, i in sw if i and i.get("kind") == "enum" and i["adt"].endswith("value::Constness") and val.sym(i["place"]).lstrip("&") == "arg2"]
    if len(var_calls) != 1 or len(sw) != 1:
        rep.fail("UNDECIDED rule=C05.CONST value(): expected one call of variable() and one test of the Constness parameter (found %d / %d)" % (len(var_calls), len(sw)))
        return
    b, info = sw[0]
    t_const = info["edges"].get("Const", info["otherwise"])
    ok = val.dominates(b, var_calls[0].block) or must_pass(val, [0], [var_calls[0].block], [b])[0]
    from ..flow import must_pass_cp
    ok = ok and must_pass_cp(val, [t_const], [var_calls[0].block] + val.return_blocks(), errs)[0]
    rep.obligation(ok)
    if ok:
        rep.instance("C05.CONST", "value(): under Constness::Const every path to variable() reports `unexpected variable value in a Const context`")
    else:
        rep.finding("C05.CONST", val.name, "variable-under-const", "value() can parse a Variable under Constness::Const without reporting an error", val.loc())


RESERVED = [
    # production, node kind it builds, the words the grammar excludes (`Name but not ..`)
    ("EnumValue", r"^apollo_parser::parser::grammar::value::enum_value$", ["true", "false", "null"]),
    ("FragmentName", r"^apollo_parser::parser::grammar::fragment::fragment_name$", ["on"]),
]


def rule_reserved(prog, rep):
    """C05.RESERVED: the two `Name but not ...` productions.  In the function that builds the node,
    for every excluded word there is a comparison of the current token's text with that word, and
    on its true edge every path to the end reports an error.  The exclusion must be in the
    production's own function: other callers (enum value *definitions* call enum_value directly)
    do not go through value()'s keyword dispatch."""
    rep.floor("C05.RESERVED", 4)
    from ..flow import branch_on_call, must_pass_cp
    for prod, pat, words in RESERVED:
        f = prog.inline(prog.fn(pat), keep=r"Parser::<'input>::|grammar::name::name$")
        errs = [c.block for c in f.live_calls() if re.search(r"Parser::<'input>::(err|err_and_pop|err_at_token)$", c.name)]
        for w in words:
            cmps = []
            for c in f.live_calls():
                if not re.search(r"PartialEq.*::(eq|ne)$", c.name) or len(c.args) != 2:
                    continue
                syms = [f.sym(a) for a in c.args]
                if any(re.search(r'const:&?"%s"' % re.escape(w), x) for x in syms):
                    cmps.append(c)
            ok = bool(cmps)
            for c in cmps:
                br = branch_on_call(f, c)
                if br is None:
                    ok = False
                    continue
                t_true, t_false, _sw = br
                t_equal = t_false if c.name.endswith("::ne") else t_true
                if not must_pass_cp(f, [t_equal], f.return_blocks(), errs)[0]:
                    ok = False
            rep.obligation(ok)
            if ok:
                rep.instance("C05.RESERVED", "%s: the word `%s` is compared with the token text and reported as an error" % (prod, w))
            else:
                rep.finding("C05.RESERVED", f.name, "%s:%s" % (prod, w),
                            "%s is `Name but not %s`, but %s %s: `%s` is accepted as %s wherever this production is used directly" % (
                                prod, " / ".join(words), f.name.split("::")[-1], "never compares the token text with `%s`" % w if not cmps else "can pass the comparison with `%s` without reporting an error" % w, w, prod), f.loc())


def run(prog, rep):
    rule_dispatch(prog, rep)
    rule_locations(prog, rep)
    rule_nonempty(prog, rep)
    rule_schema_extension(prog, rep)
    rule_const(prog, rep)
    rule_reserved(prog, rep)
    # a document with a lexical error does not parse without errors: the lexer machine (C03.DFA)
    from . import lexer_dfa
    lexer_dfa.run(prog, rep)
    from . import parser_produce

    parser_produce.run(prog, rep)
