"""C07 — Standalone type and field-set parsing consume the whole input (DESIGN.md C07)."""
import re

from ..core import AnchorError, norm_path, op_const, op_local, op_place
from ..flow import arg_path_s, branch_on_enum_call, edge_facts, facts_at, has_fact, must_pass, must_pass_cp, _strip
from . import parser_common as PC

CRATES = ["apollo_parser", "apollo_compiler"]
LEVEL = "other"
EXPLANATION = """
C07.EOF: in each standalone entry (Parser::parse_type / parse_selection_set and the grammar
function it calls) every path from the return of the construct parser to the end passes an
end-of-input test on the next token whose non-Eof edges all report an error (directly, or through
the `peek_while(|p, kind| match kind { Eof => Break, _ => err...})` drain idiom).  C07.ERRMAP: the
compiler's parse_type / parse_field_set return Ok only through DiagnosticList::into_result* of the
list that received every syntax error of the tree (parse_common's loop skips an error only on the
two 4 GiB try_into guards).  Leading tokens are covered by the construct parser's own error on an
unexpected first token.
"""

ERR_CALLS = r"Parser::<'input>::(err|err_and_pop|err_at_token|push_err|limit_err)$"
PEEK_CALLS = r"Parser::<'input>::(peek|current|peek_token)$"


def _eof_guard_direct(fn, start_blocks):
    """blocks K in fn that test the kind of peek()/current() with an Eof (or None) pass edge and
    whose every other edge must-pass an error call before return.  returns (K set, problems)"""
    K = set()
    problems = []
    errs = [c.block for c in fn.live_calls() if re.search(ERR_CALLS, c.name)]
    for b in sorted(fn.live_blocks()):
        info = fn.switch_info(b)
        if not info or info.get("kind") != "enum":
            continue
        path = norm_path(fn.apath(info["place"]))
        if not re.search(r"call:.*" + PEEK_CALLS[:-1] + r"@\d+", path):
            continue
        if info["adt"].endswith("token_kind::TokenKind"):
            eof_t = info["edges"].get("Eof")
            if eof_t is None:
                continue
            others = set(fn.succs()[b]) - {eof_t}
        elif info["adt"].endswith("option::Option"):
            # Option level: None edge passes; Some edge must lead to a TokenKind test (handled above)
            continue
        else:
            continue
        bad = [o for o in others if not must_pass(fn, [o], fn.return_blocks(), errs)[0] and fn.term(o)[0] != "unreachable"]
        if bad:
            problems.append((b, bad))
        else:
            K.add(b)
    # Option level: `None` is end of input too; the Some edge must go straight to a K block
    for b in sorted(fn.live_blocks()):
        info = fn.switch_info(b)
        if info and info.get("kind") == "enum" and info["adt"].endswith("option::Option"):
            path = norm_path(fn.apath(info["place"]))
            if re.search(r"^call:.*" + PEEK_CALLS[:-1] + r"@\d+$", path):
                some_t = info["edges"].get("Some", info["otherwise"])
                if some_t in K:
                    K.add(b)
    # `at(Eof)` idiom
    for c in fn.live_calls():
        if re.search(r"Parser::<'input>::at$", c.name):
            k = op_const(c.args[1]) if len(c.args) > 1 else None
            l = op_local(c.args[1]) if len(c.args) > 1 else None
            is_eof = False
            if l is not None:
                sd = fn.single_def(l)
                if sd and sd[2][0] == "agg" and isinstance(sd[2][1], list) and sd[2][1][2] == "Eof":
                    is_eof = True
            if is_eof:
                from ..flow import branch_on_call
                br = branch_on_call(fn, c)
                if br:
                    t_true, t_false, sw = br
                    if must_pass(fn, [t_false], fn.return_blocks(), errs)[0]:
                        K.add(sw)
    return K, problems


def _drain_closure_ok(prog, cal):
    """closure passed to peek_while: Break only under kind == Eof, every other arm reports an error"""
    errs = [c.block for c in cal.live_calls() if re.search(ERR_CALLS, c.name)]
    # arg2 is `kind`
    for b in sorted(cal.live_blocks()):
        info = cal.switch_info(b)
        if info and info.get("kind") == "enum" and info["adt"].endswith("token_kind::TokenKind"):
            p = norm_path(cal.apath(info["place"]))
            if p != "arg%d" % cal.argc:  # the `kind` parameter (arg1 is the closure environment)
                continue
            eof_t = info["edges"].get("Eof")
            if eof_t is None:
                return False
            others = set(cal.succs()[b]) - {eof_t}
            for o in others:
                if cal.term(o)[0] == "unreachable":
                    continue
                if not must_pass(cal, [o], cal.return_blocks(), errs)[0]:
                    return False
            # Break is only assigned on the Eof side
            for bb in cal.reachable_blocks(list(others)):
                for s in cal.stmts(bb):
                    if s[0] == "=" and s[1][0] == 0 and s[2][0] == "agg" and isinstance(s[2][1], list) and s[2][1][2] == "Break":
                        if bb not in cal.reachable_blocks([eof_t]):
                            return False
            return True
    return False


def rule_eof(prog, rep):
    rep.floor("C07.EOF", 2)
    from .C01 import _callable_of
    pw = prog.fn(r"parser::Parser::<'input>::peek_while$")
    specs = [
        ("parse_type", r"parser::Parser::<'input>::parse_type$", r"grammar::ty::ty$", r"grammar::ty::parse$"),
        ("parse_selection_set", r"parser::Parser::<'input>::parse_selection_set$", r"grammar::selection::field_set$", r"grammar::selection::selection$|grammar::selection::selection_set$"),
    ]
    for label, ent, gram, construct in specs:
        efn = prog.fn(ent, "apollo_parser")
        g = prog.fn(gram, "apollo_parser")
        ok = False
        where = []
        # level 1: inside the grammar function, after the construct call(s)
        keep = r"Parser::<'input>::(peek\w*|err\w*|bump|expect|push_\w+|pop|eat|limit_err)$|lexer::|syntax_tree::|" + construct + "|" + gram
        for fn, after_pat in ((prog.inline(g, keep=keep), construct), (prog.inline(efn, keep=keep), gram)):
            cs = [c for c in fn.live_calls() if re.search(after_pat, c.name)]
            if not cs:
                continue
            starts = [c.target for c in cs if c.target is not None]
            K, problems = _eof_guard_direct(fn, starts)
            # drain idiom
            for c in fn.live_calls():
                if c.uid == pw.uid:
                    cal = _callable_of(prog, fn, c, 1)
                    if cal is not None and _drain_closure_ok(prog, cal):
                        K.add(c.block)
            K = set(k for k in K if any(k in fn.reachable_blocks([s]) for s in starts))
            if K:
                passed, leak = must_pass_cp(fn, starts, fn.return_blocks(), K)
                if passed:
                    ok = True
                    where.append("%s: end-of-input test at blocks %s" % (fn.name.split("::")[-1], sorted(K)))
        if ok:
            rep.instance("C07.EOF", "%s: %s" % (label, "; ".join(where)))
        else:
            rep.finding("C07.EOF", efn.name, "no-eof-check",
                        "after the %s is parsed nothing tests that the next token is end-of-input: trailing tokens are silently ignored and the input is accepted" % ("type reference" if label == "parse_type" else "selection set"),
                        g.loc())
            rep.instance("C07.EOF", "%s: no end-of-input test found after the construct parser [FINDING]" % label)


def rule_errmap(prog, rep):
    rep.floor("C07.ERRMAP", 3)
    pc0 = prog.fn(r"apollo_compiler::parser::Parser::parse_common$")
    # parse_common: loop over tree.errors(); every iteration pushes unless a try_into fails.
    # Private helpers of the loop body (e.g. one that builds the location and details and returns
    # None for the 4 GiB case) are inlined so that the iteration is read as one CFG.
    pc = prog.inline(pc0, keep=r"validation::DiagnosticList::push$")
    push = [c for c in pc.live_calls() if re.search(r"validation::DiagnosticList::push$", c.name)]
    nxt = [c for c in pc.live_calls() if re.search(r"Iterator>::next$|Iterator::next$", c.name)]
    if len(push) != 1 or len(nxt) != 1:
        raise AnchorError("parse_common: expected one DiagnosticList::push and one iterator next (found %d / %d)" % (len(push), len(nxt)))
    r = branch_on_enum_call(pc, nxt[0])
    if r is None:
        rep.fail("UNDECIDED rule=C07.ERRMAP parse_common: for-loop idiom not recognised")
        return
    info, sw = r
    some_t = info["edges"].get("Some", info["otherwise"])
    # blocks from which the loop continues without pushing: must be under a try_into Err edge
    # one iteration = the paths from the Some edge back to the `next` call (or out of the function);
    # a path that does not execute the push must have taken the Err edge of a try_into result
    from ..tables import enum_paths
    paths = enum_paths(pc, start=some_t, stops={nxt[0].block}, inner_loops="cut")
    ok = True
    guards = set()
    n_push = 0
    for atoms, end, blocks in paths:
        if push[0].block in blocks:
            n_push += 1
            continue
        errs = [f for f in _strip(atoms) if f[0] == "variant" and f[2] == "Err" and re.search(r"call:.*(TryInto|try_into|TryFrom|try_from)", f[1])]
        if errs:
            guards.update(f[1] for f in errs)
        else:
            ok = False
            rep.finding("C07.ERRMAP", pc.name, "filter",
                        "a syntax error of the tree can be skipped (not copied into the DiagnosticList) on a path that is not one of the 4 GiB try_into guards: %s" % ([f for f in _strip(atoms)][:6],), pc.loc())
            break
    if not n_push:
        ok = False
        rep.finding("C07.ERRMAP", pc.name, "no-push", "no path of the loop over tree.errors() pushes the error", pc.loc())
    if ok:
        rep.instance("C07.ERRMAP", "parse_common: every tree error is pushed; the only skips are %d try_into Err guards" % len(guards))
    # the iterator is tree.errors()
    ap = pc.apath(op_place(nxt[0].args[0]), transparent=False)
    # parse_type / parse_field_set
    pt = prog.fn(r"apollo_compiler::parser::Parser::parse_type$")
    ir = [c for c in pt.live_calls() if re.search(r"DiagnosticList::into_result$", c.name)]
    pcs = [c for c in pt.live_calls() if c.uid == pc.uid]
    if len(ir) != 1 or len(pcs) != 1:
        raise AnchorError("parse_type: expected one into_result and one parse_common call")
    errs_local = arg_path_s(pt, ir[0], 0)
    passed_errors = arg_path_s(pt, pcs[0], 4)
    # Ok only through into_result: the returned value derives from into_result's result
    ret_ok = False
    for b in pt.live_blocks():
        t = pt.term(b)
        if t[0] == "call" and t[3][0] == 0:
            c = pt.call_at(b)
            if re.search(r"Result::<T, E>::map$", c.name):
                a0 = pt.apath(op_place(c.args[0]), transparent=False)
                if re.match(r"call:.*DiagnosticList::into_result@", a0[0]):
                    ret_ok = True
    if ret_ok and errs_local == passed_errors:
        rep.instance("C07.ERRMAP", "parse_type: returns errors.into_result().map(..) of the list given to parse_common")
    else:
        rep.finding("C07.ERRMAP", pt.name, "result", "parse_type's result is not `errors.into_result().map(..)` of the list that received the syntax errors (%s vs %s)" % (errs_local, passed_errors), pt.loc())
    pfs = prog.fn(r"apollo_compiler::parser::Parser::parse_field_set$")
    irw = [c for c in pfs.live_calls() if re.search(r"DiagnosticList::into_result_with$", c.name)]
    inner = [c for c in pfs.live_calls() if re.search(r"parser::Parser::parse_field_set_inner$", c.name)]
    if len(irw) != 1 or len(inner) != 1 or irw[0].dest[0] != 0:
        rep.finding("C07.ERRMAP", pfs.name, "result", "parse_field_set does not return errors.into_result_with(field_set)", pfs.loc())
    else:
        a0 = pfs.apath(op_place(irw[0].args[0]), transparent=False)
        if re.match(r"call:.*parse_field_set_inner@", a0[0]):
            rep.instance("C07.ERRMAP", "parse_field_set: returns errors.into_result_with(..) of parse_field_set_inner's list")
        else:
            rep.finding("C07.ERRMAP", pfs.name, "result-prov", "into_result_with is not applied to the list returned by parse_field_set_inner", pfs.loc())
    pfi = prog.fn(r"apollo_compiler::parser::Parser::parse_field_set_inner$")
    pcs = [c for c in pfi.live_calls() if c.uid == pc.uid]
    if len(pcs) != 1:
        raise AnchorError("parse_field_set_inner: expected one parse_common call")
    passed_errors = arg_path_s(pfi, pcs[0], 4)
    # returned tuple's second component is the same list
    retok = False
    for b in pfi.live_blocks():
        for s in pfi.stmts(b):
            if s[0] == "=" and s[1][0] == 0 and s[2][0] == "agg" and s[2][1] == "tuple":
                pl = op_place(s[2][2][1])
                if pl is not None and norm_path(pfi.apath(pl)) == passed_errors:
                    retok = True
    if retok:
        rep.instance("C07.ERRMAP", "parse_field_set_inner: returns the list given to parse_common")
    else:
        rep.finding("C07.ERRMAP", pfi.name, "list", "the DiagnosticList returned is not the one that received the syntax errors", pfi.loc())
    # into_result / into_result_with: Ok only if the list is empty
    for nm in ("into_result", "into_result_with"):
        f = prog.fn(r"validation::DiagnosticList::%s$" % nm)
        oks = []
        for b in f.live_blocks():
            for s in f.stmts(b):
                if s[0] == "=" and s[1][0] == 0 and s[2][0] == "agg" and isinstance(s[2][1], list) and s[2][1][2] == "Ok":
                    oks.append(b)
        good = bool(oks)
        for b in oks:
            fs = facts_at(f, b)
            if not has_fact(fs, "callbool", name_re=r"is_empty$", value=True) and not has_fact(
                    fs, "variant", path_re=r"call:.*DiagnosticList::into_result@", variant="Ok"):
                good = False
        if good:
            rep.instance("C07.ERRMAP", "DiagnosticList::%s returns Ok only under is_empty() (directly or via into_result)" % nm)
        else:
            rep.finding("C07.ERRMAP", f.name, "ok-guard", "DiagnosticList::%s can return Ok for a non-empty list" % nm, f.loc())


def rule_braces(prog, rep):
    """C07.BRACES: the outer braces of a standalone selection set come in pairs.  Read on the CFG of
    field_set with boolean flags propagated along each path: a path that consumes `{` must go
    through `expect('}')` (which reports the missing brace) or through an error; a `}` is consumed
    as a closing brace only on a path that consumed `{`.  Otherwise `{ id` or `id }` is accepted."""
    rep.floor("C07.BRACES", 1)
    g0 = prog.fn(r"^apollo_parser::parser::grammar::selection::field_set$")
    g = prog.inline(g0, keep=r"Parser::<'input>::|grammar::selection::selection$")
    from ..flow import reachable_cp
    opens = [c for c in g.live_calls() if re.search(r"Parser::<'input>::bump$", c.name) and "L_CURLY" in g.sym(c.args[1])]
    closes_expect = [c for c in g.live_calls() if re.search(r"Parser::<'input>::expect$", c.name) and "R_CURLY" in g.sym(c.args[2])]
    closes_bump = [c for c in g.live_calls() if re.search(r"Parser::<'input>::(bump|eat)$", c.name) and "R_CURLY" in g.sym(c.args[1])]
    errs = [c.block for c in g.live_calls() if re.search(ERR_CALLS, c.name)]
    if not opens:
        rep.instance("C07.BRACES", "field_set never consumes an outer `{` (braces are not part of the standalone syntax here)")
        return
    ok = True
    # (a) after `{`: every path to the end passes expect('}') or an error (walk with flags known)
    through = set(c.block for c in closes_expect) | set(errs)
    for o in opens:
        # start at the entry so that the flag set before the bump is known on the path
        reach = reachable_cp(g, [0], avoid=through)
        leaked = [b for b in g.return_blocks() if b in reach]
        # only paths that actually went through the bump matter: check reachability from the bump's
        # own target with the same avoidance, intersected with what is reachable from the entry
        reach_o = reachable_cp(g, [o.target], avoid=through) if o.target is not None else set()
        flagged = any(b in reach_o for b in g.return_blocks())
        if flagged:
            # confirm with flags: is there a flag-consistent path entry -> bump -> return avoiding `through`?
            from ..flow import cp_transfer, cp_switch_target
            found = [False]
            seen = set()

            def walk(b, envt, opened):
                if found[0] or (b, envt, opened) in seen:
                    return
                seen.add((b, envt, opened))
                if b in through:
                    return
                env = cp_transfer(g, b, dict(envt))
                if b == o.block:
                    opened = True
                t = g.term(b)
                if t[0] == "ret":
                    if opened:
                        found[0] = True
                    return
                succ = g.succs()[b]
                if t[0] == "switch":
                    tg = cp_switch_target(g, b, env)
                    if tg is not None:
                        succ = [tg]
                e2 = tuple(sorted(env.items(), key=lambda kv: kv[0]))
                for s2 in succ:
                    walk(s2, e2, opened)

            walk(0, (), False)
            if found[0]:
                ok = False
                rep.finding("C07.BRACES", g0.name, "unclosed", "a path consumes the outer `{` and reaches the end without `expect('}')` and without an error: `{ id` is accepted as a field set", o.loc())
    # (b) a `}` consumed by bump/eat (not by expect) needs the `{` before it on every path
    for c in closes_bump:
        if not any(g.dominates(o.block, c.block) for o in opens):
            ok = False
            rep.finding("C07.BRACES", g0.name, "unopened", "a closing `}` is consumed on a path that did not consume an opening `{`: `id }` is accepted as a field set", c.loc())
    if ok:
        rep.instance("C07.BRACES", "field_set: `{` is followed by expect('}') on every path, and no `}` is consumed without its `{`")


def run(prog, rep):
    rule_eof(prog, rep)
    rule_braces(prog, rep)
    rule_errmap(prog, rep)
