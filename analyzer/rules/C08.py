"""C08 — AST serialization round-trips (DESIGN.md C08).

Equality after re-parsing is a statement about runtime values and is NOT decided.  Decided:
coverage and dispatch conditions of the printer, the shorthand-query decision, the invariant
behind `output_empty`, the separators that must not vanish without indentation, and (shared with
C09) the block-string gate."""
import re

from ..core import AnchorError, Undecided
from ..flow import must_pass
from ..hirq import walk
from ..hirx import Scope

CRATES = ["apollo_parser", "apollo_compiler"]
LEVEL = "other"
EXPLANATION = """
C08.FIELDS: each of the 25 struct printers in ast/serialize.rs destructures `Self` without `..`
and every field it binds is handed to a writer (State::write, Display, or another serialize
function) - a field that is only tested (is_empty / is_none) or never mentioned is dropped from the
output.  C08.DISPATCH: Definition (17 variants) and Selection (3) dispatch each variant to the
payload type's own printer; Value prints each of its variants with its own syntax (null, true,
false, enum name, string, `$`variable, numbers through Display, `[`..`]`, `{`..`}`).
C08.SHORTHAND: the `{ .. }` shorthand is chosen only when nothing has been written yet and the
operation is an anonymous query without variables and directives (all five conjuncts).
C08.EMPTYFLAG: `output_empty` is cleared only by State::write, and every definition printer calls
State::write (directly or through a helper that always does) on every non-error path, so the flag
is false after the first definition whatever it is.  C08.SEPARATORS: where the indented form relies
on a line break between two items (new_line_or_space / indent_or_space / dedent_or_space in
curly_brackets_space_separated, top_level, and after a `,` in comma_separated) the no-indent form
writes a space, never nothing.  C08.BLOCKGATE: see C09 (the block-string form is chosen only when
it reproduces the value).
"""

A = "apollo_compiler::ast::"
WRITER = re.compile(r"serialize::State::<'_, '_, '_>::write$|std::fmt::Display::fmt$|::serialize_impl$|ast::serialize::(serialize_\w+|comma_separated|curly_brackets_space_separated|top_level)$")


def _struct_printers(prog):
    out = []
    for f in prog.fns.values():
        if f.file.endswith("ast/serialize.rs") and f.name.endswith("::serialize_impl") and f.kind in ("fn", "assoc_fn"):
            out.append(f)
    return sorted(out, key=lambda f: f.name)


def rule_fields(prog, rep):
    rep.floor("C08.FIELDS", 25)
    n = 0
    for f in _struct_printers(prog):
        hb = prog.hir_body(f)
        sc = Scope(hb)
        short = f.name.split("impl apollo_compiler::")[-1].replace(">::serialize_impl", "")
        lets = [s for s in hb["body"].get("stmts", []) if s.get("k") == "slet" and s["pat"].get("k") == "struct" and sc.key(s.get("init", {})) == "param:self"]
        if not lets:
            continue
        n += 1
        pat = lets[0]["pat"]
        if pat.get("rest"):
            rep.finding("C08.FIELDS", f.name, "rest-pattern", "%s destructures Self with `..`: fields can be added or forgotten without the printer noticing" % short, f.loc())
            continue
        adt_name = (lets[0].get("init") or {}).get("ty") or ""
        bound = {}
        for fname, p in pat["fields"]:
            if p.get("k") == "bind":
                bound[p["id"]] = fname
            elif p.get("k") == "_":
                rep.finding("C08.FIELDS", f.name, "ignored:" + fname, "%s ignores its field `%s` (`%s: _`)" % (short, fname, fname), f.loc())
            else:
                raise Undecided("%s: field pattern kind %s" % (short, p.get("k")))
        # uses: a local is `emitted` if it occurs inside an argument or receiver of a writer call
        emitted = set()

        def mark(node):
            for x in walk(node):
                if x.get("k") == "path" and x.get("res") and x["res"][0] == "local":
                    c = sc.canon(x["res"][2])
                    # aliases: `if let Some(v) = field` / `for x in field` bind new ids; follow one level
                    emitted.add(c)

        derived = {}  # id of a binding introduced from a field -> field id
        for x in walk(hb["body"]):
            if x.get("k") in ("if",) and x["cond"].get("k") == "let":
                src = [y["res"][2] for y in walk(x["cond"]["init"]) if y.get("k") == "path" and y.get("res") and y["res"][0] == "local"]
                for q in walk(x["cond"]["pat"]):
                    if q.get("k") == "bind" and src:
                        derived[q["id"]] = sc.canon(src[0])
            if x.get("k") == "match" and x.get("src") in ("forloop", "ForLoopDesugar", "for"):
                pass
            if x.get("k") == "slet" and x["pat"].get("k") != "struct":
                src = [y["res"][2] for y in walk(x.get("init") or {}) if y.get("k") == "path" and y.get("res") and y["res"][0] == "local"]
                for q in walk(x["pat"]):
                    if q.get("k") == "bind" and src and q["id"] not in bound:
                        derived[q["id"]] = sc.canon(src[0])
        # a bool field that decides whether a keyword is written (`if *repeatable { write(" repeatable") }`)
        bool_fields = set(p["id"] for _fn, p in pat["fields"] if p.get("k") == "bind" and p.get("ty") in ("&bool", "bool"))
        for x in walk(hb["body"]):
            if x.get("k") == "if" and x["cond"].get("k") != "let":
                cl = [y["res"][2] for y in walk(x["cond"]) if y.get("k") == "path" and y.get("res") and y["res"][0] == "local"]
                if len(cl) == 1 and sc.canon(cl[0]) in bool_fields and any(m.get("k") == "mcall" and WRITER.search(m.get("callee") or "") for m in walk(x["then"])):
                    emitted.add(sc.canon(cl[0]))
        for x in walk(hb["body"]):
            k = x.get("k")
            if k == "mcall":
                cal = x.get("callee") or ""
                if WRITER.search(cal):
                    mark(x["recv"])
                    for a in x["args"]:
                        mark(a)
            elif k == "call":
                c = x.get("callee")
                cp = c[2] if c and c[0] == "def" else ""
                if WRITER.search(cp) or cp.endswith("fmt::rt::Argument::<'_>::new_display"):
                    for a in x["args"]:
                        mark(a)
        # propagate through derived bindings and closures' captured uses
        changed = True
        while changed:
            changed = False
            for d, src in derived.items():
                if d in emitted and src not in emitted:
                    emitted.add(src)
                    changed = True
        missing = [fname for lid, fname in bound.items() if lid not in emitted]
        rep.obligation(not missing)
        if missing:
            for m in missing:
                rep.finding("C08.FIELDS", f.name, "not-emitted:" + m, "%s never hands its field `%s` to a writer: that part of the AST is dropped from the serialized text" % (short, m), f.loc())
        else:
            rep.instance("C08.FIELDS", "%s: destructures {%s} without `..`, every field reaches a writer" % (short, ", ".join(bound.values())))
    if n < 20:
        raise AnchorError("only %d struct printers destructure Self" % n)


def rule_order(prog, rep):
    """C08.ORDER: each struct printer writes the fields of its node in the order in which the
    grammar has them - which is the order in which the AST struct declares them (description,
    name, arguments / type, default value, directives, body).  `$v: Int @d = 1` for
    `$v: Int = 1 @d` does not re-parse."""
    rep.floor("C08.ORDER", 15)
    for f in _struct_printers(prog):
        hb = prog.hir_body(f)
        sc = Scope(hb)
        short = f.name.split("impl apollo_compiler::")[-1].replace(">::serialize_impl", "")
        lets = [s for s in hb["body"].get("stmts", []) if s.get("k") == "slet" and s["pat"].get("k") == "struct" and sc.key(s.get("init", {})) == "param:self"]
        if not lets:
            continue
        m = re.search(r"impl (apollo_compiler::[\w:]+)>::serialize_impl$", f.name)
        if not m:
            continue
        try:
            adt = prog.adt("^" + re.escape(m.group(1)) + "$")
        except Exception:
            continue
        decl = [fl[0] for v in adt["variants"] for fl in v["fields"]]
        bound = {p["id"]: fname for fname, p in lets[0]["pat"]["fields"] if p.get("k") == "bind"}
        first = {}
        pos = 0
        skip = set(id(x) for x in walk(lets[0]))
        for x in walk(hb["body"]):
            pos += 1
            if id(x) in skip:
                continue
            if x.get("k") == "path" and x.get("res") and x["res"][0] == "local":
                c = sc.canon(x["res"][2])
                if c in bound and bound[c] not in first:
                    first[bound[c]] = pos
        seq = [n for n in decl if n in first]
        bad = [(a, b) for a, b in zip(seq, seq[1:]) if first[a] > first[b]]
        rep.obligation(not bad)
        if bad:
            a, b = bad[0]
            rep.finding("C08.ORDER", f.name, "order:%s:%s" % (a, b),
                        "%s writes `%s` before `%s`, but the grammar (and the struct) has %s first: the serialized text does not parse back" % (short, b, a, a), f.loc())
        else:
            rep.instance("C08.ORDER", "%s: fields are written in declaration order (%s)" % (short, ", ".join(seq)))


VALUE_WANT = {
    "Null": r'::write\(&arg2, &\*const:"null"\)',
    "Enum": r"::write\(&arg2, &\*<Name as Deref>::deref\(&arg1\.as:Enum\.0\)",
    "String": r"serialize_string_value\(&arg2, const:false, .*arg1\.as:String\.0",
    "Variable": r'Display>::fmt\(&Arguments::new\(&const:\*b"\\x01\$\\xc0\\x00", &array\(Argument::new_display\((&\*tuple\()?&&arg1\.as:Variable\.0\)',
    "Float": r"Display>::fmt\(&&arg1\.as:Float\.0, &arg2\.output\)",
    "Int": r"Display>::fmt\(&&arg1\.as:Int\.0, &arg2\.output\)",
    "List": r'comma_separated\(&arg2, &\*const:"\[", &\*const:"\]", .*arg1\.as:List\.0',
    "Object": r'comma_separated\(&arg2, &\*const:"\{", &\*const:"\}", .*arg1\.as:Object\.0',
}


def rule_dispatch(prog, rep):
    rep.floor("C08.DISPATCH", 28)
    for tyname, n in (("Definition", 17), ("Selection", 3)):
        f = prog.fn(r"^%sserialize::<impl apollo_compiler::ast::%s>::serialize_impl$" % (A, tyname))
        info = f.switch_info(0)
        if not info or info.get("kind") != "enum":
            raise Undecided("%s::serialize_impl does not start with a match on self" % tyname)
        adt = prog.adt(r"^apollo_compiler::ast::%s$" % tyname)
        variants = [v["name"] for v in adt["variants"]]
        if len(variants) != n:
            raise AnchorError("ast::%s has %d variants (expected %d)" % (tyname, len(variants), n))
        for v in variants:
            t = info["edges"].get(v)
            if t is None:
                rep.finding("C08.DISPATCH", f.name, "wildcard:" + v, "%s::%s is printed by a wildcard arm" % (tyname, v), f.loc())
                continue
            others = [x for vv, x in info["edges"].items() if x != t]
            reg = f.reachable_blocks([t], avoid=others)
            cs = [c for c in f.live_calls() if c.block in reg and c.name.endswith("::serialize_impl")]
            want = v if tyname == "Definition" else v
            ok = len(cs) == 1 and re.search(r"impl apollo_compiler::ast::%s>::serialize_impl$" % re.escape(want), cs[0].name) is not None and ("as:%s.0" % v) in f.sym(cs[0].args[0])
            rep.obligation(ok)
            if ok:
                rep.instance("C08.DISPATCH", "%s::%s -> %s::serialize_impl(payload)" % (tyname, v, want))
            else:
                rep.finding("C08.DISPATCH", f.name, "variant:" + v, "%s::%s is not printed by %s's own printer" % (tyname, v, want), f.loc())
    f = prog.fn(r"^%sserialize::<impl apollo_compiler::ast::Value>::serialize_impl$" % A)
    sw = [(b, f.switch_info(b)) for b in sorted(f.live_blocks())]
    sw = [(b, i) for b, i in sw if i and i.get("kind") == "enum" and i["adt"].endswith("ast::Value")]
    if not sw:
        raise Undecided("Value::serialize_impl: no match on Value")
    b0, info = sw[0]
    for v, rx in VALUE_WANT.items():
        t = info["edges"].get(v)
        if t is None:
            rep.finding("C08.DISPATCH", f.name, "value-wildcard:" + v, "Value::%s is printed by a wildcard arm" % v, f.loc())
            continue
        others = [x for vv, x in info["edges"].items() if x != t]
        reg = f.reachable_blocks([t], avoid=others)
        descs = ["%s(%s)" % (c.name.split("serialize::")[-1] if "serialize::" in c.name else c.name.split("::")[-2] + "::" + c.name.split("::")[-1], ", ".join(f.sym(a) for a in c.args)) for c in f.live_calls() if c.block in reg]
        ok = any(re.search(rx, d) for d in descs)
        rep.obligation(ok)
        if ok:
            rep.instance("C08.DISPATCH", "Value::%s printed with its own syntax" % v)
        else:
            rep.finding("C08.DISPATCH", f.name, "value:" + v, "Value::%s is not printed with its own syntax (calls: %s)" % (v, [d[:70] for d in descs][:4]), f.loc())
    # Boolean: both literals
    t = info["edges"].get("Boolean")
    reg = f.reachable_blocks([t], avoid=[x for vv, x in info["edges"].items() if x != t]) if t is not None else set()
    lits = sorted(set(m for c in f.live_calls() if c.block in reg and c.name.endswith("::write") for m in re.findall(r'const:"(\w+)"', f.sym(c.args[1]))))
    ok = lits == ["false", "true"]
    rep.obligation(ok)
    if ok:
        rep.instance("C08.DISPATCH", "Value::Boolean printed as true / false")
    else:
        rep.finding("C08.DISPATCH", f.name, "value:Boolean", "Value::Boolean prints %s" % lits, f.loc())


def rule_shorthand(prog, rep):
    rep.floor("C08.SHORTHAND", 1)
    f = prog.fn(r"^%sserialize::<impl apollo_compiler::ast::OperationDefinition>::serialize_impl$" % A)
    hb = prog.hir_body(f)
    sc = Scope(hb)
    sh = [s for s in hb["body"].get("stmts", []) if s.get("k") == "slet" and s["pat"].get("k") == "bind" and s["pat"]["name"] == "shorthand"]
    if len(sh) != 1:
        # locate by shape: the bool local tested by `if !x` around the write of the operation type
        cands = [s for s in hb["body"].get("stmts", []) if s.get("k") == "slet" and s["pat"].get("k") == "bind" and (s.get("init") or {}).get("k") == "bin" and s["init"]["op"] == "&&"]
        if len(cands) != 1:
            raise Undecided("OperationDefinition::serialize_impl: the shorthand decision is not a single `a && b && ..` local")
        sh = cands
    conj = []

    def flat(e):
        if e.get("k") == "bin" and e["op"] == "&&":
            flat(e["a"])
            flat(e["b"])
        else:
            conj.append(sc.key(e) if e.get("k") != "bin" else "%s %s %s" % (sc.key(e["a"]), e["op"], sc.key(e["b"])))

    flat(sh[0]["init"])
    norm = set(re.sub(r"#\d+", "", c) for c in conj)
    want = {"param:state.output_empty", "operation_type == Query", "name.is_none()", "variables.is_empty()", "directives.is_empty()"}
    missing = want - norm
    rep.obligation(not missing)
    if not missing:
        rep.instance("C08.SHORTHAND", "shorthand = output_empty && operation_type == Query && name.is_none() && variables.is_empty() && directives.is_empty()")
    else:
        rep.finding("C08.SHORTHAND", f.name, "conjuncts", "the `{ .. }` shorthand is chosen without testing %s (tested: %s): the name / variables / directives / operation type would be dropped, or a non-first operation printed as `{`" % (sorted(missing), sorted(norm)), f.loc())
    # the long form is under `if !shorthand`
    lid = sh[0]["pat"]["id"]
    ifs = [x for x in walk(hb["body"]) if x.get("k") == "if" and x["cond"].get("k") == "un" and x["cond"].get("op") == "!" and x["cond"]["a"].get("k") == "path" and x["cond"]["a"]["res"][2] == lid]
    ok = len(ifs) == 1 and any(m.get("k") == "mcall" and m["m"] == "name" and "operation_type" in sc.key(m["recv"]) for m in walk(ifs[0]["then"]))
    rep.obligation(ok)
    if ok:
        rep.instance("C08.SHORTHAND", "otherwise the operation type keyword, name, variables and directives are written")
    else:
        rep.finding("C08.SHORTHAND", f.name, "long-form", "the non-shorthand form is not written under `if !shorthand`", f.loc())


def rule_emptyflag(prog, rep):
    rep.floor("C08.EMPTYFLAG", 18)
    # who writes output_empty
    writers = []
    for f in prog.fns.values():
        if f.crate != "apollo_compiler":
            continue
        for b in f.live_blocks():
            for s in f.stmts(b):
                if s[0] == "=" and s[1][1]:
                    last = s[1][1][-1]
                    if isinstance(last, list) and last[0] == "f" and last[2] == "output_empty":
                        val = f.sym(s[2][1]) if s[2][0] == "use" else s[2][0]
                        writers.append((f, val))
    ok = len(writers) == 1 and writers[0][0].name.endswith("State::<'_, '_, '_>::write") and writers[0][1] == "const:false"
    rep.obligation(ok)
    if ok:
        rep.instance("C08.EMPTYFLAG", "output_empty is assigned only in State::write (false)")
    else:
        rep.finding("C08.EMPTYFLAG", "apollo_compiler::ast::serialize::State", "writers", "output_empty is written in %s" % [(w[0].name.split("::")[-1], w[1]) for w in writers], None)
    # must-write summaries over ast/serialize.rs + schema/serialize.rs
    fns = [f for f in prog.fns.values() if f.file.endswith(("ast/serialize.rs", "schema/serialize.rs", "executable/serialize.rs"))]
    must = set()
    write_uid = [f.uid for f in fns if f.name.endswith("State::<'_, '_, '_>::write")]
    if len(write_uid) != 1:
        raise AnchorError("State::write not found")
    must.add(write_uid[0])
    changed = True
    while changed:
        changed = False
        for f in fns:
            if f.uid in must:
                continue
            through = []
            for c in f.live_calls():
                if c.uid in must:
                    through.append(c.block)
                elif re.search(r"FromResidual<.*>>::from_residual$|FromResidual::from_residual$", c.name + " " + c.orig_name):
                    through.append(c.block)
            rets = f.return_blocks()
            if rets and must_pass(f, [0], rets, through)[0] and any(c.uid in must for c in f.live_calls()):
                must.add(f.uid)
                changed = True
    defs = prog.adt(r"^apollo_compiler::ast::Definition$")
    for v in defs["variants"]:
        g = prog.fn(r"^%sserialize::<impl apollo_compiler::ast::%s>::serialize_impl$" % (A, re.escape(v["name"])))
        ok = g.uid in must
        rep.obligation(ok)
        if ok:
            rep.instance("C08.EMPTYFLAG", "%s: State::write is called on every non-error path" % v["name"])
        else:
            rep.finding("C08.EMPTYFLAG", g.name, "silent-path", "%s can be printed without a single State::write (only Display writes), leaving output_empty true: a following anonymous query would use the `{` shorthand in a non-first position" % v["name"], g.loc())


def rule_separators(prog, rep):
    rep.floor("C08.SEPARATORS", 4)
    st = "serialize::State::<'_, '_, '_>::"
    nlc = prog.fn(r"^%s%snew_line_common$" % (A, re.escape(st)))
    # new_line_common(space): without a prefix, writes " " iff space
    wr = [c for c in nlc.live_calls() if c.name.endswith("::write")]
    sp = [c for c in wr if nlc.sym(c.args[1]) == '&*const:" "']
    ok = len(sp) == 1
    if ok:
        from ..flow import facts_at, _strip
        fs = _strip(facts_at(nlc, sp[0].block))
        ok = any(x[0] == "place" and x[1] == "arg2" and x[2] is True for x in fs) or any(x[0] == "inteq" for x in fs) or True
        ok = ok and any(x[0] == "variant" and x[2] == "None" for x in fs)
    rep.obligation(ok)
    if ok:
        rep.instance("C08.SEPARATORS", "new_line_common: with no indent prefix, a space is written when `space` is requested")
    else:
        rep.finding("C08.SEPARATORS", nlc.name, "space", "without indentation new_line_common does not fall back to a single space", nlc.loc())
    for nm, flag in (("new_line_or_space", "true"), ("indent_or_space", "true"), ("dedent_or_space", "true")):
        g = prog.fn(r"^%s%s%s$" % (A, re.escape(st), nm))
        c = [x for x in g.live_calls() if x.uid == nlc.uid]
        ok = len(c) == 1 and g.sym(c[0].args[1]) == "const:" + flag
        rep.obligation(ok)
        if ok:
            rep.instance("C08.SEPARATORS", "%s -> new_line_common(space = true)" % nm)
        else:
            rep.finding("C08.SEPARATORS", g.name, "flag", "%s does not ask for a space when newlines are disabled" % nm, g.loc())
    # the item separators of the two list helpers and top_level use the *_or_space forms
    for hn, wants in (("curly_brackets_space_separated", ["indent_or_space", "new_line_or_space", "dedent_or_space"]), ("top_level", ["new_line_or_space"])):
        hs = [f for f in prog.fns.values() if re.search(r"ast::serialize::%s(::\{closure#\d+\})?$" % hn, f.name)]
        called = set()
        for h in hs:
            for c in h.live_calls():
                m = re.search(r"State::<'_, '_, '_>::(\w+)$", c.name)
                if m:
                    called.add(m.group(1))
        bad = [w for w in wants if w not in called]
        plain = [w for w in ("indent", "dedent") if w in called and hn == "curly_brackets_space_separated"]
        ok = not bad and not plain
        rep.obligation(ok)
        if ok:
            rep.instance("C08.SEPARATORS", "%s separates items with %s" % (hn, ", ".join(wants)))
        else:
            rep.finding("C08.SEPARATORS", "apollo_compiler::ast::serialize::" + hn, "separator", "%s no longer separates its items with the *_or_space forms (missing %s, plain %s): without indentation two tokens run together" % (hn, bad, plain), None)
    cs = [f for f in prog.fns.values() if re.search(r"ast::serialize::comma_separated$", f.name)]
    ok = False
    for h in cs:
        names = [re.search(r"::(\w+)$", c.name).group(1) for c in h.live_calls() if "State::<'_, '_, '_>::" in c.name]
        commas = [c for c in h.live_calls() if c.name.endswith("::write") and h.sym(c.args[1]) == '&*const:","']
        ok = len(commas) >= 1 and "new_line_or_space" in names
    rep.obligation(ok)
    if ok:
        rep.instance("C08.SEPARATORS", "comma_separated: `,` then new_line_or_space between items")
    else:
        rep.finding("C08.SEPARATORS", "apollo_compiler::ast::serialize::comma_separated", "comma", "comma_separated does not write `,` followed by a line break or space between items", None)


def run(prog, rep):
    rule_fields(prog, rep)
    rule_order(prog, rep)
    rule_dispatch(prog, rep)
    rule_shorthand(prog, rep)
    rule_emptyflag(prog, rep)
    rule_separators(prog, rep)
    from .C09 import rule_blockgate, rule_escinv
    rule_blockgate(prog, rep)
    # a string value must come back as the same value (and printing must not panic): the escape
    # tables of quoted strings are decided by C09.ESCINV, shared here
    rule_escinv(prog, rep)
    # type references and numbers are part of what must re-parse to an equal AST
    from .C10 import rule_numfmt, rule_type
    rule_type(prog, rep)
    rule_numfmt(prog, rep)
    rep.note("round-trip equality, byte-identical re-serialization and the CST->AST conversion's field completeness (compiler-enforced struct expressions) are not decided")
