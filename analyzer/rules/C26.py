"""C26 — Execution follows the GraphQL execution algorithm (DESIGN.md C26).

Response equality with a reference executor is a statement about runtime values and is NOT
decided.  Decided: the decision tables and provenance facts that CollectFields, CompleteValue and
null propagation rest on."""
import re

from ..core import Undecided
from ..flow import _strip, facts_at
from ..hirq import walk
from ..hirx import Scope, ancestors, calls, mcalls, struct_exprs
from ..tables import enum_paths, return_value_on_path

CRATES = ["apollo_compiler"]
LEVEL = "other"
EXPLANATION = """
C26.NULLIFY: try_nullify is the 3-row table (Ok -> Ok; Err and non-null -> Err; Err and nullable ->
Ok(null)); every call of try_nullify uses the type the value was completed with (the list item is
completed and nullified with the *item* type, then the list with the list type; a field with its
definition's type); the argument-coercion error in execute_field follows the same table; a null leaf
is an error exactly for a non-null type; `data` is `result.ok()`.  C26.PATH: every field error is
built with the path of the position it belongs to - the enclosing function's `path`, or for list
items a LinkedPathElement{ListIndex(index), next: path} with the index of the enumerated stream -
and execute_field / complete_value receive the path extended by the response key / unchanged.
C26.APPLY: does_fragment_type_apply is the DoesFragmentTypeApply() table over ExtendedType.
C26.COLLECT: collect_fields skips on @skip(true) or not @include(true) with defaults false/true,
groups fields by response key in document order (IndexMap entry/or_default/push), visits a named
fragment only on first insertion into the visited set, applies the type condition, and recurses
into the fragment's own selections with the same visited set, map and object type.  eval_if_arg
reads the `if` argument as a Boolean literal or a Boolean variable value.  C26.LEAF: result
coercion of the five built-in scalars consults exactly the documented JSON predicates.
"""

R = "apollo_compiler::resolvers::"


def _hb(prog, pat):
    fn = prog.fn(pat)
    return fn, prog.hir_body(fn)


def rule_nullify(prog, rep):
    rep.floor("C26.NULLIFY", 8)
    fn = prog.fn(r"^%sexecution::try_nullify$" % R)
    rows = {}
    for atoms, rb, path in enum_paths(fn):
        a = _strip(atoms)
        key = []
        for f in a:
            if f[0] == "variant" and f[1] == "arg2":
                key.append(f[2])
            elif f[0] == "callbool" and f[1].endswith("Type>::is_non_null") and f[2] == ("arg1",):
                key.append("nonnull" if f[3] else "nullable")
            else:
                raise Undecided("try_nullify branches on %s" % (f,))
        rows[tuple(key)] = return_value_on_path(fn, path)
    want = {("Ok",): "Result::Ok{arg2.as:Ok.0}", ("Err", "nullable"): "Result::Ok{Option::Some{Value::Null{}}}", ("Err", "nonnull"): "Result::Err{PropagateNull::PropagateNull{}}"}
    ok = rows == want
    rep.obligation(ok)
    if ok:
        rep.instance("C26.NULLIFY", "try_nullify: Ok -> Ok; Err & non-null -> Err; Err & nullable -> Ok(null)")
    else:
        rep.finding("C26.NULLIFY", fn.name, "table", "try_nullify is %s, expected %s" % (rows, want), fn.loc())

    # complete_list_value: item completed and nullified with the item type, list with the list type
    fn, hb = _hb(prog, r"^%sresult_coercion::complete_list_value$" % R)
    sc = Scope(hb)
    cvs = calls(hb["body"], "result_coercion::complete_value")
    tns = calls(hb["body"], "execution::try_nullify")
    if len(cvs) != 1 or len(tns) != 2:
        raise Undecided("complete_list_value: expected one complete_value and two try_nullify calls (found %d / %d)" % (len(cvs), len(tns)))
    item_ty = sc.key(cvs[0]["args"][3])
    # the item type is the payload of List / NonNullList of the function's `ty`
    it_let = None
    for lid, n in sc.lets.items():
        if sc.key({"k": "path", "res": ["local", sc.names[lid], lid]}) == item_ty:
            it_let = n
    ok_src = False
    if it_let is not None and it_let["init"].get("k") == "match" and sc.key(it_let["init"]["scrut"]) == "param:ty":
        for arm in it_let["init"]["arms"]:
            vs = set()
            for q in walk(arm["pat"]):
                if q.get("k") in ("tstruct", "path", "struct") and q.get("res") and q["res"][0] == "def":
                    vs.add((q["res"][4] if len(q["res"]) > 4 else q["res"][2]).split("::")[-1])
            binds = [q for q in walk(arm["pat"]) if q.get("k") == "bind"]
            body = arm["body"]
            if vs == {"List", "NonNullList"} and binds and body.get("k") == "path" and body["res"][0] == "local" and body["res"][2] in [b["id"] for b in binds]:
                ok_src = True
    rep.obligation(ok_src)
    if ok_src:
        rep.instance("C26.NULLIFY", "complete_list_value: item type = payload of Type::List / Type::NonNullList of `ty`")
    else:
        rep.finding("C26.NULLIFY", fn.name, "item-type", "the item type handed to complete_value is not the payload of List/NonNullList of the list type", fn.loc())
    item_calls = [t for t in tns if sc.key(t["args"][1]) != "Err(PropagateNull)"]
    list_calls = [t for t in tns if sc.key(t["args"][1]) == "Err(PropagateNull)"]
    ok_item = len(item_calls) == 1 and sc.key(item_calls[0]["args"][0]) == item_ty
    if ok_item:
        # its value argument is the awaited result of that complete_value call
        v = item_calls[0]["args"][1]
        ok_item = v.get("k") == "path" and v["res"][0] == "local" and v["res"][2] in sc.lets and any(x is cvs[0] for x in walk(sc.lets[v["res"][2]]["init"]))
    rep.obligation(ok_item)
    if ok_item:
        rep.instance("C26.NULLIFY", "complete_list_value: try_nullify(item type, completed item) - the type the item was completed with")
    else:
        rep.finding("C26.NULLIFY", fn.name, "item-nullify", "a completed list item is nullified with `%s`, but it was completed with type `%s`: null lands in (or escapes from) the wrong level of the list" % (
            sc.key(item_calls[0]["args"][0]) if item_calls else "?", item_ty), fn.loc(item_calls[0].get("l") if item_calls else None))
    ok_list = len(list_calls) == 1 and sc.key(list_calls[0]["args"][0]) == "param:ty"
    if ok_list:
        # inside the Err(PropagateNull) arm of the match on the item's try_nullify
        anc = ancestors(hb["body"], list_calls[0])
        ms = [a for a in anc if a.get("k") == "match" and any(x is item_calls[0] for x in walk(a["scrut"]))] if item_calls else []
        ok_list = bool(ms)
        if ok_list:
            arm = [a for a in ms[-1]["arms"] if any(x is list_calls[0] for x in walk(a["body"]))]
            ok_list = len(arm) == 1 and any(q.get("k") in ("tstruct",) and q["res"][2].endswith("Err") for q in walk(arm[0]["pat"]))
    rep.obligation(ok_list)
    if ok_list:
        rep.instance("C26.NULLIFY", "complete_list_value: when an item propagates, try_nullify(list type, Err) decides for the list")
    else:
        rep.finding("C26.NULLIFY", fn.name, "list-nullify", "a propagating item does not nullify the list with the list's own type", fn.loc())

    # execute_field: completes with field.ty(), nullifies with field_def.ty; argument errors
    fn, hb = _hb(prog, r"^%sexecution::execute_field$" % R)
    sc = Scope(hb)
    cvs = calls(hb["body"], "result_coercion::complete_value")
    tns = calls(hb["body"], "execution::try_nullify")
    ok = len(cvs) == 1 and len(tns) == 1 and sc.key(cvs[0]["args"][3]).endswith(".ty()") and sc.key(tns[0]["args"][0]) == "param:field_def.ty"
    if ok:
        # field is fields[0] of the same field group
        k3 = sc.key(cvs[0]["args"][3])
        ok = re.fullmatch(r"field#\d+\.ty\(\)", k3) is not None
    rep.obligation(ok)
    if ok:
        rep.instance("C26.NULLIFY", "execute_field: complete_value(.., field.ty(), ..) then try_nullify(&field_def.ty, completed)")
    else:
        rep.finding("C26.NULLIFY", fn.name, "field-nullify", "execute_field does not nullify the completed value with the field definition's type", fn.loc())
    cav = calls(hb["body"], "input_coercion::coerce_argument_values")
    ok = False
    if len(cav) == 1:
        anc = ancestors(hb["body"], cav[0])
        ms = [a for a in anc if a.get("k") == "match" and any(x is cav[0] for x in walk(a["scrut"]))]
        if ms:
            arms = ms[-1]["arms"]
            errs = [a for a in arms if any(q.get("k") == "tstruct" and q["res"][2].endswith("Err") for q in walk(a["pat"]))]
            if len(errs) == 2 and errs[0].get("guard") is not None and errs[1].get("guard") is None:
                g = sc.key(errs[0]["guard"])
                b0 = errs[0]["body"]
                b1 = errs[1]["body"]
                ok = g == "param:field_def.ty.is_non_null()" and b0.get("k") == "ret" and sc.key(b0["e"]) == "Err(PropagateNull)" and b1.get("k") == "ret" and re.fullmatch(r"Ok\(Some\((.*::)?Null\)\)", sc.key(b1["e"])) is not None
    rep.obligation(ok)
    if ok:
        rep.instance("C26.NULLIFY", "execute_field: argument coercion error -> Err for a non-null field, Ok(null) otherwise")
    else:
        rep.finding("C26.NULLIFY", fn.name, "argument-error", "an argument coercion error is not turned into null / propagated according to the field type's nullability", fn.loc())

    # complete_value: null leaf
    fn, hb = _hb(prog, r"^%sresult_coercion::complete_value$" % R)
    sc = Scope(hb)
    ifs = [n for n in walk(hb["body"]) if n.get("k") == "if" and n["cond"].get("k") == "mcall" and sc.key(n["cond"]) == "param:ty.is_non_null()"]
    ok = False
    for n in ifs:
        then_err = bool(calls(n["then"], "GraphQLError>::field_error")) and any(x.get("k") == "ret" and sc.key(x["e"]) == "Err(PropagateNull)" for x in walk(n["then"]))
        els = n.get("else")
        else_null = els is not None and any(x.get("k") == "ret" and re.search(r"^Ok\(Some\((.*::)?Null\)\)$", sc.key(x["e"])) for x in walk(els))
        # under the arms that match a Null leaf
        anc = ancestors(hb["body"], n)
        arm_ok = False
        for a in anc:
            if a.get("k") == "match":
                for arm in a["arms"]:
                    if any(x is n for x in walk(arm["body"])):
                        nulls = [q for q in walk(arm["pat"]) if q.get("k") in ("path", "tstruct") and q.get("res") and q["res"][0] == "def" and q["res"][2].endswith("Value::Null")]
                        arm_ok = arm_ok or len(nulls) >= 1
        if then_err and else_null and arm_ok:
            ok = True
    rep.obligation(ok)
    if ok:
        rep.instance("C26.NULLIFY", "complete_value: a null leaf is a field error iff ty.is_non_null(), else Ok(null)")
    else:
        rep.finding("C26.NULLIFY", fn.name, "null-leaf", "a resolved null is not checked against the non-null type (field error iff non-null)", fn.loc())

    # data = result.ok()
    fn, hb = _hb(prog, r"^%sExecution::<'a>::execute_common$" % R)
    sc = Scope(hb)
    resp = struct_exprs(hb["body"], "response::ExecutionResponse")
    ok = False
    if len(resp) == 1:
        f = dict((a, b) for a, b in resp[0]["fields"])
        d = f.get("data")
        if d is not None and d.get("k") == "path" and d["res"][0] == "local" and d["res"][2] in sc.lets:
            init = sc.lets[d["res"][2]]["init"]
            k = sc.key(init)
            m = re.fullmatch(r"(result#\d+)(\.inspect_err\(<closure>\))?\.ok\(\)", k)
            if m:
                rid = int(m.group(1).split("#")[1])
                ok = rid in sc.lets and bool(calls(sc.lets[rid]["init"], "execution::execute_selection_set"))
        e = f.get("errors")
        ok = ok and e is not None and e.get("k") == "path" and e["res"][0] == "local"
    rep.obligation(ok)
    if ok:
        rep.instance("C26.NULLIFY", "execute_common: data = execute_selection_set(..).ok() (null exactly when a null propagated to the root)")
    else:
        rep.finding("C26.NULLIFY", fn.name, "data", "response data is no longer `result.ok()` of the root selection set", fn.loc())


def _path_expr_ok(sc, body, e, depth=0):
    """is expression e the enclosing function's `path`, or Some(&elem) with elem a
    LinkedPathElement { element: .., next: <ok path> }?  returns description or None"""
    k = sc.key(e)
    if k == "param:path":
        return "path"
    m = re.fullmatch(r"Some\((\w+)#(\d+)\)", k)
    if m and depth < 3:
        lid = int(m.group(2))
        if lid in sc.lets:
            init = sc.lets[lid]["init"]
            if init.get("k") == "struct" and (init.get("ty") or "").endswith("LinkedPathElement<'_>") or (init.get("k") == "struct" and "LinkedPathElement" in (init.get("ty") or "")):
                f = dict((a, b) for a, b in init["fields"])
                nxt = f.get("next")
                el = f.get("element")
                if nxt is not None and el is not None:
                    sub = _path_expr_ok(sc, body, nxt, depth + 1)
                    if sub:
                        return "%s/%s" % (sub, sc.key(el))
    return None


def rule_path(prog, rep):
    rep.floor("C26.PATH", 25)
    n_sites = 0
    for fn in sorted(prog.fns.values(), key=lambda f: f.name):
        if not fn.file.endswith(("resolvers/execution.rs", "resolvers/result_coercion.rs", "resolvers/input_coercion.rs")):
            continue
        if fn.kind not in ("fn", "assoc_fn"):
            continue
        try:
            hb = prog.hir_body(fn)
        except Exception:
            continue
        sc = Scope(hb)
        has_path_param = "path" in sc.params.values()
        sites = [(c, 1) for c in calls(hb["body"], "GraphQLError>::field_error")]
        sites += [(c, 2) for c in mcalls(hb["body"], "SuspectedValidationBug>::into_field_error")]
        sites += [(c, 1) for c in mcalls(hb["body"], "InputCoercionError>::into_field_error")]
        for c, idx in sites:
            args = c["args"]
            e = args[idx] if c.get("k") == "call" else args[idx - 1]
            if fn.name.endswith("::field_error") or fn.name.endswith("::into_field_error"):
                # the constructors themselves forward their own `path` parameter
                pass
            d = _path_expr_ok(sc, hb["body"], e)
            n_sites += 1
            if d is None or not has_path_param:
                rep.finding("C26.PATH", fn.name, "site#%d" % n_sites if False else "error-path:%s" % sc.key(e)[:40],
                            "a field error is built with path `%s`, which is not the path of the enclosing position (`path`, or Some(&LinkedPathElement{.., next: path}))" % sc.key(e), "%s:%s" % (fn.file, c.get("l")))
            else:
                rep.instance("C26.PATH", "%s: field error with %s" % (fn.name.split("::")[-1], d))
        # raw constructors are not used for field errors
        for c in calls(hb["body"], "response::GraphQLError::new"):
            if not fn.name.endswith("GraphQLError>::field_error"):
                rep.finding("C26.PATH", fn.name, "raw-error", "GraphQLError::new is used in the executor: the error carries no path", "%s:%s" % (fn.file, c.get("l")))
    # the path handed down: execute_selection_set -> execute_field gets Some(&{Field(response_key), next: path})
    fn, hb = _hb(prog, r"^%sexecution::execute_selection_set$" % R)
    sc = Scope(hb)
    ef = calls(hb["body"], "execution::execute_field")
    ok = len(ef) == 1
    d = _path_expr_ok(sc, hb["body"], ef[0]["args"][1]) if ok else None
    ok = ok and d is not None and re.fullmatch(r"path/Field\(response_key#\d+\.clone\(\)\)", d) is not None
    rep.obligation(ok)
    if ok:
        rep.instance("C26.PATH", "execute_selection_set: execute_field(.., Some(&{Field(response_key), next: path}), ..)")
    else:
        rep.finding("C26.PATH", fn.name, "field-path", "execute_field is not called with the path extended by the field's response key (got %s)" % d, fn.loc())
    # response_key is the loop variable of the grouped field set and also the key inserted
    ins = [m for m in mcalls(hb["body"], "::insert") if "response_map" in sc.key(m["recv"])]
    ok2 = len(ins) == 1 and re.fullmatch(r"response_key#\d+\.as_str\(\)", sc.key(ins[0]["args"][0])) is not None
    rep.obligation(ok2)
    if ok2:
        rep.instance("C26.PATH", "execute_selection_set: the value is inserted under the same response key")
    else:
        rep.finding("C26.PATH", fn.name, "insert-key", "the completed value is not inserted under the group's response key", fn.loc())
    fn, hb = _hb(prog, r"^%sexecution::execute_field$" % R)
    sc = Scope(hb)
    cv = calls(hb["body"], "result_coercion::complete_value")
    ok = len(cv) == 1 and sc.key(cv[0]["args"][1]) == "param:path"
    rep.obligation(ok)
    if ok:
        rep.instance("C26.PATH", "execute_field: complete_value(.., path, ..) unchanged")
    else:
        rep.finding("C26.PATH", fn.name, "complete-path", "complete_value is not called with the field's own path", fn.loc())
    fn, hb = _hb(prog, r"^%sresult_coercion::complete_list_value$" % R)
    sc = Scope(hb)
    cv = calls(hb["body"], "result_coercion::complete_value")
    d = _path_expr_ok(sc, hb["body"], cv[0]["args"][1]) if len(cv) == 1 else None
    ok = d is not None and re.fullmatch(r"path/ListIndex\(index#\d+\)", d) is not None
    if ok:
        # index comes from stream.enumerate()
        idx = int(re.search(r"index#(\d+)", d).group(1))
        en = [m for m in walk(hb["body"]) if m.get("k") == "mcall" and m["m"] == "enumerate"]
        ok = len(en) == 1 and idx in sc.names
    rep.obligation(ok)
    if ok:
        rep.instance("C26.PATH", "complete_list_value: items are completed with Some(&{ListIndex(index), next: path}), index from stream.enumerate()")
    else:
        rep.finding("C26.PATH", fn.name, "item-path", "list items are not completed with the path extended by their index (got %s)" % d, fn.loc())
    # path_to_vec reverses the linked list once
    fn = prog.fn(r"^%sexecution::path_to_vec$" % R)
    rev = [c for c in fn.live_calls() if c.name.endswith("<impl [T]>::reverse")]
    push = [c for c in fn.live_calls() if c.name.endswith("Vec::<T, A>::push")]
    ok = len(rev) == 1 and len(push) == 1 and rev[0].block not in fn.reachable_blocks([rev[0].target]) and push[0].block in fn.reachable_blocks([push[0].target])
    rep.obligation(ok)
    if ok:
        rep.instance("C26.PATH", "path_to_vec: pushes leaf-to-root in a loop, then reverses once")
    else:
        rep.finding("C26.PATH", fn.name, "order", "path_to_vec no longer produces the root-to-leaf order", fn.loc())
    fe = prog.fn(r"^%sexecution::<impl apollo_compiler::response::GraphQLError>::field_error$" % R)
    ptv = [c for c in fe.live_calls() if c.name.endswith("execution::path_to_vec")]
    ok = len(ptv) == 1 and fe.sym(ptv[0].args[0]) == "arg2"
    rep.obligation(ok)
    if ok:
        rep.instance("C26.PATH", "field_error: err.path = path_to_vec(path)")
    else:
        rep.finding("C26.PATH", fe.name, "assign", "field_error does not store path_to_vec(path)", fe.loc())


def rule_apply(prog, rep):
    rep.floor("C26.APPLY", 5)
    fn = prog.fn(r"^%sexecution::does_fragment_type_apply$" % R)
    got = {}
    for atoms, rb, path in enum_paths(fn):
        a = _strip(atoms)
        key = None
        for f in a:
            if f[0] == "variant" and f[1].endswith("get@0") and f[2] == "None":
                key = ("undefined",)
            elif f[0] == "variant" and f[1].endswith(".as:Some.0"):
                key = (f[2],)
            elif f[0] == "variant_in" and f[1].endswith(".as:Some.0"):
                key = tuple(sorted(f[2]))
        if key is None:
            raise Undecided("does_fragment_type_apply: path without a type test")
        got[key] = return_value_on_path(fn, path)
    lookup_ok = any(c.name.endswith("IndexMap::<K, V, S>::get") and fn.sym(c.args[0]) == "&arg1.types" and fn.sym(c.args[1]) == "&arg3" for c in fn.live_calls())
    want = {
        ("Object",): r"^<Name as PartialEq>::eq\(&arg3, &arg2\.name\)$|^<Name as PartialEq>::eq\(&arg2\.name, &arg3\)$",
        ("Interface",): r"^IndexSet::contains\(&arg2\.implements_interfaces, &arg3\)$",
        ("Union",): r"^IndexSet::contains\(&\*<Node<T> as Deref>::deref\(&\*IndexMap::get\(&arg1\.types, &arg3\)\.as:Some\.0\.as:Union\.0\)\.members, &arg2\.name\)$",
        ("Enum", "InputObject", "Scalar"): r"^const:false$",
        ("undefined",): r"^const:false$",
    }
    if not lookup_ok:
        rep.finding("C26.APPLY", fn.name, "lookup", "the fragment type is not looked up as schema.types.get(fragment_type)", fn.loc())
    for k, rx in want.items():
        v = got.get(k)
        ok = v is not None and re.search(rx, v) is not None
        rep.obligation(ok)
        if ok:
            rep.instance("C26.APPLY", "does_fragment_type_apply: %s -> %s" % ("/".join(k), v[:90]))
        else:
            rep.finding("C26.APPLY", fn.name, "row:" + "/".join(k), "for a fragment type that is %s the result is `%s` (rows found: %s)" % ("/".join(k), v, sorted(got)), fn.loc())


def _cb(facts, name_re, value, argres=()):
    for f in facts:
        if f[0] != "callbool" or f[3] is not value or not re.search(name_re, f[1]):
            continue
        if all(i < len(f[2]) and f[2][i] is not None and re.search(rx, f[2][i]) for i, rx in argres):
            return True
    return False


def rule_collect(prog, rep):
    rep.floor("C26.COLLECT", 6)
    fn = prog.inline(prog.fn(r"^%sexecution::collect_fields$" % R), keep=r"execution::(eval_if_arg|does_fragment_type_apply|collect_fields)$")
    SEL = r"Iterator::next\(&IntoIterator::into_iter\(arg3\)\)\.as:Some\.0"
    # skip / include
    evs = [c for c in fn.live_calls() if c.name.endswith("execution::eval_if_arg")]
    uos = [c for c in fn.live_calls() if c.name.endswith("Option::<T>::unwrap_or")]
    tab = {}
    for u in uos:
        s0, s1 = fn.sym(u.args[0]), fn.sym(u.args[1])
        m = re.search(r'execution::eval_if_arg\(&\*%s, &\*const:"(\w+)", &arg1\.variable_values\)' % SEL, s0)
        if m:
            tab[m.group(1)] = s1
    defaults_by_shape = tab == {"skip": "const:false", "include": "const:true"} and len(evs) == 2

    # CollectFields: a selection is left out iff @skip is true or @include is false.  The
    # condition is read as a decision table: the two eval_if_arg results (None | Some(false) |
    # Some(true)) are fixed in turn and the loop body is walked with them (speceval); a block is
    # "guarded" when it is reached exactly for the rows in which the selection is included.  The
    # spelling (unwrap_or defaults, `== Some(true)`, a match, a helper that was inlined) does not
    # matter.
    from ..speceval import Spec
    ev_block = {}
    for c in evs:
        m = re.search(r'const:"(\w+)"', fn.sym(c.args[1]))
        if m and re.search(SEL, fn.sym(c.args[0])):
            ev_block.setdefault(m.group(1), []).append(c.block)
    nxt_calls = [x for x in fn.live_calls() if x.name.endswith("Iterator::next") and "arg3" in fn.sym(x.args[0])]
    body_start = None
    if len(nxt_calls) == 1:
        from ..flow import branch_on_enum_call
        try:
            br = branch_on_enum_call(fn, nxt_calls[0])
            body_start = br[0]["edges"].get("Some") if br else None
        except Exception:
            body_start = None
    _reach_cache = {}

    def reach_table(b):
        """{(skip, include): reached?} over None/0/1 x None/0/1, or None when not decidable"""
        if b in _reach_cache:
            return _reach_cache[b]
        tab = None
        if body_start is not None and len(ev_block.get("skip", [])) == 1 and len(ev_block.get("include", [])) == 1:
            tab = {}
            for sk in (None, 0, 1):
                for inc in (None, 0, 1):
                    cv = {ev_block["skip"][0]: ("opt", sk), ev_block["include"][0]: ("opt", inc)}
                    if sk is not None or inc is not None:
                        # a row in which a directive has a value is a row in which the
                        # selection's directive list is not empty (fast paths on is_empty())
                        for x in fn.live_calls():
                            if re.search(r"::is_empty$", x.name) and re.search(r"Selection::directives\(&\*%s" % SEL, fn.sym(x.args[0])):
                                cv[x.block] = 0
                    sp = Spec(fn, stop_blocks={b, nxt_calls[0].block}, max_paths=4000, call_values=cv)
                    try:
                        paths = sp.run(body_start)
                    except Undecided:
                        tab = None
                        break
                    tab[(sk, inc)] = any(end == b for _, end in paths)
                if tab is None:
                    break
        _reach_cache[b] = tab
        return tab

    def guard_ok(b):
        """block b runs only when skip is not true and include is not false - and for all of
        those rows the decision does not exclude it"""
        tab = reach_table(b)
        if tab is None:
            fs = facts_at(fn, b)
            got = {}
            for f in fs:
                if f[0] == "callbool" and f[1].endswith("Option::<T>::unwrap_or"):
                    s0 = fn.sym(f[4].args[0])
                    m = re.search(r'const:"(\w+)"', s0)
                    if m:
                        got[m.group(1)] = f[3]
            return got.get("skip") is False and got.get("include") is True
        return all((not reached) or (sk != 1 and inc != 0) for (sk, inc), reached in tab.items()) and \
            all(reached for (sk, inc), reached in tab.items() if sk != 1 and inc != 0)

    # Field arm
    pushes = [c for c in fn.live_calls() if c.name.endswith("Vec::<T, A>::push")]
    # an absent @skip counts as false and an absent @include as true: the rows with None of the
    # decision table (read on the block that collects a field); the unwrap_or spelling is only the
    # fallback when the table cannot be built
    t0 = reach_table(pushes[0].block) if len(pushes) == 1 else None
    if t0 is not None:
        ok = len(evs) == 2 and t0[(None, None)] and t0[(None, 1)] and t0[(0, None)] and not t0[(None, 0)] and not t0[(1, None)]
        tab = {"%s,%s" % k: v for k, v in t0.items()}
    else:
        ok = defaults_by_shape
    rep.obligation(ok)
    if ok:
        rep.instance("C26.COLLECT", "@skip defaults to false, @include defaults to true; both read with eval_if_arg(selection, name, variable_values)")
    else:
        rep.finding("C26.COLLECT", fn.name, "defaults", "skip/include evaluation is %s" % tab, fn.loc())
    okf = len(pushes) == 1
    if okf:
        p = pushes[0]
        s0, s1 = fn.sym(p.args[0]), fn.sym(p.args[1])
        okf = re.search(r"Entry::or_default\(IndexMap::entry\(&arg5, &\*Field::response_key\(.*%s\.as:Field\.0\)\)\)" % SEL, s0) is not None
        okf = okf and re.search(r"%s\.as:Field\.0\)$" % SEL, s1) is not None and guard_ok(p.block)
    rep.obligation(okf)
    if okf:
        rep.instance("C26.COLLECT", "Field: grouped_fields.entry(field.response_key()).or_default().push(field), only when not skipped")
    else:
        rep.finding("C26.COLLECT", fn.name, "field", "a field is not grouped under its response key (or is collected although @skip/@include exclude it)", fn.loc())
    recs = [c for c in fn.live_calls() if c.uid == fn.uid]
    spread = [c for c in recs if "FragmentSpread" in fn.sym(c.args[2])]
    inline = [c for c in recs if "InlineFragment" in fn.sym(c.args[2])]
    oks = len(spread) == 1 and len(inline) == 1 and len(recs) == 2
    if oks:
        c = spread[0]
        fs = facts_at(fn, c.block)
        same = [fn.sym(c.args[i]) for i in (0, 1, 3, 4)] == ["&arg1", "&arg2", "&arg4", "&arg5"]
        sel = re.search(r"IndexMap::get\(&\*<Valid<T> as Deref>::deref\(&arg1\.document\)\.fragments, .*%s\.as:FragmentSpread\.0\)\.fragment_name\)\.as:Some\.0\)\.selection_set\.selections$" % SEL, fn.sym(c.args[2])) is not None
        new = any(f[0] == "callbool" and re.search(r"HashSet::<T, S(, A)?>::insert$", f[1]) and f[3] is True and fn.sym(f[4].args[0]) == "&arg4" and "fragment_name" in fn.sym(f[4].args[1]) for f in fs)
        app = any(f[0] == "callbool" and f[1].endswith("does_fragment_type_apply") and f[3] is True and fn.sym(f[4].args[1]) == "&arg2" and "Fragment::type_condition(" in fn.sym(f[4].args[2]) for f in fs)
        found = any(f[0] == "variant" and f[2] == "Some" and "IndexMap::<K, V, S>::get" in f[1] for f in _strip(fs))
        # the visited set is a side effect: it may be written only for a spread that is not
        # excluded by @skip/@include (a skipped spread must not hide a later spread of the fragment)
        ins_calls = [x for x in fn.live_calls() if re.search(r"HashSet::<T, S(, A)?>::insert$", x.name) and fn.sym(x.args[0]) == "&arg4"]
        marked_only_if_included = len(ins_calls) == 1 and guard_ok(ins_calls[0].block)
        oks = same and sel and new and app and found and guard_ok(c.block) and marked_only_if_included
        why = dict(same=same, selections=sel, first_visit=new, type_applies=app, fragment_found=found, not_skipped=guard_ok(c.block), visited_marked_only_if_not_skipped=marked_only_if_included)
    rep.obligation(oks)
    if oks:
        rep.instance("C26.COLLECT", "FragmentSpread: first visit only, fragment found, type condition applies -> recurse into the fragment's selections with the same visited set, groups and object type")
    else:
        rep.finding("C26.COLLECT", fn.name, "spread", "the fragment-spread arm of CollectFields misses a condition or recurses with other arguments (%s)" % (why if len(spread) == 1 else "no unique recursive call"), fn.loc())
    oki = len(inline) == 1
    if oki:
        c = inline[0]
        same = [fn.sym(c.args[i]) for i in (0, 1, 3, 4)] == ["&arg1", "&arg2", "&arg4", "&arg5"]
        sel = re.search(r"%s\.as:InlineFragment\.0\)\.selection_set\.selections$" % SEL, fn.sym(c.args[2])) is not None
        # reached either with no type condition or with does_fragment_type_apply == true
        dfa = [x for x in fn.live_calls() if x.name.endswith("does_fragment_type_apply") and "InlineFragment" in fn.sym(x.args[2])]
        cond_ok = False
        if len(dfa) == 1 and fn.sym(dfa[0].args[1]) == "&arg2" and "type_condition" in fn.sym(dfa[0].args[2]):
            from ..flow import branch_on_call
            br = branch_on_call(fn, dfa[0])
            if br is not None:
                t_true, t_false, _sb = br
                # the false edge never reaches the recursion within this iteration
                nxt = [x.block for x in fn.live_calls() if x.name.endswith("Iterator::next")]
                cond_ok = c.block not in fn.reachable_blocks([t_false], avoid=nxt) and c.block in fn.reachable_blocks([t_true], avoid=nxt)
        oki = same and sel and cond_ok and guard_ok(c.block)
        why = dict(same=same, selections=sel, type_condition=cond_ok, not_skipped=guard_ok(c.block))
    rep.obligation(oki)
    if oki:
        rep.instance("C26.COLLECT", "InlineFragment: no type condition or the condition applies -> recurse into its selections with the same visited set, groups and object type")
    else:
        rep.finding("C26.COLLECT", fn.name, "inline", "the inline-fragment arm of CollectFields misses a condition or recurses with other arguments (%s)" % (why if len(inline) == 1 else "no unique recursive call"), fn.loc())
    # grouped_fields is an IndexMap (document order) created in execute_selection_set and iterated there
    ty5 = fn.local_ty(5)
    ok = ty5.startswith("&mut indexmap::IndexMap<&")
    rep.obligation(ok)
    if ok:
        rep.instance("C26.COLLECT", "grouped_fields: IndexMap<&Name, Vec<&Field>> (first-occurrence order of response keys)")
    else:
        rep.finding("C26.COLLECT", fn.name, "map-type", "grouped_fields has type %s: response keys would not keep document order" % ty5, fn.loc())
    # eval_if_arg
    ev = prog.fn(r"^%sexecution::eval_if_arg$" % R)
    rows = {}
    for atoms, rb, path in enum_paths(ev):
        a = _strip(atoms)
        vs = [f for f in a if f[0] in ("variant", "variant_in") and f[1].endswith("as:Continue.0")]
        if not vs:
            continue
        key = vs[0][2] if vs[0][0] == "variant" else "other"
        if any(f[0] == "variant" and f[2] == "Break" for f in a):
            continue
        rows[key] = return_value_on_path(ev, path) or ""
    okb = re.search(r"^Option::Some\{\*<Node<T> as AsRef<T>>::as_ref\(.*\)\.as:Boolean\.0\}$", rows.get("Boolean", "")) is not None
    okv = re.search(r"^Value::as_bool\(&\*<Option<T> as Try>::branch\(Map::get\(&\*<Valid<T> as Deref>::deref\(&arg3\), &\*Name::as_str\(.*as:Variable\.0\)\)\)\.as:Continue\.0\)$", rows.get("Variable", "")) is not None
    oko = rows.get("other") == "Option::None{}"
    ifarg = any(c.name.endswith("specified_argument_by_name") and fn_const(ev, c, 1) == '"if"' for c in ev.live_calls())
    dirget = any(c.name.endswith("impls::<impl apollo_compiler::executable::DirectiveList>::get") or c.name.endswith("DirectiveList>::get") for c in ev.live_calls())
    ok = okb and okv and oko and ifarg
    rep.obligation(ok)
    if ok:
        rep.instance("C26.COLLECT", "eval_if_arg: `if` argument; Boolean literal -> its value; Variable -> variable_values[name].as_bool(); anything else -> None")
    else:
        rep.finding("C26.COLLECT", ev.name, "if-arg", "eval_if_arg does not read the `if` argument as Boolean literal / Boolean variable (%s)" % dict(boolean=okb, variable=okv, other=oko, if_name=ifarg), ev.loc())


def fn_const(fn, c, i):
    s = fn.sym(c.args[i]) if i < len(c.args) else ""
    m = re.search(r'const:("(?:[^"\\]|\\.)*")', s)
    return m.group(1) if m else None


LEAF_WANT = {"Int": {"as_i64"}, "Float": {"is_f64"}, "String": {"is_string"}, "Boolean": {"is_boolean"}, "ID": {"is_string", "is_i64"}}


def rule_leaf(prog, rep):
    rep.floor("C26.LEAF", 6)
    fn, hb = _hb(prog, r"^%sresult_coercion::complete_leaf_value$" % R)
    sc = Scope(hb)
    ms = []
    for n in walk(hb["body"]):
        if n.get("k") == "match" and n.get("src") == "normal":
            lits = [q["v"] for arm in n["arms"] for q in walk(arm["pat"]) if q.get("k") == "lit" and q.get("t") == "str"]
            if "Int" in lits:
                ms.append(n)
    if len(ms) != 1:
        raise Undecided("complete_leaf_value: expected one string match over scalar names (found %d)" % len(ms))
    seen = {}
    for arm in ms[0]["arms"]:
        for q in walk(arm["pat"]):
            if q.get("k") == "lit" and q.get("t") == "str":
                seen[q["v"]] = arm
    if set(seen) != set(LEAF_WANT):
        rep.finding("C26.LEAF", fn.name, "names", "built-in scalar arms are %s" % sorted(seen), fn.loc())
    for name, want in LEAF_WANT.items():
        arm = seen.get(name)
        if arm is None:
            continue
        where = [arm["body"]] + ([arm["guard"]] if arm.get("guard") is not None else [])
        preds = set()
        for w in where:
            for n in walk(w):
                if n.get("k") == "mcall" and re.match(r"^(is_|as_)\w+$", n["m"]) and sc.key(n["recv"]) == "param:json_value":
                    preds.add(n["m"])
        errs = sum(len(calls(w, "GraphQLError>::field_error")) for w in where)
        ok = preds == want and errs >= 1
        if name == "Int":
            ok = ok and any(n.get("k") == "call" and "try_from" in str(n.get("callee")) for n in walk(arm["body"]))
        rep.obligation(ok)
        if ok:
            rep.instance("C26.LEAF", "%s: a value is accepted exactly under {%s}%s, otherwise a field error" % (name, ", ".join(sorted(preds)), " within i32" if name == "Int" else ""))
        else:
            rep.finding("C26.LEAF", fn.name, "scalar:" + name, "result coercion of %s consults {%s} (documented: {%s}) with %d error site(s)" % (name, ", ".join(sorted(preds)), ", ".join(sorted(want)), errs), fn.loc(arm.get("l")))
    # enum: value must be a string naming a defined enum value
    en = [n for n in walk(hb["body"]) if n.get("k") == "mcall" and n["m"] == "contains_key" and "values" in sc.key(n["recv"])]
    ok = len(en) == 1
    rep.obligation(ok)
    if ok:
        rep.instance("C26.LEAF", "Enum: the value must be a string that is a key of enum_def.values")
    else:
        rep.finding("C26.LEAF", fn.name, "enum", "enum result coercion no longer checks the value against enum_def.values", fn.loc())


def rule_args(prog, rep):
    """C26.ARGS: coerce_argument_values as the decision table of CoerceArgumentValues(), one row per
    argument definition: (argument provided?, its value a variable or a literal, variable present
    in the coerced variables?, that value null?, literal null?, argument type non-null?, default
    value defined?) -> what happens.  A variable that is absent from the coerced variables counts
    as `no value provided` (default / required error / omitted), not as a value to coerce."""
    rep.floor("C26.ARGS", 1)
    import itertools
    from ..flow import loop_headers
    f = prog.inline(prog.fn(r"^%sinput_coercion::coerce_argument_values$" % R), keep=r"input_coercion::(coerce_argument_value|graphql_value_to_json)$|GraphQLError")
    hs = loop_headers(f)
    outer = [h for h in hs if re.search(r"arg3\.arguments\)?$", f.sym(hs[h][2].args[0]))]
    if len(outer) != 1:
        raise Undecided("coerce_argument_values: loop over field_def.arguments not found")
    h = outer[0]
    rows = []
    for atoms, end, path in enum_paths(f, start=hs[h][0], stops={h}, inner_loops="cut"):
        preds = []
        for a in _strip(atoms):
            names = (a[2],) if a[0] == "variant" else (tuple(a[2]) if a[0] == "variant_in" else None)
            if names is not None:
                p0 = a[1]
                if re.search(r"Try>?::branch@\d+$", p0):
                    continue
                if re.search(r"Iterator>::find@\d+$", p0):
                    preds.append(("provided", lambda v, ns=names: ("Some" if v else "None") in ns))
                elif re.search(r"find@\d+\.as:Some\.0\.value$", p0):
                    preds.append(("isvar", lambda v, ns=names: (("Variable" in ns) if v else any(n != "Variable" for n in ns))))
                elif re.search(r"Map::<.*>::get@\d+$|variable_values.*get@\d+$", p0):
                    preds.append(("varpresent", lambda v, ns=names: ("Some" if v else "None") in ns))
                elif p0.endswith(".default_value"):
                    preds.append(("hasdefault", lambda v, ns=names: ("Some" if v else "None") in ns))
                else:
                    raise Undecided("coerce_argument_values: unrecognised condition %s" % (a,))
            elif a[0] == "callbool":
                nm, args, val = a[1], a[2], a[3]
                a0 = (args[0] or "") if args else ""
                if nm.endswith("::is_null") and re.search(r"get@\d+\.as:Some\.0$", a0):
                    preds.append(("varnull", lambda v, val=val: v == val))
                elif nm.endswith("::is_null") and a0.endswith(".value"):
                    preds.append(("litnull", lambda v, val=val: v == val))
                elif nm.endswith("is_non_null") and a0.endswith(".ty"):
                    preds.append(("nonnull", lambda v, val=val: v == val))
                else:
                    raise Undecided("coerce_argument_values: unrecognised test %s(%s)" % (nm.split("::")[-1], a0[-50:]))
            else:
                raise Undecided("coerce_argument_values: unrecognised condition %s" % (a,))
        effects = []
        for b in path:
            c = f.call_at(b)
            if c is None:
                continue
            if re.search(r"Map::<.*>::insert$|JsonMap.*::insert$", c.name):
                v = f.sym_on_path(c.args[-1], path)
                effects.append("ins-var" if re.search(r"Clone>::clone\(&?\*?Map::get\(", v) else "ins-lit" if "coerce_argument_value(" in v else "ins-default" if "graphql_value_to_json(" in v else "ins-?" + v[:50])
            elif re.search(r"GraphQLError>?::field_error$", c.name):
                effects.append("error")
        ret = f.term(end)[0] == "ret"
        if ret and not effects:
            leaf = "propagate"
        elif ret and effects == ["error"]:
            leaf = "error"
        elif not ret and len(effects) == 1 and effects[0].startswith("ins-"):
            leaf = effects[0]
        elif not ret and not effects:
            leaf = "omit"
        else:
            leaf = "?%s%s" % (effects, " ret" if ret else "")
        rows.append((preds, leaf))
    VARS = ("provided", "isvar", "varpresent", "varnull", "litnull", "nonnull", "hasdefault")
    bad = []
    for vals in itertools.product((True, False), repeat=len(VARS)):
        env = dict(zip(VARS, vals))
        got = set(leaf for preds, leaf in rows if all(p(env[k]) for k, p in preds))
        if env["provided"] and env["isvar"] and env["varpresent"]:
            want = {"error"} if (env["varnull"] and env["nonnull"]) else {"ins-var"}
        elif env["provided"] and not env["isvar"]:
            want = {"error"} if (env["litnull"] and env["nonnull"]) else {"ins-lit", "propagate"}
        elif env["hasdefault"]:
            want = {"ins-default", "propagate"}
        elif env["nonnull"]:
            want = {"error"}
        else:
            want = {"omit"}
        ok = bool(got) and got <= want and (got & (want - {"propagate"}))
        rep.obligation(bool(ok))
        if not ok:
            bad.append((env, sorted(got), sorted(want)))
    if not bad:
        rep.instance("C26.ARGS", "coerce_argument_values: %d rows of CoerceArgumentValues() (provided / variable or literal / variable present / nulls / non-null type / default) agree with the %d CFG paths of one loop iteration" % (2 ** len(VARS), len(rows)))
    else:
        env, got, want = bad[0]
        desc = ", ".join("%s=%s" % (k, env[k]) for k in VARS)
        rep.finding("C26.ARGS", f.name, "row",
                    "CoerceArgumentValues(): for an argument with %s the code does %s, the algorithm prescribes %s (%d rows differ); e.g. a variable that is absent from the coerced variables must fall back to the argument's default value" % (desc, got or "nothing", want, len(bad)), f.loc())


def run(prog, rep):
    rule_nullify(prog, rep)
    rule_path(prog, rep)
    rule_apply(prog, rep)
    rule_collect(prog, rep)
    rule_leaf(prog, rep)
    rule_args(prog, rep)
    rep.assume("IndexMap keeps first-insertion order; serde_json_bytes predicates (is_f64, as_i64, ...) behave as documented")
    rep.note("response equality with a reference executor, field merging of sub-selections and resolver behaviour are not decided")
