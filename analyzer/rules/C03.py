"""C03 — The lexer implements the GraphQL lexical grammar (DESIGN.md C03)."""
import re

from ..core import AnchorError, Undecided
from ..hirq import walk
from ..patset import CHAR_DOMAIN, Char, EnumVal, Evaluator, char_set
from ..tables import local_of, strip_expr, variant_name_of_pat

CRATES = ["apollo_parser"]
LEVEL = "other"
EXPLANATION = """
Quick tier.  C03.TABLE: the value sets of the lexer's character classes are folded from the
type-checked source (match patterns, guards, const-evaluated lookup tables) over all 128 ASCII
code points plus representatives of every non-ASCII class, and compared with the October 2021
sets: ignored whitespace {TAB, SP, LF, CR, BOM}, NameStart [_A-Za-z], NameContinue [_0-9A-Za-z],
LineTerminator {LF, CR}, EscapedCharacter {" \\ / b f n r t}, the 14 punctuators each mapped to its
own TokenKind, unicode escapes of exactly 4 hex digits.  C03.STRSIB: every lexer state that
consumes the body of a quoted string sends a raw line terminator to an error (sibling agreement
between StringLiteralStart and StringLiteral).  C03.PARTITION: token boundaries tile the input
(writers of Cursor.index).  Thorough tier adds C03.DFA: the whole `advance` state machine is
extracted as a transducer and compared with a reference machine of the lexical grammar.
"""

PUNCT = {"!": "Bang", "$": "Dollar", "&": "Amp", "(": "LParen", ")": "RParen", ":": "Colon", "=": "Eq",
         "@": "At", "[": "LBracket", "]": "RBracket", "{": "LCurly", "}": "RCurly", "|": "Pipe", ",": "Comma"}
# `...` is lexed by the SpreadOperator state, not by the punctuation table


def cls(s):
    return set(ord(c) for c in s)


LETTERS = "ABCDEFGHIJKLMNOPQRSTUVWXYZabcdefghijklmnopqrstuvwxyz"
DIGITS = "0123456789"


def fmt(s):
    return "{" + ", ".join(("U+%04X" % c) if c < 0x21 or c > 0x7E else chr(c) for c in sorted(s)) + "}"


def rule_table(prog, rep, ev):
    rep.floor("C03.TABLE", 7)
    L = "apollo_parser::lexer::"
    specs = [
        (L + "is_whitespace_assimilated", {0x09, 0x20, 0x0A, 0x0D, 0xFEFF}, "WhiteSpace + LineTerminator + UnicodeBOM"),
        (L + "is_name_continue", cls(LETTERS + DIGITS + "_"), "NameContinue"),
        (L + "lookup::is_namestart", cls(LETTERS + "_"), "NameStart"),
        (L + "is_line_terminator", {0x0A, 0x0D}, "LineTerminator"),
        (L + "is_escaped_char", cls('"\\/bfnrt'), "EscapedCharacter"),
    ]
    for name, want, what in specs:
        got = char_set(ev, name)
        n = len(CHAR_DOMAIN)
        if got == want:
            rep.instance("C03.TABLE", "%s = %s (%s) over %d representative code points" % (name.split("::")[-1], fmt(got), what, n))
        else:
            extra, missing = got - want, want - got
            rep.finding("C03.TABLE", name, "class",
                        "%s accepts %s, the October 2021 %s is %s (extra: %s, missing: %s)" % (name.split("::")[-1], fmt(got), what, fmt(want), fmt(extra), fmt(missing)), None)
    # punctuation table
    got = {}
    for c in CHAR_DOMAIN:
        v = ev.call(L + "lookup::punctuation_kind", [c])
        if not isinstance(v, EnumVal):
            raise Undecided("punctuation_kind did not fold to an Option")
        if v.variant == "Some":
            got[int(c)] = v.payload[0].variant
    want = {ord(k): v for k, v in PUNCT.items()}
    if got == want:
        rep.instance("C03.TABLE", "punctuation_kind: 14 punctuators, each mapped to its own TokenKind; None for every other code point")
    else:
        diff = {chr(k): (got.get(k), want.get(k)) for k in set(got) | set(want) if got.get(k) != want.get(k)}
        rep.finding("C03.TABLE", L + "lookup::punctuation_kind", "punctuation", "punctuation table differs from the grammar: %s (got, expected)" % diff, None)
    # namestart table agrees with NameStart for all 256 byte indices (the LUT itself)
    t = ev.static_table("apollo_parser::lexer::lookup::NAMESTART_CHARS")
    gotb = set(i for i, v in enumerate(t) if v is True)
    if gotb == cls(LETTERS + "_") and len(t) == 256:
        rep.instance("C03.TABLE", "NAMESTART_CHARS (const-evaluated, 256 entries) = [_A-Za-z]")
    else:
        rep.finding("C03.TABLE", "apollo_parser::lexer::lookup::NAMESTART_CHARS", "lut", "NAMESTART_CHARS differs from [_A-Za-z]: %s" % fmt(gotb ^ cls(LETTERS + "_")), None)


STATE_VAR = [None]  # name of the local that holds the lexer state (whatever it is called)


def _state_match(prog):
    """the state machine's dispatch: the one `match <local>` in Cursor::advance whose arms are
    variants of lexer::State (the scrutinee's name does not matter)"""
    adv = prog.fn(r"lexer::<impl apollo_parser::lexer::cursor::Cursor<'a>>::advance$")
    body = prog.hir_body(adv)["body"]
    ms = []
    for n in walk(body):
        if n.get("k") == "match" and n.get("src") == "normal" and local_of(n["scrut"]):
            pats = [p for arm in n["arms"] for p in ([arm["pat"]] if arm["pat"].get("k") != "or" else arm["pat"]["pats"])]
            hits = [p for p in pats if any("lexer::State::" in str(q.get("res")) for q in walk(p))]
            if len(hits) >= 5:
                ms.append(n)
    if len(ms) != 1:
        raise Undecided("Cursor::advance is no longer one match over lexer::State (found %d): the state-per-arm extractor does not apply" % len(ms))
    STATE_VAR[0] = local_of(ms[0]["scrut"])
    return adv, ms[0]


def _arm_for_state(m, state):
    for arm in m["arms"]:
        for p in ([arm["pat"]] if arm["pat"].get("k") != "or" else arm["pat"]["pats"]):
            if variant_name_of_pat(p) == state:
                return arm
    return None


def _inner_char_match(arm):
    b = strip_expr(arm["body"])
    if b.get("k") == "match" and local_of(b["scrut"]):
        return b
    return None


def _arm_taken(ev, m, c, env):
    for i, arm in enumerate(m["arms"]):
        e2 = dict(env)
        if ev.bind(arm["pat"], c, e2):
            if arm.get("guard") is not None:
                g = arm["guard"]
                try:
                    if not ev.truth(ev.eval(g, e2)):
                        continue
                except Undecided:
                    raise
            return i, arm
    return None, None


def _has_call(node, name):
    return any(n.get("k") == "mcall" and n.get("m") == name for n in walk(node))


def _next_states(node):
    out = []
    for n in walk(node):
        if n.get("k") == "assign" and local_of(n["lhs"]) == STATE_VAR[0]:
            r = strip_expr(n["rhs"])
            if r.get("k") == "path":
                out.append(r["res"][4].split("::")[-1] if len(r["res"]) > 4 else r["res"][2].split("::")[-1])
            elif r.get("k") == "call" and r.get("callee"):
                c = r["callee"]
                out.append(c[4].split("::")[-1] if len(c) > 4 else c[2].split("::")[-1])
    return out


def rule_strsib(prog, rep, ev):
    rep.floor("C03.STRSIB", 2)
    adv, m = _state_match(prog)
    body_states = ["StringLiteralStart", "StringLiteral"]
    for st in body_states:
        arm = _arm_for_state(m, st)
        if arm is None:
            raise AnchorError("lexer state %s not found" % st)
        im = _inner_char_match(arm)
        if im is None:
            raise Undecided("state %s: arm is not a `match c`" % st)
        for lt in (0x0A, 0x0D):
            i, a = _arm_taken(ev, im, Char(lt), {local_of(im["scrut"]): Char(lt)})
            if a is None:
                raise Undecided("state %s: no arm for U+%04X" % (st, lt))
            if _has_call(a["body"], "add_err"):
                rep.instance("C03.STRSIB", "%s on U+%04X: arm %d reports an error" % (st, lt, i))
            else:
                rep.finding("C03.STRSIB", adv.name, "%s:U+%04X" % (st, lt),
                            "in state %s a raw line terminator takes arm %d (next state %s) without any error: a quoted string whose %s character is a line terminator lexes as a valid StringValue" % (st, i, _next_states(a["body"]) or "unchanged", "first" if st == "StringLiteralStart" else "next"),
                            "%s:%s" % (adv.file, a.get("l")))
    # `"` and `\` go to the same successors in both states
    for ch, label in ((0x5C, "backslash"),):
        nxt = {}
        for st in body_states:
            im = _inner_char_match(_arm_for_state(m, st))
            i, a = _arm_taken(ev, im, Char(ch), {local_of(im["scrut"]): Char(ch)})
            nxt[st] = tuple(_next_states(a["body"]))
        if len(set(nxt.values())) == 1:
            rep.instance("C03.STRSIB", "%s leads to %s in both string-body states" % (label, list(nxt.values())[0]))
        else:
            rep.finding("C03.STRSIB", adv.name, "sib:" + label, "string-body states disagree on %s: %s" % (label, nxt), adv.loc())
    # unicode escape starts with 4 remaining digits
    arm = _arm_for_state(m, "StringLiteralBackslash")
    im = _inner_char_match(arm)
    i, a = _arm_taken(ev, im, Char(ord("u")), {local_of(im["scrut"]): Char(ord("u"))})
    n4 = [n for n in walk(a["body"]) if n.get("k") == "call" and n.get("callee") and "StringLiteralEscapedUnicode" in str(n["callee"])]
    ok = False
    if n4:
        arg = strip_expr(n4[0]["args"][0])
        ok = arg.get("k") == "lit" and arg.get("v") == 4
    if ok:
        rep.instance("C03.STRSIB", "`\\u` starts StringLiteralEscapedUnicode(4)")
    else:
        rep.finding("C03.STRSIB", adv.name, "unicode-digits", "`\\u` does not start a 4-digit unicode escape", adv.loc())


def run(prog, rep):
    ev = Evaluator(prog, "apollo_parser")
    rule_table(prog, rep, ev)
    rule_strsib(prog, rep, ev)
    from .C02 import rule_partition
    rule_partition(prog, rep)
    # the product exploration takes about a second, so it runs in both tiers; the thorough tier
    # widens the alphabet (every code point up to U+024F plus the representatives)
    from . import lexer_dfa
    if rep.tier == "thorough":
        from ..patset import CHAR_DOMAIN
        sigma = sorted(set(range(0x250)) | set(int(c) for c in CHAR_DOMAIN) | {0x2028, 0x2029, 0xD7FF, 0xE000, 0xFFFF, 0x10000, 0x10FFFF})
        lexer_dfa.run(prog, rep, ev, sigma)
    else:
        lexer_dfa.run(prog, rep, ev)
