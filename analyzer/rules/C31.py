"""C31 — File ids are unique and shared state is thread-safe (DESIGN.md C31)."""
import re

from ..core import AnchorError, norm_path, op_const, op_local, op_place
from ..flow import facts_at, must_pass

CRATES = ["apollo_parser", "apollo_compiler", "apollo_smith"]
LEVEL = "other"
EXPLANATION = """
C31.RMW: the static counter NEXT is touched only by FileId::new (one atomic fetch_add whose return
value - and nothing else - becomes the id, under the `id & TAG == 0` edge; the other edge resets
and retries) and FileId::reset (one store of INITIAL); INITIAL > NONE > BUILT_IN.  A single atomic
read-modify-write is a fact about all interleavings at once.  C31.PACK: bit structure of
TaggedFileId::pack/tag/file_id and the const-evaluated TAG / ID_MASK.  C31.STATICS: every static
of the three crates is immutable-and-Freeze, an atomic, or a OnceLock/Lazy cache; no `static mut`;
OnceLock initialisers cannot reach the id counter.  C31.SHARE: the only interior mutability
reachable from Schema / ExecutableDocument is reference counts and SourceFile's OnceLock cache;
Send/Sync and the E0596 witness are in /verif/witness (thorough tier).
"""


def _static_users(prog, static_uid):
    users = {}
    for fn in prog.fns.values():
        for b in fn.live_blocks():
            for s in fn.stmts(b):
                if s[0] == "=":
                    for op in _rv_operands(s[2]):
                        if op[0] == "k" and op[3].get("static") == static_uid:
                            users.setdefault(fn.uid, []).append((b, s))
            t = fn.term(b)
            if t[0] == "call":
                for a in t[2]:
                    if a[0] == "k" and a[3].get("static") == static_uid:
                        users.setdefault(fn.uid, []).append((b, t))
    return users


def _rv_operands(rv):
    k = rv[0]
    if k == "use":
        return [rv[1]]
    if k == "cast":
        return [rv[2]]
    if k == "bin":
        return [rv[2], rv[3]]
    if k == "un":
        return [rv[2]]
    if k == "agg":
        return list(rv[2])
    if k == "repeat":
        return [rv[1]]
    return []


def rule_rmw(prog, rep):
    rep.floor("C31.RMW", 5)
    nxt = prog.const(r"^apollo_compiler::parser::NEXT$")
    initial = prog.const(r"^apollo_compiler::parser::INITIAL$")
    nxt_uid = [u for u, c in prog.consts.items() if c is nxt][0]
    if "Atomic<u64>" not in nxt["ty"] or nxt.get("mut"):
        rep.finding("C31.RMW", "apollo_compiler::parser::NEXT", "type", "NEXT is not an immutable `static` of type AtomicU64 (%s)" % nxt["ty"], None)
    users = _static_users(prog, nxt_uid)
    new = prog.fn(r"^apollo_compiler::parser::FileId::new$")
    reset = prog.fn(r"^apollo_compiler::parser::FileId::reset$")
    for u in users:
        if u not in (new.uid, reset.uid):
            f = prog.fns[u]
            rep.finding("C31.RMW", f.name, "next-user", "the file-id counter NEXT is accessed outside FileId::new / FileId::reset", f.loc())
    rep.instance("C31.RMW", "NEXT referenced only in %s" % sorted(prog.fns[u].name.split("::")[-1] for u in users))
    # FileId::new
    atom = [c for c in new.live_calls() if re.search(r"sync::atomic::Atomic", c.name)]
    if len(atom) != 1 or not re.search(r"::fetch_add$", atom[0].name):
        rep.finding("C31.RMW", new.name, "single-rmw", "FileId::new must perform exactly one atomic operation on NEXT and it must be fetch_add (found: %s)" % [c.name.split("::")[-1] for c in atom], new.loc())
        return
    fa = atom[0]
    if "static:apollo_compiler::parser::NEXT" not in new.sym(fa.args[0]) or new.sym(fa.args[1]) != "1":
        rep.finding("C31.RMW", new.name, "rmw-args", "fetch_add is not `NEXT.fetch_add(1, ..)` (%s, %s)" % (new.sym(fa.args[0]), new.sym(fa.args[1])), fa.loc())
    else:
        rep.instance("C31.RMW", "FileId::new: one atomic op: NEXT.fetch_add(1)")
    # the returned id
    want = "NonZero::new(Atomic::fetch_add(&static:apollo_compiler::parser::NEXT, 1, Ordering::%s{}))"
    ok = False
    for b in new.live_blocks():
        for s in new.stmts(b):
            if s[0] == "=" and s[1][0] == 0 and s[2][0] == "agg" and isinstance(s[2][1], list) and s[2][1][1].endswith("parser::FileId"):
                e = new.sym(s[2][2][0])
                m = re.match(r"^Option::unwrap\(NonZero::new\(Atomic::fetch_add\(&?static:apollo_compiler::parser::NEXT, 1, Ordering::\w+\{\}\)\)\)$", e)
                m2 = re.match(r"^NonZero::new_unchecked\(Atomic::fetch_add\(&?static:apollo_compiler::parser::NEXT, 1, Ordering::\w+\{\}\)\)$", e)
                if m or m2:
                    ok = True
                    # guard: id & TAG == 0
                    fs = facts_at(new, b)
                    tag = prog.const(r"^apollo_compiler::parser::TAG$")["int"]
                    g = False
                    for f in fs:
                        if f[0] == "cmp" and f[1] == "Eq" and f[4] is True and f[3] == "const:0":
                            g = True
                        if f[0] == "cmp" and f[1] == "Ne" and f[4] is False and f[3] == "const:0":
                            g = True
                    # the compared value is BitAnd(id, TAG)
                    sw = [bb for bb in new.live_blocks() if new.switch_info(bb)]
                    shape = False
                    for bb in sw:
                        info = new.switch_info(bb)
                        if info.get("kind") == "bool":
                            e2 = new.sym(info["local"])
                            if re.match(r"^(Eq|Ne)\(BitAnd\(Atomic::fetch_add\(.*\), %s\), 0\)$" % tag, e2):
                                shape = True
                    if g and shape:
                        rep.instance("C31.RMW", "FileId::new: id = return value of that fetch_add, built under `id & TAG == 0`")
                    else:
                        rep.finding("C31.RMW", new.name, "tag-guard", "the FileId is constructed without the `id & TAG == 0` test on the fetched value", new.loc(s[3][0]))
                else:
                    rep.finding("C31.RMW", new.name, "id-provenance", "the id stored in the new FileId is not the return value of the single fetch_add (got `%s`): a load-then-store or second read can hand the same id to two threads" % e, new.loc(s[3][0]))
                    ok = True
    if not ok:
        raise AnchorError("FileId::new: FileId aggregate not found")
    # other edge: reset and retry
    rs = [c for c in new.live_calls() if c.uid == reset.uid]
    if rs and fa.block in new.reachable_blocks([rs[0].target]):
        rep.instance("C31.RMW", "FileId::new: overflow edge calls reset() and retries the fetch_add")
    else:
        rep.finding("C31.RMW", new.name, "overflow-edge", "the overflow edge does not reset the counter and retry", new.loc())
    # reset
    atom = [c for c in reset.live_calls() if re.search(r"sync::atomic::Atomic", c.name)]
    if len(atom) == 1 and re.search(r"::store$", atom[0].name) and "static:apollo_compiler::parser::INITIAL" in reset.sym(atom[0].args[1]) and "static:apollo_compiler::parser::NEXT" in reset.sym(atom[0].args[0]):
        rep.instance("C31.RMW", "FileId::reset: NEXT.store(INITIAL)")
    else:
        rep.finding("C31.RMW", reset.name, "reset", "FileId::reset is not a single `NEXT.store(INITIAL, ..)`", reset.loc())
    # constants
    bi = prog.const(r"^apollo_compiler::parser::FileId::BUILT_IN$|parser::\{impl#\d+\}::BUILT_IN$")
    none = prog.const(r"^apollo_compiler::parser::FileId::NONE$|parser::\{impl#\d+\}::NONE$")

    def nz(c):
        m = re.search(r"NonZeroU64Inner\((\d+)_u64", c.get("value") or "")
        return int(m.group(1)) if m else None
    vi, vn, vb = int(initial.get("int", -1)), nz(none), nz(bi)
    nb = nxt.get("bytes")
    start = int.from_bytes(bytes.fromhex(nb), "little") if nb else None
    if vb is not None and vn is not None and vi > vn > vb >= 1 and vn != vb and start == vi:
        rep.instance("C31.RMW", "INITIAL=%d (NEXT starts at %s) > NONE=%d > BUILT_IN=%d" % (vi, start, vn, vb))
    else:
        rep.finding("C31.RMW", "apollo_compiler::parser::INITIAL", "reserved-ids", "reserved ids are not below the first id handed out (INITIAL=%s start=%s NONE=%s BUILT_IN=%s)" % (vi, start, vn, vb), None)


def rule_pack(prog, rep):
    rep.floor("C31.PACK", 5)
    tag = int(prog.const(r"^apollo_compiler::parser::TAG$")["int"])
    mask = int(prog.const(r"^apollo_compiler::parser::ID_MASK$")["int"])
    if tag == 1 << 63 and mask == (~tag) & (2**64 - 1):
        rep.instance("C31.PACK", "TAG = 1<<63, ID_MASK = !TAG (const-evaluated)")
    else:
        rep.finding("C31.PACK", "apollo_compiler::parser::TAG", "consts", "TAG/ID_MASK are not 1<<63 / !TAG (%x / %x)" % (tag, mask), None)
    f = prog.fn(r"^apollo_compiler::parser::TaggedFileId::tag$")
    e = _ret_sym(f)
    if e in ("Ne(BitAnd(NonZero::get(arg1.tag_and_id), %d), 0)" % tag,):
        rep.instance("C31.PACK", "tag() = (x & TAG) != 0")
    else:
        rep.finding("C31.PACK", f.name, "tag", "tag() is `%s`, expected (tag_and_id & TAG) != 0" % e, f.loc())
    f = prog.fn(r"^apollo_compiler::parser::TaggedFileId::file_id$")
    e = _ret_sym(f)
    if e == "FileId::FileId{NonZero::new_unchecked(BitAnd(NonZero::get(arg1.tag_and_id), %d))}" % mask:
        rep.instance("C31.PACK", "file_id() = x & ID_MASK")
    else:
        rep.finding("C31.PACK", f.name, "file_id", "file_id() is `%s`, expected tag_and_id & ID_MASK" % e, f.loc())
    f = prog.fn(r"^apollo_compiler::parser::TaggedFileId::pack$")
    # find the switch on arg1 (tag)
    found = False
    for b in sorted(f.live_blocks()):
        info = f.switch_info(b)
        if info and info.get("kind") == "bool" and f.sym(info["local"]) == "arg1":
            found = True
            tt, ft = info["edges"][True], info["edges"][False]
            # value assigned to the result temp on each side
            def side_val(start):
                vals = []
                for bb in sorted(f.reachable_blocks([start])):
                    for s in f.stmts(bb):
                        if s[0] == "=" and s[2][0] == "use" and not s[1][1]:
                            vals.append((bb, s[1][0], f.sym(s[2][1])))
                    t = f.term(bb)
                return vals
            # the final aggregate
            agg = None
            for bb in f.live_blocks():
                for s in f.stmts(bb):
                    if s[0] == "=" and s[1][0] == 0 and s[2][0] == "agg":
                        agg = op_local(s[2][2][0])
                        sd = f.single_def(agg)
                        if sd and sd[2][0] == "use":
                            agg = op_local(sd[2][1])
            defs = f.defs().get(agg, [])
            tv = fv = None
            rt = f.reachable_blocks([tt])
            rf = f.reachable_blocks([ft])
            for (bb, i, rv, pj) in defs:
                if rv[0] == "callret":
                    v = "%s(%s)" % (rv[1].name.split("::")[-1], ", ".join(f.sym(a) for a in rv[1].args))
                elif rv[0] == "use":
                    v = f.sym(rv[1])
                else:
                    v = str(rv[0])
                if bb in rt and bb not in rf:
                    tv = v
                elif bb in rf and bb not in rt:
                    fv = v
            if tv == "new_unchecked(BitOr(NonZero::get(arg2.id), %d))" % tag and fv == "arg2.id":
                rep.instance("C31.PACK", "pack(tag, id) = id | TAG on the tag edge, id otherwise")
            else:
                rep.finding("C31.PACK", f.name, "pack", "pack() computes `%s` on the tag edge and `%s` otherwise; expected id|TAG / id" % (tv, fv), f.loc())
    if not found:
        rep.fail("UNDECIDED rule=C31.PACK pack(): no branch on the tag parameter found")
    # const_new asserts id & ID_MASK == id
    f = prog.fn(r"^apollo_compiler::parser::FileId::const_new$")
    ok = False
    for b in f.live_blocks():
        info = f.switch_info(b)
        if info and info.get("kind") == "bool" and f.sym(info["local"]) in ("Eq(BitAnd(arg1, %d), arg1)" % mask, "Eq(arg1, BitAnd(arg1, %d))" % mask, "Eq(BitAnd(arg1, %d), 0)" % tag):
            # false edge panics
            fe = info["edges"][False]
            if not (f.reachable_blocks([fe]) & set(f.return_blocks())):
                ok = True
    if ok:
        rep.instance("C31.PACK", "const_new asserts id & ID_MASK == id")
    else:
        rep.finding("C31.PACK", f.name, "const-assert", "FileId::const_new does not assert that the tag bit is clear", f.loc())


def _ret_sym(f):
    vals = []
    for b in sorted(f.live_blocks()):
        for s in f.stmts(b):
            if s[0] == "=" and s[1][0] == 0 and not s[1][1]:
                rv = s[2]
                if rv[0] == "use":
                    vals.append(f.sym(rv[1]))
                elif rv[0] == "bin":
                    vals.append("%s(%s, %s)" % (rv[1], f.sym(rv[2]), f.sym(rv[3])))
                elif rv[0] == "agg" and isinstance(rv[1], list):
                    vals.append("%s::%s{%s}" % (rv[1][1].split("::")[-1], rv[1][2], ", ".join(f.sym(a) for a in rv[2])))
                else:
                    vals.append(str(rv[0]))
    return vals[0] if len(vals) == 1 else " | ".join(vals)


ALLOWED_NONFREEZE = r"^(std::sync::atomic::Atomic<\w+>|std::sync::OnceLock<.*>|std::sync::LazyLock<.*>|once_cell::sync::Lazy<.*>|once_cell::sync::OnceCell<.*>)$"


def rule_statics(prog, rep):
    rep.floor("C31.STATICS", 10)
    nxt_uid = [u for u, c in prog.consts.items() if c["name"] == "apollo_compiler::parser::NEXT"]
    users_next = set(_static_users(prog, nxt_uid[0])) if nxt_uid else set()
    for uid, c in sorted(prog.consts.items()):
        if not c["kind"].startswith("Static"):
            continue
        if c.get("nested"):
            continue
        nm = c["name"]
        if c.get("mut"):
            rep.finding("C31.STATICS", nm, "static-mut", "`static mut` item: unsynchronised shared mutable state", _loc(c))
            continue
        if c.get("freeze"):
            rep.instance("C31.STATICS", "%s: immutable Freeze static of type %s" % (nm, c["ty"][:60]))
            continue
        if re.match(ALLOWED_NONFREEZE, c["ty"]):
            rep.instance("C31.STATICS", "%s: %s" % (nm, c["ty"][:70]))
        else:
            rep.finding("C31.STATICS", nm, "interior-mutable-static", "static with interior mutability that is not an atomic or a OnceLock/Lazy cache: %s" % c["ty"], _loc(c))
    # OnceLock initialisers must not reach the id counter
    n = 0
    for fn in prog.fns.values():
        for c in fn.live_calls():
            if re.search(r"OnceLock::<T>::get_or_init$|Lazy::<T>::new$|LazyLock::<T, F>::new$|Lazy::<T, F>::new$", c.name):
                init = None
                for a in c.args:
                    l = op_local(a)
                    if l is not None:
                        sd = fn.single_def(l)
                        if sd and sd[2][0] == "agg" and isinstance(sd[2][1], list) and sd[2][1][0] == "closure":
                            init = prog.fns.get(sd[2][1][1])
                    k = op_const(a)
                    if k and (k[2].get("fn_resolved") or k[2].get("fn")) in prog.fns:
                        init = prog.fns[k[2].get("fn_resolved") or k[2].get("fn")]
                if init is None:
                    continue
                n += 1
                r = prog.reachable([init])
                bad = r & users_next
                if bad:
                    rep.finding("C31.STATICS", fn.name, "init-reads-counter:" + init.name.split("::")[-2],
                                "the initialiser of a process-wide cache can reach the file-id counter (%s): the cached value would depend on which thread wins" % sorted(prog.fns[u].name for u in bad)[0], c.loc())
                else:
                    rep.instance("C31.STATICS", "cache initialiser %s cannot reach NEXT (%d functions reachable)" % (init.name, len(r)))


def _loc(c):
    sp = c.get("span")
    return "%s:%d" % (sp[0], sp[1]) if sp else None


def rule_share(prog, rep):
    rep.floor("C31.SHARE", 4)
    for pat in (r"^apollo_compiler::schema::Schema$", r"^apollo_compiler::executable::ExecutableDocument$",
                r"^apollo_compiler::executable::FieldSet$", r"^apollo_parser::parser::syntax_tree::SyntaxTree$"):
        a = prog.adt(pat)
        bad = []
        for path, ty in a["cells"]:
            if re.match(r"^std::sync::atomic::Atomic<usize>$", ty) and re.search(r"\.(strong|weak|count)$", path):
                continue  # reference counts of std::sync::Arc / triomphe::Arc / rowan
            if ty == "std::sync::OnceLock<ariadne::Source>" and path.endswith(".source"):
                continue  # SourceFile's idempotent rendering cache
            if re.match(r"^std::sync::atomic::Atomic<usize>$", ty) and "rowan" in a["name"]:
                continue
            bad.append((path, ty))
        if bad:
            for path, ty in bad:
                rep.finding("C31.SHARE", a["name"], "interior:" + ty.split("<")[0].split("::")[-1] + ":" + path.split(".")[1],
                            "interior mutability reachable from a shared value: %s at %s" % (ty, path), _loc(a))
        rep.instance("C31.SHARE", "%s: interior-mutable types reachable: %s" % (a["name"], sorted(set(t for _, t in a["cells"])) or "none"))
    # Valid<T> has no way to hand out &mut T
    for imp in prog.impls.values():
        if imp.get("self_adt") == "apollo_compiler::validation::Valid" and imp.get("trait") in (
                "std::ops::DerefMut", "std::convert::AsMut", "std::borrow::BorrowMut"):
            rep.finding("C31.SHARE", "apollo_compiler::validation::Valid", "mut-access:" + imp["trait"].split("::")[-1],
                        "Valid<T> implements %s: a validated schema can be mutated without re-validation" % imp["trait"], None)
    for fn in prog.fns.values():
        if fn.impl and fn.impl.get("self", "").startswith("apollo_compiler::validation::Valid<") and fn.kind == "assoc_fn":
            so = fn.d.get("sig_out", "")
            si = fn.d.get("sig_in", [])
            if so.startswith("&") and " mut " in so[:12] and si and si[0].startswith("&") and "mut" in si[0][:12]:
                rep.finding("C31.SHARE", fn.name, "mut-accessor", "method of Valid<T> returns a mutable reference into the validated value", fn.loc())
    rep.instance("C31.SHARE", "Valid<T>: no DerefMut/AsMut/BorrowMut impl and no &mut accessor")


def run(prog, rep):
    rule_rmw(prog, rep)
    rule_pack(prog, rep)
    rule_statics(prog, rep)
    rule_share(prog, rep)
    # the users of pack(): a Name keeps its own tag when it is given a location (C30.REPR, shared)
    from .C30 import rule_repr
    rule_repr(prog, rep)
    if rep.tier == "thorough":
        from .. import witness
        witness.run(rep, ["c31_send_sync", "c31_valid_immutable"])
    rep.assume("std::sync::atomic fetch_add is a single atomic read-modify-write (std semantics)")
