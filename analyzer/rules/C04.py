"""C04 — Token and recursion limits are enforced exactly (DESIGN.md section 4, C04)."""
import re

from ..core import AnchorError, norm_path, op_const, op_local, op_place
from ..flow import (
    arg_path_s,
    branch_on_call,
    count_paths,
    facts_at,
    has_fact,
    must_pass,
)

CRATES = ["apollo_parser", "apollo_compiler"]
LEVEL = "other"
EXPLANATION = """
Static rules over the MIR of apollo-parser/apollo-compiler: C04.PAIR (on every CFG path after a
successful recursion-limit check exactly one decrement before return, none after a failed one,
limit_err on every failed path), C04.CMP (shape of LimitTracker::check_and_increment: increment
first, strict `current > limit`, single undo on the reached side), C04.LEXSTOP (Lexer::next tests
`finished` first, sets it before returning the limit error and on Eof), C04.MUTE (who writes
Parser.errors / accept_errors), C04.PROV (provenance of the reported limit trackers and of the
compiler's *_reached figures).  Decides balance, comparator, stop-after-limit, error muting and
counter identity on all paths; does not decide which syntactic constructs count as nesting.
"""

ACQ = r"limit::LimitTracker::check_and_increment$"
REL = r"limit::LimitTracker::decrement$"


def is_reclimit_call(fn, call, pat):
    if not re.search(pat, call.name):
        return False
    p = arg_path_s(fn, call, 0)
    return p is not None and p.endswith(".recursion_limit")


def reaches_back(prog, fn, call):
    """does the callee of `call` (transitively) reach the function containing the call
    (or, for a closure, the function that created it)?"""
    tgt = call.uid
    if tgt not in prog.fns:
        return False
    homes = {fn.uid}
    if fn.root:
        homes.add(fn.root)
    r = prog.reachable([tgt])
    return bool(r & homes)


def rule_pair(prog, rep):
    sites = []
    for fn in prog.fns.values():
        if fn.crate != "apollo_parser":
            continue
        for c in fn.live_calls():
            if is_reclimit_call(fn, c, ACQ):
                sites.append((fn, c))
    rep.floor("C04.PAIR", 5)
    for fn, c in sites:
        br = branch_on_call(fn, c)
        site = "check_and_increment#%d" % [x.block for x in fn.live_calls() if is_reclimit_call(fn, x, ACQ)].index(c.block)
        if br is None:
            rep.fail("UNDECIDED rule=C04.PAIR site=%s %s idiom=result of check_and_increment not branched on directly" % (fn.name, c.loc()))
            continue
        t_reached, t_ok, _sw = br
        dec_blocks = set(x.block for x in fn.live_calls() if is_reclimit_call(fn, x, REL))
        acq_blocks = set(x.block for x in fn.live_calls() if is_reclimit_call(fn, x, ACQ))
        # --- not-reached side: exactly one decrement on every path to return
        entry, exits = count_paths(fn, t_ok, lambda b: 1 if b in dec_blocks else 0, stop=acq_blocks)
        bad = {b: v for b, v in exits.items() if v != {1}}
        # re-acquire before release
        for ab in acq_blocks:
            if ab in entry and ab != t_ok and entry[ab] != {1}:
                bad[ab] = entry[ab]
        ok = True
        if bad or not exits:
            ok = False
            for b, v in sorted(bad.items()):
                what = "no decrement" if v == {0} else ("decrement count %s" % sorted(v))
                rep.finding(
                    "C04.PAIR", fn.name, site + ":ok-side",
                    "after a successful recursion-limit check a path reaches return with %s (counts possible: %s)" % (what, sorted(v)),
                    c.loc(), {"return_block": b, "acquire_block": c.block},
                )
            if not exits and not bad:
                rep.fail("UNDECIDED rule=C04.PAIR site=%s no return reachable after check" % fn.name)
        # a recursive call lies between acquire and release
        rec_calls = [x for x in fn.live_calls() if x.block in entry and reaches_back(prog, fn, x)]
        if not rec_calls:
            rep.note("C04.PAIR %s: no recursive call found between check and decrement" % fn.name)
        # --- reached side: no decrement, limit_err on every path, no recursive call
        entry_r, exits_r = count_paths(fn, t_reached, lambda b: 1 if b in dec_blocks else 0, stop=acq_blocks)
        for b, v in sorted(exits_r.items()):
            if v != {0}:
                ok = False
                rep.finding(
                    "C04.PAIR", fn.name, site + ":reached-side",
                    "after a failed recursion-limit check (already undone by the tracker) a path decrements again",
                    c.loc(), {"return_block": b},
                )
        lim_blocks = [x.block for x in fn.live_calls() if re.search(r"Parser::<.*>::limit_err$", x.name)]
        passed, leak = must_pass(fn, [t_reached], fn.return_blocks(), lim_blocks)
        if not passed:
            ok = False
            rep.finding(
                "C04.PAIR", fn.name, site + ":reached-noerr",
                "a path from the reached edge of the recursion-limit check to return reports no limit error",
                c.loc(), {"return_blocks": sorted(leak)},
            )
        for x in fn.live_calls():
            if x.block in entry_r and x.block not in entry and reaches_back(prog, fn, x):
                ok = False
                rep.finding(
                    "C04.PAIR", fn.name, site + ":reached-recurses",
                    "recursive call %s on the reached side of the recursion-limit check" % x.name,
                    x.loc(),
                )
        rep.instance("C04.PAIR", "%s %s: ok-side decrement counts at returns %s, reached-side %s, recursive calls guarded: %s%s" % (
            fn.name, c.loc(), sorted(set().union(*exits.values())) if exits else [],
            sorted(set().union(*exits_r.values())) if exits_r else [],
            sorted(set(x.name.split("::")[-1] for x in rec_calls)), "" if ok else " [FINDING]"))
    # every decrement on recursion_limit must belong to some acquire (no stray release)
    for fn in prog.fns.values():
        if fn.crate != "apollo_parser":
            continue
        decs = [x for x in fn.live_calls() if is_reclimit_call(fn, x, REL)]
        acqs = [x for x in fn.live_calls() if is_reclimit_call(fn, x, ACQ)]
        if decs and not acqs:
            rep.finding("C04.PAIR", fn.name, "stray-decrement",
                        "decrement of the recursion limit in a function with no check_and_increment", decs[0].loc())


def rule_cmp(prog, rep):
    fn = prog.fn(ACQ, "apollo_parser")
    rep.floor("C04.CMP", 4)
    live = fn.live_blocks()
    # 1. increment: current = current + 1, in a block dominating every comparison
    inc_block = None
    for b in sorted(live):
        for s in fn.stmts(b):
            if s[0] == "=" and s[2][0] == "bin" and s[2][1] in ("AddWithOverflow", "Add"):
                a, c = s[2][2], s[2][3]
                pa = op_place(a)
                cc = op_const(c)
                if pa is not None and norm_path(fn.apath(pa)) == "arg1.current" and cc and cc[2].get("int") == "1":
                    inc_block = b
    if inc_block is None:
        rep.finding("C04.CMP", fn.name, "increment", "no `current += 1` found in check_and_increment", fn.loc())
    else:
        rep.instance("C04.CMP", "increment `current + 1` in bb%d" % inc_block)
    # store to current happens before comparisons: find the assignment to .current
    store_blocks = [b for b in sorted(live) for s in fn.stmts(b)
                    if s[0] == "=" and fn.dest_s(s[1]) == "arg1.current"]
    # 2. comparisons
    cmps = []
    for b in sorted(live):
        for s in fn.stmts(b):
            if s[0] == "=" and s[2][0] == "bin" and s[2][1] in ("Gt", "Ge", "Lt", "Le", "Eq", "Ne"):
                pa, pb = op_place(s[2][2]), op_place(s[2][3])
                da = norm_path(fn.apath(pa)) if pa else "const"
                db = norm_path(fn.apath(pb)) if pb else "const"
                op = s[2][1]
                # normalise so that `current` is on the left
                if db == "arg1.current":
                    da, db = db, da
                    op = {"Gt": "Lt", "Lt": "Gt", "Ge": "Le", "Le": "Ge"}.get(op, op)
                cmps.append((b, s[1][0], op, da, db, s[3][0]))
    lim = [c for c in cmps if c[3] == "arg1.current" and c[4] == "arg1.limit"]
    if len(lim) != 1:
        rep.finding("C04.CMP", fn.name, "limit-test", "expected exactly one comparison of current with limit, found %d" % len(lim), fn.loc())
    else:
        b, dest, op, _, _, line = lim[0]
        # strictness, whichever way round the test is written: `current > limit` / `!(current <= limit)`
        if op not in ("Gt", "Le"):
            rep.finding("C04.CMP", fn.name, "limit-test", "limit test is `current %s limit`, must be the strict `current > limit` (or its negation `current <= limit`)" % op, fn.loc(line))
        else:
            rep.instance("C04.CMP", "limit test `current %s limit` (strict `>` boundary) at %s" % (op, fn.loc(line)))
        if store_blocks and not all(fn.dominates(sb, b) for sb in store_blocks[:1]):
            rep.finding("C04.CMP", fn.name, "order", "limit test is not dominated by the increment", fn.loc(line))
        # semantic table over all paths: P := current > limit
        from ..tables import enum_paths, return_value_on_path
        decs = set(x.block for x in fn.live_calls() if re.search(REL, x.name))

        def p_of(kind, a, bb, val):
            """truth of P implied by a comparison fact, or None"""
            if {a, bb} != {"arg1.current", "arg1.limit"}:
                return None
            o = kind
            if a == "arg1.limit":
                o = {"Gt": "Lt", "Lt": "Gt", "Ge": "Le", "Le": "Ge"}.get(o, o)
            if o == "Gt":
                return val
            if o == "Le":
                return not val
            return None

        rows = []
        undecided = False
        for atoms, rb, path in enum_paths(fn, inner_loops="cut"):
            P = None
            for f in atoms:
                if f[0] == "cmp":
                    v = p_of(f[1], f[2], f[3], f[4])
                    if v is not None:
                        P = v
            rv = return_value_on_path(fn, path) or ""
            m = re.fullmatch(r"(Gt|Ge|Lt|Le)\((arg1\.\w+), (arg1\.\w+)\)", rv)
            if rv in ("const:true", "const:false"):
                ret = rv == "const:true"
            elif m and P is not None and p_of(m.group(1), m.group(2), m.group(3), True) is not None:
                ret = P if p_of(m.group(1), m.group(2), m.group(3), True) else (not P)
            elif m and P is None:
                # the returned comparison is the only test: split the row
                t = p_of(m.group(1), m.group(2), m.group(3), True)
                if t is None:
                    undecided = True
                    continue
                nd = sum(1 for q in path if q in decs)
                rows.append((True, t, nd))
                rows.append((False, not t, nd))
                continue
            else:
                undecided = True
                continue
            if P is None:
                undecided = True
                continue
            rows.append((P, ret, sum(1 for q in path if q in decs)))
        if undecided or not rows:
            rep.fail("UNDECIDED rule=C04.CMP check_and_increment: a path does not decide `current > limit` or returns something else than the test / a constant")
        else:
            bad_ret = [r for r in rows if r[1] != r[0]]
            bad_undo = [r for r in rows if r[2] != (1 if r[0] else 0)]
            if bad_ret:
                rep.finding("C04.CMP", fn.name, "return", "check_and_increment returns %s on a path where `current > limit` is %s" % (bad_ret[0][1], bad_ret[0][0]), fn.loc())
            else:
                rep.instance("C04.CMP", "returns true exactly on the paths where current > limit (%d paths)" % len(rows))
            if bad_undo:
                rep.finding("C04.CMP", fn.name, "undo", "undo of the increment: %d decrement(s) on a path where `current > limit` is %s (want 1 when reached, 0 otherwise)" % (bad_undo[0][2], bad_undo[0][0]), fn.loc())
            else:
                rep.instance("C04.CMP", "reached paths undo the increment exactly once; other paths never")
    # 3. high-water mark: high := current under current > (or >=) high, after the increment
    hi = [c for c in cmps if c[3] == "arg1.current" and c[4] == "arg1.high"]
    hi_store = [(b, s) for b in sorted(live) for s in fn.stmts(b)
                if s[0] == "=" and fn.dest_s(s[1]) == "arg1.high"]
    okhi = False
    if len(hi) == 1 and hi[0][2] in ("Gt", "Ge") and len(hi_store) == 1:
        b, s = hi_store[0]
        src = op_place(s[2][1]) if s[2][0] == "use" else None
        if src is not None and norm_path(fn.apath(src)) == "arg1.current":
            fs = facts_at(fn, b)
            for f in fs:
                if f[0] == "cmp" and f[4] is True and ((f[1] in ("Gt", "Ge") and f[2] == "arg1.current" and f[3] == "arg1.high") or (f[1] in ("Lt", "Le") and f[3] == "arg1.current" and f[2] == "arg1.high")):
                    okhi = True
            if lim and not fn.dominates(hi[0][0], lim[0][0]):
                okhi = False
    if not okhi:
        # accept `high = max(high, current)` idiom
        mx = [x for x in fn.live_calls() if re.search(r"cmp::(Ord::)?max", x.name)]
        if mx and hi_store:
            okhi = True
    if okhi:
        rep.instance("C04.CMP", "high := current under `current > high`, before the limit test")
    else:
        rep.finding("C04.CMP", fn.name, "high", "high-water mark is not updated as max(high, current) before the limit test", fn.loc())
    # decrement is `current -= 1`
    dfn = prog.fn(REL, "apollo_parser")
    okd = False
    for b in dfn.live_blocks():
        for s in dfn.stmts(b):
            if s[0] == "=" and s[2][0] == "bin" and s[2][1] in ("SubWithOverflow", "Sub"):
                pa, cc = op_place(s[2][2]), op_const(s[2][3])
                if pa and norm_path(dfn.apath(pa)) == "arg1.current" and cc and cc[2].get("int") == "1":
                    okd = True
    if okd:
        rep.instance("C04.CMP", "decrement is `current - 1`")
    else:
        rep.finding("C04.CMP", dfn.name, "decrement", "decrement does not subtract 1 from current", dfn.loc())


def rule_lexstop(prog, rep):
    fn = prog.fn(r"<apollo_parser::lexer::Lexer<'a> as std::iter::Iterator>::next$")
    rep.floor("C04.LEXSTOP", 4)
    # (a) first test is on self.finished, true edge returns None without calling anything
    info = fn.switch_info(0)
    ok = False
    if info and info.get("kind") == "bool":
        fs_true = [f for f in _edge(fn, 0, info["edges"][True])]
        if ("place", "arg1.finished", True) in fs_true:
            reach = fn.reachable_blocks([info["edges"][True]])
            calls = [c for c in fn.live_calls() if c.block in reach]
            if not calls:
                ok = True
    if ok:
        rep.instance("C04.LEXSTOP", "Lexer::next: first statement tests `finished`; true edge returns without lexing")
    else:
        rep.finding("C04.LEXSTOP", fn.name, "finished-first", "Lexer::next does not begin with `if self.finished { return None }` (no call may precede or follow it on that edge)", fn.loc())
    # (b) limit check
    acq = [c for c in fn.live_calls() if re.search(ACQ, c.name) and (arg_path_s(fn, c, 0) or "").endswith(".limit_tracker")]
    if len(acq) != 1:
        raise AnchorError("Lexer::next: expected one check_and_increment on limit_tracker, found %d" % len(acq))
    c = acq[0]
    br = branch_on_call(fn, c)
    if br is None:
        rep.fail("UNDECIDED rule=C04.LEXSTOP Lexer::next: token-limit check result not branched on directly")
        return
    t_reached, t_ok, _ = br
    adv_blocks = [x.block for x in fn.live_calls() if re.search(r"Cursor<'a>>::advance$|Cursor::<'a>::advance$", x.name)]
    if not adv_blocks:
        raise AnchorError("Lexer::next: no call to Cursor::advance")
    # the check dominates every advance call, and advance is only on the ok side
    reach_r = fn.reachable_blocks([t_reached])
    if any(b in reach_r for b in adv_blocks):
        rep.finding("C04.LEXSTOP", fn.name, "advance-after-limit", "Cursor::advance is reachable after the token limit was reached", c.loc())
    elif not all(fn.dominates(c.block, b) for b in adv_blocks):
        rep.finding("C04.LEXSTOP", fn.name, "advance-unchecked", "Cursor::advance is reachable without passing the token-limit check", c.loc())
    else:
        rep.instance("C04.LEXSTOP", "token-limit check dominates Cursor::advance; advance unreachable on the reached edge")
    # finished = true on every path from reached edge to return, and Error::limit constructed
    fin_blocks = [b for b in fn.live_blocks() for s in fn.stmts(b)
                  if s[0] == "=" and fn.dest_s(s[1]) == "arg1.finished" and s[2][0] == "use" and (op_const(s[2][1]) or (0, ""))[1] == "true"]
    passed, leak = must_pass(fn, [t_reached], fn.return_blocks(), fin_blocks)
    lim_blocks = [x.block for x in fn.live_calls() if re.search(r"error::Error::limit$", x.name)]
    passed2, _ = must_pass(fn, [t_reached], fn.return_blocks(), lim_blocks)
    if not passed:
        rep.finding("C04.LEXSTOP", fn.name, "finished-on-limit", "a path from the reached edge of the token-limit check returns without setting `finished = true`", c.loc())
    elif not passed2:
        rep.finding("C04.LEXSTOP", fn.name, "limit-error", "a path from the reached edge of the token-limit check returns without constructing Error::limit", c.loc())
    else:
        rep.instance("C04.LEXSTOP", "reached edge: `finished = true` and Error::limit on every path to return")
    # (c) Eof sets finished
    ok = False
    for b in fin_blocks:
        fs = facts_at(fn, b)
        if has_fact(fs, "variant", variant="Eof"):
            ok = True
    if ok:
        rep.instance("C04.LEXSTOP", "Eof token sets `finished = true`")
    else:
        rep.finding("C04.LEXSTOP", fn.name, "finished-on-eof", "no `finished = true` under the Eof token-kind edge", fn.loc())
    # `finished` never reset to false outside constructors
    for f2 in prog.fns.values():
        if f2.crate != "apollo_parser":
            continue
        for b in f2.live_blocks():
            for s in f2.stmts(b):
                if s[0] == "=" and s[1][1] and proj_last_field(s[1]) == "finished" and "lexer::Lexer" in f2.local_ty(s[1][0]):
                    v = op_const(s[2][1]) if s[2][0] == "use" else None
                    if not (v and v[1] == "true"):
                        rep.finding("C04.LEXSTOP", f2.name, "finished-reset", "`Lexer.finished` assigned something other than `true`", f2.loc(s[3][0]))


def proj_last_field(place):
    for e in reversed(place[1]):
        if isinstance(e, list) and e[0] == "f":
            return e[2]
        if e == "*":
            continue
        return None
    return None


def _edge(fn, d, s):
    from ..flow import edge_facts, _strip
    return _strip(edge_facts(fn, d, s))


def rule_mute(prog, rep):
    rep.floor("C04.MUTE", 4)
    push_err = prog.fn(r"parser::Parser::<'input>::push_err$")
    next_token = prog.fn(r"parser::Parser::<'input>::next_token$")
    limit_err = prog.fn(r"parser::Parser::<'input>::limit_err$")
    from ..core import private_helpers_of
    # private helpers that are only ever called from an allowed writer count as part of it
    # (an `extract function` refactoring must not change the verdict)
    allowed = {push_err.uid, next_token.uid} | private_helpers_of(prog, [push_err, next_token])
    mute_writers = {limit_err.uid, next_token.uid} | private_helpers_of(prog, [limit_err, next_token])
    nsites = 0
    for fn in prog.fns.values():
        if fn.crate != "apollo_parser":
            continue
        for b in sorted(fn.live_blocks()):
            for s in fn.stmts(b):
                if s[0] != "=":
                    continue
                # mutable borrows of Parser.errors
                if s[2][0] == "ref" and s[2][1] == "mut":
                    pl = s[2][2]
                    if proj_last_field(pl) == "errors" and "parser::Parser<" in fn.local_ty(pl[0]) and len([e for e in pl[1] if isinstance(e, list) and e[0] == "f"]) == 1:
                        nsites += 1
                        # which call consumes it?
                        users = [c for c in fn.live_calls() if any(op_local(a) == s[1][0] for a in c.args)]
                        names = [c.name for c in users]
                        if fn.uid not in allowed or not users or not all(re.search(r"vec::Vec::<T, A>::push$", n) for n in names):
                            rep.finding("C04.MUTE", fn.name, "errors-mut-borrow",
                                        "Parser.errors is mutably borrowed outside push_err/next_token or by something other than Vec::push (%s)" % names, fn.loc(s[3][0]))
                        else:
                            rep.instance("C04.MUTE", "%s: Parser.errors.push at %s" % (fn.name, fn.loc(s[3][0])))
                # writes to accept_errors
                if proj_last_field(s[1]) == "accept_errors" and s[1][1] and "parser::Parser<" in fn.local_ty(s[1][0]):
                    v = op_const(s[2][1]) if s[2][0] == "use" else None
                    if not (v and v[1] == "false"):
                        rep.finding("C04.MUTE", fn.name, "accept-errors-reset", "`accept_errors` is assigned something other than `false` (errors after a limit would be reported again)", fn.loc(s[3][0]))
                    elif fn.uid not in mute_writers:
                        rep.finding("C04.MUTE", fn.name, "accept-errors-writer", "`accept_errors = false` outside limit_err/next_token", fn.loc(s[3][0]))
                    else:
                        rep.instance("C04.MUTE", "%s: accept_errors = false at %s" % (fn.name, fn.loc(s[3][0])))
                # direct overwrite of errors
                if proj_last_field(s[1]) == "errors" and s[1][1] and "parser::Parser<" in fn.local_ty(s[1][0]):
                    rep.finding("C04.MUTE", fn.name, "errors-overwrite", "Parser.errors is overwritten", fn.loc(s[3][0]))
    # push_err: the push is under accept_errors == true
    pushes = [c for c in push_err.live_calls() if re.search(r"vec::Vec::<T, A>::push$", c.name)]
    for c in pushes:
        fs = facts_at(push_err, c.block)
        if not has_fact(fs, "place", path_re=r"^arg1\.accept_errors$", value=True):
            rep.finding("C04.MUTE", push_err.name, "push-unguarded", "errors.push in push_err is not under `if self.accept_errors`", c.loc())
        else:
            rep.instance("C04.MUTE", "push_err: push guarded by accept_errors")
    # limit_err: push_err is called before accept_errors = false on every path that sets it
    for b in sorted(limit_err.live_blocks()):
        for s in limit_err.stmts(b):
            if s[0] == "=" and proj_last_field(s[1]) == "accept_errors":
                pe = [c.block for c in limit_err.live_calls() if c.uid == push_err.uid]
                passed, _ = must_pass(limit_err, [0], [b], pe)
                if not passed:
                    rep.finding("C04.MUTE", limit_err.name, "mute-before-report", "limit_err mutes errors before pushing the limit error itself", limit_err.loc(s[3][0]))
                else:
                    rep.instance("C04.MUTE", "limit_err: push_err precedes accept_errors = false")
    # next_token: on is_limit() == true, accept_errors = false before the push
    next_token = prog.inline(next_token, keep=r"Parser::<'input>::(push_err|limit_err|err|err_and_pop)$|lexer::")
    isl = [c for c in next_token.live_calls() if re.search(r"error::Error::is_limit$", c.name)]
    pushes = [c for c in next_token.live_calls() if re.search(r"vec::Vec::<T, A>::push$", c.name) and (arg_path_s(next_token, c, 0) or "").endswith(".errors")]
    if len(isl) != 1 or not pushes:
        rep.fail("UNDECIDED rule=C04.MUTE next_token: expected one is_limit() test and at least one errors.push (found %d / %d)" % (len(isl), len(pushes)))
    else:
        br = branch_on_call(next_token, isl[0])
        mute_blocks = [b for b in next_token.live_blocks() for s in next_token.stmts(b)
                       if s[0] == "=" and proj_last_field(s[1]) == "accept_errors"]
        if br is None:
            rep.fail("UNDECIDED rule=C04.MUTE next_token: is_limit() result not branched on")
        else:
            bad = [p for p in pushes if not must_pass(next_token, [br[0]], [p.block], mute_blocks)[0] or not next_token.dominates(isl[0].block, p.block)]
            if bad:
                rep.finding("C04.MUTE", next_token.name, "lexer-limit-mute", "a lexer limit error does not set accept_errors = false before being recorded", bad[0].loc())
            else:
                rep.instance("C04.MUTE", "next_token: lexer limit error mutes later errors before it is recorded (%d errors.push site(s))" % len(pushes))


def rule_prov(prog, rep):
    rep.floor("C04.PROV", 12)
    # Parser::parse* -> finish_*
    pairs = [
        (r"parser::Parser::<'input>::parse$", r"SyntaxTreeBuilder::finish_document$"),
        (r"parser::Parser::<'input>::parse_selection_set$", r"SyntaxTreeBuilder::finish_selection_set$"),
        (r"parser::Parser::<'input>::parse_type$", r"SyntaxTreeBuilder::finish_type$"),
    ]
    for ent, fin in pairs:
        fn = prog.fn(ent, "apollo_parser")
        cs = fn.calls_to(fin)
        if len(cs) != 1:
            raise AnchorError("%s: expected one call to %s" % (fn.name, fin))
        c = cs[0]
        got = [arg_path_s(fn, c, i) for i in (1, 2, 3)]
        want = ["arg1.errors", "arg1.recursion_limit", "arg1.lexer.limit_tracker"]
        if got != want:
            rep.finding("C04.PROV", fn.name, "finish-args", "arguments of %s are %s, expected %s" % (fin.split("::")[-1].rstrip("$"), got, want), c.loc())
        else:
            rep.instance("C04.PROV", "%s passes (errors, recursion_limit, lexer.limit_tracker) in order" % fn.name)
        ff = prog.fn(fin, "apollo_parser")
        # SyntaxTree aggregate
        found = False
        for b in sorted(ff.live_blocks()):
            for s in ff.stmts(b):
                if s[0] == "=" and s[2][0] == "agg" and isinstance(s[2][1], list) and s[2][1][0] == "adt" and s[2][1][1].endswith("syntax_tree::SyntaxTree"):
                    names = s[2][1][3]
                    ops = s[2][2]
                    m = {}
                    for n, o in zip(names, ops):
                        pl = op_place(o)
                        m[n] = norm_path(ff.apath(pl)) if pl else "const"
                    found = True
                    if m.get("recursion_limit") != "arg3" or m.get("token_limit") != "arg4" or m.get("errors") != "arg2":
                        rep.finding("C04.PROV", ff.name, "tree-fields", "SyntaxTree fields built from %s (want errors=arg2, recursion_limit=arg3, token_limit=arg4)" % m, ff.loc(s[3][0]))
                    else:
                        rep.instance("C04.PROV", "%s stores recursion_limit<-param recursion_limit, token_limit<-param token_limit" % ff.name)
        if not found:
            raise AnchorError("%s: SyntaxTree aggregate not found" % ff.name)
    # accessors
    for acc, field in ((r"SyntaxTree::<T>::recursion_limit$", "recursion_limit"), (r"SyntaxTree::<T>::token_limit$", "token_limit")):
        fn = prog.fn(acc, "apollo_parser")
        ok = False
        for b in fn.live_blocks():
            for s in fn.stmts(b):
                if s[0] == "=" and s[1][0] == 0 and s[2][0] == "use":
                    pl = op_place(s[2][1])
                    if pl and norm_path(fn.apath(pl)) == "arg1." + field:
                        ok = True
        if ok:
            rep.instance("C04.PROV", "%s returns field %s" % (fn.name, field))
        else:
            rep.finding("C04.PROV", fn.name, "accessor", "accessor does not return field `%s`" % field, fn.loc())
    # compiler: parse_common
    pc = prog.fn(r"apollo_compiler::parser::Parser::parse_common$")
    want = {"recursion_reached": ("recursion_limit", "high"), "tokens_reached": ("token_limit", "high")}
    seen = {}
    for b in sorted(pc.live_blocks()):
        for s in pc.stmts(b):
            if s[0] == "=" and proj_last_field(s[1]) in want and s[1][1]:
                fld = proj_last_field(s[1])
                src = None
                if s[2][0] == "use" and op_place(s[2][1]) is not None:
                    src = pc.apath(op_place(s[2][1]), transparent=False)
                seen[fld] = (src, s[3][0])
    for fld, (acc, sub) in want.items():
        if fld not in seen:
            raise AnchorError("parse_common: no assignment to %s" % fld)
        src, line = seen[fld]
        good = bool(src) and src[0].startswith("call:") and re.search(r"SyntaxTree::<T>::%s@" % acc, src[0]) and src[-1] == sub
        if good:
            rep.instance("C04.PROV", "parse_common: %s = tree.%s().%s" % (fld, acc, sub))
        else:
            rep.finding("C04.PROV", pc.name, fld, "%s is not assigned from tree.%s().%s (source: %s)" % (fld, acc, sub, src), pc.loc(line))
    # accessors of the compiler's Parser
    for acc, field in ((r"apollo_compiler::parser::Parser::recursion_reached$", "recursion_reached"), (r"apollo_compiler::parser::Parser::tokens_reached$", "tokens_reached")):
        fn = prog.fn(acc)
        ok = False
        for b in fn.live_blocks():
            for s in fn.stmts(b):
                if s[0] == "=" and s[1][0] == 0 and s[2][0] == "use":
                    pl = op_place(s[2][1])
                    if pl and norm_path(fn.apath(pl)) == "arg1." + field:
                        ok = True
        if ok:
            rep.instance("C04.PROV", "%s returns field %s" % (fn.name, field))
        else:
            rep.finding("C04.PROV", fn.name, "accessor", "accessor does not return field `%s`" % field, fn.loc())


def rule_limitkind(prog, rep):
    """C04.LIMITKIND: `a limit error is reported iff ..` is observed through Error::is_limit() (and the
    compiler's ParserLimit / SyntaxError split), which is true only for errors built by
    Error::limit.  So every error built where a limit is enforced - in limit_err, and at the sites
    that turn the limit flag `accept_errors` off - comes from Error::limit on every path, whatever
    the current token is (an Eof-specific constructor there makes the limit invisible when the input
    ends right after the construct that exceeded it)."""
    rep.floor("C04.LIMITKIND", 1)
    le = prog.inline(prog.fn(r"^apollo_parser::parser::Parser::<'input>::limit_err$"), keep=r"Parser::<'input>::push_err$|error::Error::")
    ctors = [c for c in le.live_calls() if re.search(r"^apollo_parser::error::Error::(limit|eof|with_loc|new)$", c.name)]
    pushes = [c for c in le.live_calls() if re.search(r"Parser::<'input>::push_err$|Vec::<T, A>::push$", c.name)]
    bad = [c for c in ctors if not c.name.endswith("Error::limit")]
    ok = bool(pushes) and bool(ctors) and not bad and all("Error::limit(" in le.sym(p.args[1]) for p in pushes)
    rep.obligation(ok)
    if ok:
        rep.instance("C04.LIMITKIND", "limit_err: the error pushed is built by Error::limit on every path (is_limit() holds whatever the current token is)")
    else:
        rep.finding("C04.LIMITKIND", le.name, "constructor",
                    "limit_err builds its error with %s: an error that is not built by Error::limit has is_limit() == false, so the limit error is reported as an ordinary syntax error on that path (e.g. when the input ends right after the construct that exceeded the limit)" % (sorted(set(c.name.split("::")[-1] for c in bad)) or "no recognised constructor"), le.loc())


def run(prog, rep):
    rule_pair(prog, rep)
    rule_cmp(prog, rep)
    rule_lexstop(prog, rep)
    rule_mute(prog, rep)
    rule_prov(prog, rep)
    rule_limitkind(prog, rep)
    rep.assume("rowan/std behave as documented; cfg(test) code is outside the analysis")
