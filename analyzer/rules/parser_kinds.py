"""C01.PROGRESS.KIND - abstract interpretation of the grammar functions over the *kind of the
current token*.

State: the kind K of the current (peeked, not yet consumed) token, until the first call that
consumes it.  Branches on the result of peek()/current()/peek_token()/at()/peek_data() are
resolved against K (string comparisons of the token text against a literal are resolved when K
fixes the text - punctuation - or excludes it - a StringValue never equals a keyword - and are
explored both ways for Name); every other branch is explored both ways.  The exploration stops at
the first consuming call (bump / eat / pop / err_and_pop, expect(K), skip_ignored on an ignored
kind, or a callee that consumes on every path for this K).  Result per (function, K): can the
function return *without having consumed the token*; for callbacks additionally with which
ControlFlow variant.  A peek_while callback that can return Continue with the token still in
place, or a peek_while_kind callback that can return without consuming its expected token, is a
definite hang: the loop re-peeks the same token and takes the same path again."""
import re

from ..core import Undecided, norm_path, op_const, op_local, op_place

PUNCT_TEXT = {"Bang": "!", "Dollar": "$", "Amp": "&", "Spread": "...", "Comma": ",", "Colon": ":", "Eq": "=", "At": "@",
              "LParen": "(", "RParen": ")", "LBracket": "[", "RBracket": "]", "LCurly": "{", "RCurly": "}", "Pipe": "|", "Eof": ""}
IGNORED = {"Whitespace", "Comment", "Comma"}

P = r"apollo_parser::parser::Parser::<'input>::"
ALWAYS_CONSUME = re.compile(P + r"(bump|eat|pop|err_and_pop)$")
NEVER_CONSUME = re.compile(P + r"(err|err_at_token|push_err|limit_err|peek|peek_token|peek_data|current|at|peek_n|peek_token_n|peek_data_n|peek_n_inner|push_ignored|push_token|checkpoint_node)$"
                           r"|parser::NodeGuard::|parser::Checkpoint::|limit::LimitTracker::")
START_NODE = re.compile(P + r"(start_node|skip_ignored)$")


class KindAnalysis:
    def __init__(self, prog):
        self.prog = prog
        tk = prog.adt(r"^apollo_parser::lexer::token_kind::TokenKind$")
        self.kinds = [v["name"] for v in tk["variants"]]
        self.memo = {}
        self._texteq = {}
        self._last_text_lit = None
        self.done = set()
        self.inprogress = set()
        self.hangs = []  # (site fn, line, callback, K, reason)
        self.changed = False
        self.pw = prog.fn(P + r"peek_while$").uid
        self.pwk = prog.fn(P + r"peek_while_kind$").uid
        self.psl = prog.fn(P + r"parse_separated_list$").uid
        self.expect = prog.fn(P + r"expect$").uid

    # ------------------------------------------------------------------ summaries
    def outcomes(self, fn, K, bargs=()):
        """set of ('nc', ret_variant) for paths that return without consuming the token of kind K
        (ret_variant is 'Continue' / 'Break' / None).  `bargs`: known constant boolean arguments
        ((param local, value), ...) - summaries are specialised on them (e.g. pop_on_error)."""
        key = (fn.uid, K, bargs)
        if key in self.done:
            return self.memo[key]
        if key in self.inprogress:
            return self.memo.get(key, set())  # least fixpoint: start from "nothing returns unconsumed"
        self.inprogress.add(key)
        self.memo.setdefault(key, set())
        res = self._explore(fn, K, bargs) | self.memo[key]
        self.inprogress.discard(key)
        if res != self.memo[key]:
            self.memo[key] = res
            self.changed = True
        self.done.add(key)
        return res

    def _kind_of_const(self, fn, op):
        s = fn.sym(op)
        m = re.match(r"^&?\*?&?(?:const:)?(?:[\w]+::)*TokenKind::(\w+)(?:\{\})?$", s)
        return m.group(1) if m else None

    def _callable_of(self, fn, op):
        from .C01 import _callable_of as co

        class C:
            pass
        c = C()
        c.args = [op]
        return co(self.prog, fn, c, 0)

    def _explore(self, fn, K, bargs=()):
        """reachability over (block, last ControlFlow variant, known boolean temporaries): the
        boolean environment makes the join-switches of `matches!` / `&&` / `||` follow only the
        edge that is feasible on the path taken"""
        # private helpers extracted from a grammar function or callback (`fn list_item(..)`) are
        # folded into it; crate-visible grammar functions and Parser methods keep their summaries
        fn = self.prog.inline(fn, keep=r"parser::Parser::<'input>::", private_only=True)
        work = [(0, None, tuple(sorted((k, v) for k, v in bargs if v != "TEXT")))]  # key -1 carries a known token text
        self._cur_env = {}
        text_params = set(k for k, v in bargs if v == "TEXT")
        self._ctx_stack = getattr(self, "_ctx_stack", [])
        self._ctx_stack.append(text_params)
        try:
            return self._explore_inner(fn, K, work)
        finally:
            self._ctx_stack.pop()

    def _explore_inner(self, fn, K, work):
        prog = self.prog
        res = set()
        seen = set()
        while work:
            b, rv, envt = work.pop()
            if (b, rv, envt) in seen:
                continue
            seen.add((b, rv, envt))
            env = dict(envt)
            for s in fn.stmts(b):
                if s[0] != "=":
                    continue
                if s[1][0] == 0 and not s[1][1] and s[2][0] == "agg" and isinstance(s[2][1], list) and s[2][1][1].endswith("ops::ControlFlow"):
                    rv = s[2][1][2]
                elif s[1][0] == 0 and not s[1][1] and s[2][0] == "use":
                    l = op_local(s[2][1])
                    if l is not None:
                        if isinstance(env.get(l), str) and env[l].startswith("CF:"):
                            rv = env[l][3:]  # the ControlFlow value built on this very path
                        else:
                            for (bb, i, rv2, pj) in fn.defs().get(l, []):
                                if rv2[0] == "agg" and isinstance(rv2[1], list) and rv2[1][1].endswith("ops::ControlFlow"):
                                    rv = rv2[1][2]
                # an enum value built on this path (`let x = match .. { .. => Some(..), _ => None }`)
                # and its discriminant: the later `let Some(..) = x else` is decided
                if not s[1][1] and s[1][0] != 0 and s[2][0] == "agg" and isinstance(s[2][1], list) and s[2][1][0] == "adt" and len(s[2][1]) > 2 and not s[2][1][1].endswith("ops::ControlFlow"):
                    env[s[1][0]] = "V:" + s[2][1][2]
                    continue
                if not s[1][1] and s[2][0] == "discr" and not s[2][1][1] and isinstance(env.get(s[2][1][0]), str) and env[s[2][1][0]].startswith("V:"):
                    env[s[1][0]] = "D:" + env[s[2][1][0]][2:]
                    continue
                # a ControlFlow value held in a temporary (the return slot of an inlined helper)
                if not s[1][1] and s[1][0] != 0 and s[2][0] == "agg" and isinstance(s[2][1], list) and s[2][1][1].endswith("ops::ControlFlow"):
                    env[s[1][0]] = "CF:" + s[2][1][2]
                    continue
                if not s[1][1] and s[1][0] != 0 and s[2][0] == "use" and op_local(s[2][1]) is not None and isinstance(env.get(op_local(s[2][1])), str):
                    env[s[1][0]] = env[op_local(s[2][1])]
                    continue
                # boolean constant propagation
                if not s[1][1]:
                    l = s[1][0]
                    r = s[2]
                    val = None
                    if r[0] == "use":
                        c = op_const(r[1])
                        if c is not None and c[0] == "bool":
                            val = c[2].get("int") == "1"
                        else:
                            sl = op_local(r[1])
                            if sl is not None and sl in env:
                                val = env[sl]
                    elif r[0] == "un" and r[1] == "Not":
                        sl = op_local(r[2])
                        if sl is not None and sl in env:
                            val = not env[sl]
                    if val is None:
                        env.pop(l, None)
                    else:
                        env[l] = val
            envt = tuple(sorted(env.items()))
            t = fn.term(b)
            k = t[0]
            if k == "ret":
                res.add(("nc", rv))
                continue
            if k == "call":
                c = fn.call_at(b)
                self._cur_env = env
                eff = self._call_effect(fn, c, K)
                if eff == "consume":
                    continue
                if c.target is not None:
                    if not c.dest[1]:
                        env.pop(c.dest[0], None)
                        env.pop(-(1000 + c.dest[0]), None)
                        # boolean results we can decide from K
                        if fn.local_ty(c.dest[0]) == "bool":
                            v = self._bool_of_call(fn, c, K)
                            if v is not None:
                                env[c.dest[0]] = v
                            elif self._last_text_lit is not None:
                                # path-local: this boolean is `current token text == literal`
                                env[-(1000 + c.dest[0])] = self._last_text_lit
                        envt = tuple(sorted(env.items()))
                    if c.dest[0] == 0 and not c.dest[1] and c.uid in prog.fns:
                        sub = self.outcomes(prog.fns[c.uid], K, self._bool_args(fn, c)) if eff == "callee" else set()
                        vs = set(v for (_n, v) in sub if v)
                        if vs:
                            for v in vs:
                                work.append((c.target, v, envt))
                            continue
                    work.append((c.target, rv, envt))
                continue
            if k == "switch":
                info = fn.switch_info(b)
                if info and info.get("kind") == "enum" and isinstance(env.get(info["local"]), str) and env[info["local"]].startswith("D:"):
                    work.append((info["edges"].get(env[info["local"]][2:], info["otherwise"]), rv, envt))
                    continue
                if info and info.get("kind") == "bool" and info["local"] in env and isinstance(env[info["local"]], bool):
                    work.append((info["edges"][env[info["local"]]], rv, envt))
                    continue
                if info and info.get("kind") == "bool" and info["local"] is not None and -(1000 + info["local"]) in env and -1 not in env:
                    # unknown comparison of the current token's text with a literal: on the true
                    # edge the text is known from here on
                    e2 = dict(env)
                    e2[-1] = env[-(1000 + info["local"])]
                    work.append((info["edges"][True], rv, tuple(sorted(e2.items()))))
                    work.append((info["edges"][False], rv, envt))
                    continue
                for s2 in self._switch_targets(fn, b, K):
                    work.append((s2, rv, envt))
                continue
            for s2 in fn.succs()[b]:
                work.append((s2, rv, envt))
        return res

    def _bool_args(self, fn, c):
        """constant boolean arguments of a call: ((callee param local, value), ...)"""
        out = []
        env = getattr(self, "_cur_env", {}) or {}
        if -1 in env:
            out.append((-1, env[-1]))
        for i, a in enumerate(c.args):
            k = op_const(a)
            if k is not None and k[0] == "bool":
                out.append((i + 1, k[2].get("int") == "1"))
            elif re.search(r"^&?\*?Parser::peek_data\(&?\*?arg\d+\)\.as:Some\.0$|^&?\*?Token::data\(&?\*?Parser::(peek_token|current)\(", fn.sym(a)):
                out.append((i + 1, "TEXT"))  # the callee receives the current token's text
            else:
                l = op_local(a)
                if l is not None and l in env and isinstance(env[l], bool):
                    out.append((i + 1, env[l]))
                elif l is not None:
                    sd = fn.single_def(l)
                    if sd and sd[2][0] == "use":
                        k2 = op_const(sd[2][1])
                        if k2 is not None and k2[0] == "bool":
                            out.append((i + 1, k2[2].get("int") == "1"))
        return tuple(out)

    def _bool_of_call(self, fn, c, K):
        """value of a bool-returning call decided by K (at(), kind == .., text == ..), else None"""
        class _SD:
            pass
        # reuse _bool_value's call logic through a synthetic single definition
        return self._bool_from_callret(fn, c, K)

    def _call_effect(self, fn, c, K):
        """'consume' (every path of the call consumes the token), 'none' / 'callee' (the call may
        return with the token still in place)"""
        prog = self.prog
        n = c.name
        if ALWAYS_CONSUME.search(n):
            return "consume"
        if START_NODE.search(n):
            return "consume" if K in IGNORED else "none"
        if c.uid == self.expect:
            want = self._kind_of_const(fn, c.args[1])
            if want is None:
                return "none"
            return "consume" if want == K else "none"
        if NEVER_CONSUME.search(n):
            return "none"
        if c.uid == self.pw:
            cal = self._callable_of(fn, c.args[1])
            if cal is None:
                return "none"
            out = self.outcomes(cal, K)
            if ("nc", "Continue") in out:
                self._hang(fn, c, cal, K, "returns Continue with the token still in place")
            if any(o[0] == "nc" and o[1] in ("Break", None) for o in out):
                return "none"
            return "consume" if not out else "none"
        if c.uid == self.pwk:
            want = self._kind_of_const(fn, c.args[1])
            cal = self._callable_of(fn, c.args[2])
            if want is None or cal is None:
                return "none"
            if want != K:
                return "none"
            out = self.outcomes(cal, K)
            if out:
                self._hang(fn, c, cal, K, "returns without consuming the `%s` token it was called for" % K)
                return "none"
            return "consume"
        if c.uid == self.psl:
            sep = self._kind_of_const(fn, c.args[1])
            if sep == K:
                return "consume"
            cal = self._callable_of(fn, c.args[3]) if len(c.args) > 3 else None
            if cal is None:
                return "none"
            return "none" if self.outcomes(cal, K) else "consume"
        if c.uid in prog.fns and prog.fns[c.uid].crate == "apollo_parser" and re.search(r"parser::grammar::|parser::Parser::", prog.fns[c.uid].name):
            out = self.outcomes(prog.fns[c.uid], K, self._bool_args(fn, c))
            return "callee" if out else "consume"
        return "none"

    def _hang(self, fn, c, cal, K, why):
        key = (cal.uid, K)
        if key not in [(h[2].uid, h[3]) for h in self.hangs]:
            self.hangs.append((fn, c.line, cal, K, why))

    # ------------------------------------------------------------------ branches
    def _switch_targets(self, fn, b, K):
        info = fn.switch_info(b)
        allsucc = list(dict.fromkeys(fn.succs()[b]))
        if info is None:
            return allsucc
        if info.get("kind") == "enum":
            path = norm_path(fn.apath(info["place"]))
            adt = info["adt"]
            tokish = re.search(r"call:.*Parser::<'input>::(peek|current|peek_token|peek_data)@\d+", path)
            if adt.endswith("option::Option") and tokish and path.count(".") == 0:
                # peek()/current()/... is Some while a token of kind K is current
                return [info["edges"].get("Some", info["otherwise"])]
            if adt.endswith("token_kind::TokenKind"):
                is_cur = (re.search(r"call:.*Parser::<'input>::peek@\d+\.as:Some\.0$", path)
                          or re.search(r"call:.*Parser::<'input>::(current|peek_token)@\d+\.as:Some\.0\.kind$", path)
                          or re.search(r"call:.*lexer::token::Token::<'a>::kind@\d+$", path) and self._token_is_current(fn, path)
                          or re.match(r"^arg\d+$", path) and fn.kind == "closure" and path == "arg%d" % fn.argc and fn.argc == 3)
                if is_cur:
                    return [info["edges"].get(K, info["otherwise"])]
            return allsucc
        if info.get("kind") == "bool":
            v = self._bool_value(fn, info["local"], K)
            if v is not None:
                return [info["edges"][v]]
        return allsucc

    def _token_is_current(self, fn, path):
        m = re.search(r"kind@(\d+)$", path)
        c = fn.call_at(int(m.group(1))) if m else None
        if c is None or not c.args:
            return False
        return re.search(r"Parser::(peek_token|current)\(", fn.sym(c.args[0])) is not None

    def _bool_value(self, fn, l, K, depth=0):
        if depth > 6 or l is None:
            return None
        sd = fn.single_def(l)
        if sd is None:
            return None
        rv = sd[2]
        if rv[0] == "use":
            return self._bool_value(fn, op_local(rv[1]), K, depth + 1)
        if rv[0] == "un" and rv[1] == "Not":
            v = self._bool_value(fn, op_local(rv[2]), K, depth + 1)
            return None if v is None else (not v)
        if rv[0] == "callret":
            return self._bool_from_callret(fn, rv[1], K)
        return None

    def _bool_from_callret(self, fn, c, K):
        # `a != b` is `PartialEq::ne`: decided like `==` and negated
        if re.search(r"PartialEq(<[^>]*>)?>?::ne$", c.name) and len(c.args) == 2:
            class _C:
                pass
            c2 = _C()
            c2.name = re.sub(r"::ne$", "::eq", c.name)
            c2.args = c.args
            v = self._bool_from_callret(fn, c2, K)
            self._last_text_lit = None  # a `!=` test does not pin the text on its true edge
            return None if v is None else (not v)
        self._last_text_lit = None
        if True:
            n = c.name
            if re.search(P + r"at$", n):
                want = self._kind_of_const(fn, c.args[1])
                return None if want is None else (want == K)
            if re.search(r"str as std::cmp::PartialEq>::eq$|str::traits::<impl std::cmp::PartialEq for str>::eq$|cmp::PartialEq::eq$|PartialEq<&B>>::eq$|PartialEq>::eq$|PartialEq<&str>>::eq$", n) and len(c.args) == 2:
                a, b2 = fn.sym(c.args[0]), fn.sym(c.args[1])
                lit = None
                other = None
                for x, y in ((a, b2), (b2, a)):
                    m = re.search(r'const:"(.*)"$', x)
                    if m:
                        lit, other = m.group(1), y
                tp = self._ctx_stack[-1] if getattr(self, "_ctx_stack", None) else set()
                is_text_param = bool(re.match(r"^&?\*?arg(\d+)$", other or "")) and int(re.match(r"^&?\*?arg(\d+)$", other).group(1)) in tp
                if lit is not None and other is not None and (is_text_param or re.search(r"Parser::peek_data\(|Token::data\(.*Parser::(peek_token|current)\(", other)):
                    env = getattr(self, "_cur_env", {}) or {}
                    if -1 in env:
                        return env[-1] == lit
                    if K in PUNCT_TEXT:
                        return PUNCT_TEXT[K] == lit
                    if K == "StringValue":
                        return lit.startswith('"') and False
                    if K in ("Int", "Float"):
                        return False if not re.match(r"^-?[0-9]", lit) else None
                    self._last_text_lit = lit
                    return None  # Name: could be any identifier
                if "TokenKind::" in a + b2:
                    # kind == TokenKind::X on the current token's kind
                    m = None
                    for side in (a, b2):
                        m = m or re.match(r"^&?\*?&?(?:const:)?(?:[\w]+::)*TokenKind::(\w+)(?:\{\})?$", side)
                    is_param = fn.kind == "closure" and fn.argc == 3 and any(re.match(r"^&?\*?arg3$", x) for x in (a, b2))
                    if m and (is_param or re.search(r"Token::kind\(.*Parser::(peek_token|current)\(|Parser::peek\(|\.kind( |$)", a + " " + b2)):
                        return m.group(1) == K
            return None
        return None


def run(prog, rep):
    """rule C01.PROGRESS.KIND"""
    from . import parser_common as PC
    ka = KindAnalysis(prog)
    ents = PC.entries(prog)
    R = set(u for u in prog.reachable(ents) if prog.fns[u].crate == "apollo_parser")
    rep.floor("C01.PROGRESS.KIND", 15)
    sites = []
    for u in sorted(R):
        fn = prog.fns[u]
        for c in fn.live_calls():
            if c.uid in (ka.pw, ka.pwk):
                sites.append((fn, c))
    # iterate to a fixpoint of the summaries (recursive grammar)
    for _round in range(8):
        ka.changed = False
        ka.hangs = []
        ka.done = set()
        for fn, c in sites:
            for K in ka.kinds:
                ka._call_effect(fn, c, K)
        if not ka.changed:
            break
    ncheck = 0
    for fn, c in sites:
        cal = ka._callable_of(fn, c.args[1] if c.uid == ka.pw else c.args[2])
        ks = ka.kinds if c.uid == ka.pw else [ka._kind_of_const(fn, c.args[1])]
        ncheck += len(ks)
        rep.instance("C01.PROGRESS.KIND", "%s callback %s (at %s): for each of %d token kind(s) no path leaves the token in place and asks for another iteration" % (
            "peek_while" if c.uid == ka.pw else "peek_while_kind", cal.name.split("grammar::")[-1] if cal else "?", c.loc(), len(ks)))
    for fn, line, cal, K, why in ka.hangs:
        chain = _nc_chain(ka, cal, K)
        rep.finding("C01.PROGRESS.KIND", cal.name, "hang:" + K,
                    "with a `%s` token current this callback %s: the enclosing loop (at %s) peeks the same token again and spins forever; grammar functions on that path that return with the token still in place: %s" % (K, why, fn.loc(line), " -> ".join(chain) or "(none)"),
                    cal.loc(), {"kind": K, "non_consuming_chain": chain})
    rep.extra["kind_analysis_summaries"] = len(ka.memo)
    rep.extra["kind_analysis_checks"] = ncheck


def _nc_chain(ka, fn, K, depth=0, seen=None):
    """names of the grammar functions (deepest last) that can return without consuming K,
    following calls from fn - a witness for the report"""
    seen = seen or set()
    out = []
    if depth > 6:
        return out
    for c in fn.live_calls():
        if c.uid in ka.prog.fns and c.uid not in seen and re.search(r"parser::grammar::", ka.prog.fns[c.uid].name):
            g = ka.prog.fns[c.uid]
            if any(k[0] == g.uid and k[1] == K and v for k, v in ka.memo.items()):
                seen.add(c.uid)
                sub = _nc_chain(ka, g, K, depth + 1, seen)
                # prefer leaf-most functions that have no own non-consuming grammar callee
                out.append(g.name.split("grammar::")[-1])
                for x in sub:
                    if x not in out:
                        out.append(x)
                if len(out) > 6:
                    break
    return out[:8]
