"""C10 — Names, numbers and type references are well-formed (DESIGN.md C10)."""
import re

from ..core import AnchorError, Undecided, norm_path, op_const, op_local, op_place
from ..flow import branch_on_call, branch_on_enum_call, facts_at, has_fact, must_pass
from ..hirq import fmt_calls, walk
from ..patset import Evaluator, byte_set
from ..tables import find_single_match, first_match, pat_matches_variant, strip_expr, bindings, local_of

CRATES = ["apollo_parser", "apollo_compiler", "apollo_smith"]
LEVEL = "other"
EXPLANATION = """
C10.NAME: Name::is_name_start / is_name_continue folded over all 256 byte values = [_A-Za-z] /
[_0-9A-Za-z] (equal to the lexer's and apollo-parser's classes); shape of Name::is_valid_syntax
(empty string rejected, byte 0 tested with is_name_start, loop from index 1 to len testing
is_name_continue, `true` only when the loop runs out).  C10.GATE: the unchecked constructors are
called only under a successful check_valid_syntax of the same string, from the name! expansion
(which carries a const assertion), with a literal that the checker itself matches against the Name
grammar, or from each other; every TryFrom / Deserialize for Name goes through Name::new.
C10.NUM: the serde visitor methods of IntValue / FloatValue build a value only on the true edge of
valid_syntax of the visited text; IntValue::valid_syntax's slice patterns denote
-?(0|[1-9][0-9]*).  C10.TYPE: Display for Type writes `{n}`, `{n}!`, `[{i}]`, `[{i}]!` for the four
variants (decoded from the format templates) - the inverse of the CST->AST conversion.
Does not decide float printing (std) or numeric round trips.
"""

LETTERS = "ABCDEFGHIJKLMNOPQRSTUVWXYZabcdefghijklmnopqrstuvwxyz"
DIGITS = "0123456789"
NAME_RE = re.compile(r"^[_A-Za-z][_0-9A-Za-z]*$")


def bs(s):
    return set(ord(c) for c in s)


def rule_name(prog, rep):
    rep.floor("C10.NAME", 6)
    ev = Evaluator(prog, "apollo_compiler")
    for fnname, want, what in (("apollo_compiler::name::Name::is_name_start", bs(LETTERS + "_"), "NameStart"),
                               ("apollo_compiler::name::Name::is_name_continue", bs(LETTERS + DIGITS + "_"), "NameContinue")):
        got = byte_set(ev, fnname)
        if got == want:
            rep.instance("C10.NAME", "%s over bytes 0..=255 = %s" % (fnname.split("::")[-1], what))
        else:
            rep.finding("C10.NAME", fnname, "class", "%s accepts bytes %s beyond / misses %s of %s" % (fnname.split("::")[-1], sorted(chr(b) if 32 < b < 127 else hex(b) for b in got - want), sorted(chr(b) for b in want - got), what), None)
    evp = Evaluator(prog, "apollo_parser")
    from ..patset import char_set
    for fnname, want in (("apollo_parser::parser::grammar::name::is_start_char", bs(LETTERS + "_")),
                         ("apollo_parser::parser::grammar::name::is_remainder_char", bs(LETTERS + DIGITS + "_"))):
        got = char_set(evp, fnname)
        if got == want:
            rep.instance("C10.NAME", "apollo-parser %s agrees" % fnname.split("::")[-1])
        else:
            rep.finding("C10.NAME", fnname, "class", "apollo-parser's %s differs from the Name grammar (%s)" % (fnname.split("::")[-1], sorted(map(chr, got ^ want))), None)
    # shape of is_valid_syntax
    fn = prog.fn(r"^apollo_compiler::name::Name::is_valid_syntax$")
    start = prog.fn(r"^apollo_compiler::name::Name::is_name_start$")
    cont = prog.fn(r"^apollo_compiler::name::Name::is_name_continue$")
    problems = []
    cs = [c for c in fn.live_calls() if c.uid == start.uid]
    cc = [c for c in fn.live_calls() if c.uid == cont.uid]
    firsts = [c for c in fn.live_calls() if re.search(r"slice::<impl \[T\]>::first$", c.name)]
    ret_vals = {}
    for b in fn.live_blocks():
        for s in fn.stmts(b):
            if s[0] == "=" and s[1][0] == 0 and not s[1][1] and s[2][0] == "use":
                k = op_const(s[2][1])
                if k is not None:
                    ret_vals.setdefault(k[1], []).append(b)
    trues, falses = ret_vals.get("true", []), ret_vals.get("false", [])
    if len(cs) != 1 or len(cc) != 1 or len(firsts) != 1 or not trues or not falses:
        raise Undecided("Name::is_valid_syntax: expected one first(), one is_name_start, one is_name_continue call and constant returns")
    # (1) empty -> false
    r = branch_on_enum_call(fn, firsts[0])
    if r is None:
        problems.append("the result of bytes.first() is not matched directly")
    else:
        info, _ = r
        none_t = info["edges"].get("None", info["otherwise"])
        if not (fn.reachable_blocks([none_t]) & set(falses)) or (fn.reachable_blocks([none_t]) & set(trues)):
            problems.append("the empty string is not rejected")
    # (2) first byte
    if "slice::first(" not in fn.sym(cs[0].args[0]) and "first" not in fn.sym(cs[0].args[0]):
        problems.append("is_name_start is not applied to the first byte (%s)" % fn.sym(cs[0].args[0]))
    br = branch_on_call(fn, cs[0])
    if br is None or (fn.reachable_blocks([br[1]]) & set(trues)) or not (fn.reachable_blocks([br[1]]) & set(falses)):
        problems.append("a failing is_name_start does not lead to `false`")
    # (3) loop: index starts at 1, bound is len, body tests is_name_continue(bytes[i]), step 1
    idx_sym = fn.sym(cc[0].args[0])
    m = re.search(r"\[_(\d+)\]", str(op_place(cc[0].args[0]) and fn.apath(op_place(cc[0].args[0]))) or "")
    idx_local = None
    pl = op_place(cc[0].args[0])
    if pl is not None:
        sd = fn.single_def(pl[0])
        src = op_place(sd[2][1]) if sd and sd[2][0] == "use" else pl
        for e in (src[1] if src else []):
            if isinstance(e, list) and e[0] == "i":
                idx_local = e[1]
    if idx_local is None:
        problems.append("is_name_continue is not applied to bytes[i]")
    else:
        # resolve the index temp to the loop variable
        sd = fn.single_def(idx_local)
        ivar = op_local(sd[2][1]) if sd and sd[2][0] == "use" else idx_local
        defs = [d for d in fn.defs().get(ivar, []) if not d[3]]
        init = [d for d in defs if d[2][0] == "use" and op_const(d[2][1]) is not None]
        steps = [d for d in defs if d not in init]
        if not (len(init) == 1 and op_const(init[0][2][1])[2].get("int") == "1"):
            problems.append("the loop index does not start at 1")
        ok_step = False
        for d in steps:
            e = fn.sym(d[2][1]) if d[2][0] == "use" else ""
            if re.match(r"^Add\((var:\w+|tmp\d+), 1\)\.0$", e) or re.match(r"^Add\((var:\w+|tmp\d+), 1\)$", e):
                ok_step = True
        if not ok_step:
            problems.append("the loop index is not advanced by exactly 1")
        # bound
        bound_ok = False
        for b in fn.live_blocks():
            info = fn.switch_info(b)
            if info and info.get("kind") == "bool":
                e = fn.sym(info["local"])
                if re.match(r"^Lt\((var:\w+|tmp\d+), (PtrMetadata|Len)\(.*\)\)$", e) or re.match(r"^Lt\((var:\w+|tmp\d+), .*len\(.*\)\)$", e):
                    bound_ok = True
                    # loop exit (false edge) leads to `true`, and only it
                    if not (fn.reachable_blocks([info["edges"][False]]) & set(trues)):
                        problems.append("running out of bytes does not return `true`")
                elif re.match(r"^(Le|Ge|Gt|Ne)\(", e) and "len" in e.lower() or "PtrMetadata" in e and not e.startswith("Lt("):
                    problems.append("loop bound is `%s`, expected `i < len`" % e)
        if not bound_ok:
            problems.append("no `i < bytes.len()` loop bound found")
    br = branch_on_call(fn, cc[0])
    if br is None or (fn.reachable_blocks([br[1]], avoid=[cc[0].block]) & set(trues)) or not (fn.reachable_blocks([br[1]]) & set(falses)):
        problems.append("a failing is_name_continue does not lead to `false`")
    if problems:
        for i, pr in enumerate(problems):
            rep.finding("C10.NAME", fn.name, "valid-syntax-shape#%d" % i, "Name::is_valid_syntax: %s" % pr, fn.loc())
    else:
        rep.instance("C10.NAME", "is_valid_syntax: rejects empty, is_name_start(byte 0), is_name_continue(bytes[i]) for i in 1..len, true only at loop exit")
    # check_valid_syntax: Ok iff is_valid_syntax
    cv = prog.fn(r"^apollo_compiler::name::Name::check_valid_syntax$")
    c0 = [c for c in cv.live_calls() if c.uid == fn.uid]
    ok = False
    if len(c0) == 1:
        br = branch_on_call(cv, c0[0])
        if br:
            okb = [b for b in cv.live_blocks() for s in cv.stmts(b) if s[0] == "=" and s[1][0] == 0 and s[2][0] == "agg" and isinstance(s[2][1], list) and s[2][1][2] == "Ok"]
            ok = bool(okb) and all(b in cv.reachable_blocks([br[0]]) and b not in cv.reachable_blocks([br[1]]) for b in okb) and re.match(r"^&?\*?arg1$", cv.sym(c0[0].args[0])) is not None
    if ok:
        rep.instance("C10.NAME", "check_valid_syntax(value) is Ok exactly on the true edge of is_valid_syntax(value)")
    else:
        rep.finding("C10.NAME", cv.name, "check", "check_valid_syntax does not return Ok exactly when is_valid_syntax(value) holds", cv.loc())


def rule_gate(prog, rep):
    rep.floor("C10.GATE", 10)
    unchecked = {prog.fn(r"^apollo_compiler::name::Name::%s$" % n).uid: n for n in ("new_unchecked", "from_arc_unchecked", "new_static_unchecked")}
    cv = prog.fn(r"^apollo_compiler::name::Name::check_valid_syntax$")
    new = prog.fn(r"^apollo_compiler::name::Name::new$")
    for fn in sorted(prog.fns.values(), key=lambda f: f.name):
        sites = [c for c in fn.live_calls() if c.uid in unchecked]
        for i, c in enumerate(sites):
            which = unchecked[c.uid]
            arg = fn.sym(c.args[0])
            site = "%s#%d" % (which, i)
            # (a) under a successful check of the same string
            checked = False
            for f in facts_at(fn, c.block):
                if f[0] == "variant" and f[2] in ("Continue", "Ok"):
                    m = re.search(r"branch@(\d+)|check_valid_syntax@(\d+)", f[1])
                    if m:
                        bc = fn.call_at(int(m.group(1) or m.group(2)))
                        chk = None
                        if bc is not None and bc.uid == cv.uid:
                            chk = bc
                        elif bc is not None and bc.args:
                            # Try::branch(check_valid_syntax(..))
                            l = op_local(bc.args[0])
                            sd = fn.single_def(l) if l is not None else None
                            if sd and sd[2][0] == "callret" and sd[2][1].uid == cv.uid:
                                chk = sd[2][1]
                        if chk is not None:
                            a = re.sub(r"^&\*?", "", fn.sym(chk.args[0]))
                            a = re.sub(r"^<Arc<T, A> as Deref>::deref\(&(.*)\)$", r"\1", a)
                            if a.lstrip("&*") in arg or arg.lstrip("&*") in a:
                                checked = True
            if checked:
                rep.instance("C10.GATE", "%s: %s under a successful check_valid_syntax of the same string" % (fn.name.split("::")[-1], which))
                continue
            # (b) literal argument matching the Name grammar
            m = re.match(r'^&?\*?&?\*?const:"(.*)"$', arg)
            if m:
                if NAME_RE.match(m.group(1)):
                    rep.instance("C10.GATE", "%s: %s(\"%s\") - literal matches the Name grammar" % (fn.name.split("::")[-1][:40], which, m.group(1)))
                else:
                    rep.finding("C10.GATE", fn.name, site + ":literal", "%s is called with the literal \"%s\", which is not a GraphQL Name" % (which, m.group(1)), c.loc())
                continue
            # (c) name! expansion (carries `const _: () = assert!(Name::is_valid_syntax(..))`)
            if c.expn and which == "new_static_unchecked" and _from_name_macro(prog, fn, c):
                rep.instance("C10.GATE", "%s: name! expansion at line %d (const-asserted)" % (fn.name.split("::")[-1][:40], c.line))
                continue
            # (d) the unchecked constructors delegating to each other
            if fn.uid in unchecked and arg.replace("&", "").replace("*", "").startswith(("arg1", "<T as Into<U>>::into(arg1")):
                rep.instance("C10.GATE", "%s delegates to %s with its own argument" % (fn.name.split("::")[-1], which))
                continue
            rep.finding("C10.GATE", fn.name, site,
                        "%s(%s) is reached without a successful check_valid_syntax on the same string, a grammar-matching literal, or the name! const assertion: an invalid Name can be created" % (which, arg[:60]), c.loc())
    # every TryFrom / Deserialize for Name goes through Name::new (or check + unchecked, handled above)
    for fn in prog.fns.values():
        if fn.impl and fn.impl.get("self") == "apollo_compiler::name::Name" and fn.impl.get("trait") in ("std::convert::TryFrom",) and fn.name.endswith("::try_from"):
            calls = [c for c in fn.live_calls()]
            if any(c.uid == new.uid for c in calls) or any(c.uid == cv.uid for c in calls):
                rep.instance("C10.GATE", "%s goes through Name::new / check_valid_syntax" % fn.name)
            else:
                rep.finding("C10.GATE", fn.name, "tryfrom", "TryFrom for Name does not validate", fn.loc())
    vis = [f for f in prog.fns.values() if re.search(r"name::.*Deserialize.*for.*Name.*visit_str$|name::_::<impl.*visit_str$|name::.*::visit_str$", f.name)]
    for f in vis:
        if any(c.uid == new.uid or c.uid == cv.uid for c in f.live_calls()) or any(re.search(r"TryFrom.*try_from$|TryInto.*try_into$", c.name + c.orig_name) for c in f.live_calls()):
            rep.instance("C10.GATE", "Deserialize for Name: %s validates" % f.name.split("::")[-1])
        else:
            rep.finding("C10.GATE", f.name, "deserialize", "Deserialize for Name builds a Name without validation", f.loc())


def _from_name_macro(prog, fn, c):
    root = prog.fns.get(fn.root) if fn.root else fn
    try:
        body = prog.hir_body(root)["body"]
    except Exception:
        return False
    for n in walk(body):
        if n.get("k") == "call" and n.get("l") == c.line and n.get("mac") and re.search(r"\bname\b", n["mac"]):
            cp = n.get("callee")
            if cp and cp[0] == "def" and cp[2].endswith("new_static_unchecked"):
                return True
    return False


def rule_num(prog, rep):
    rep.floor("C10.NUM", 5)
    for ty in ("IntValue", "FloatValue"):
        vs = prog.fn(r"impl apollo_compiler::ast::%s>::valid_syntax$|^apollo_compiler::ast::%s::valid_syntax$" % (ty, ty))
        visitors = [f for f in prog.fns.values() if re.search(r"::visit_str(ing)?$", f.name) and f.crate == "apollo_compiler"
                    and any(s[0] == "=" and s[2][0] == "agg" and isinstance(s[2][1], list) and s[2][1][1].endswith("ast::" + ty) for b in f.live_blocks() for s in f.stmts(b))]
        if len(visitors) != 2:
            raise AnchorError("expected visit_str and visit_string for %s, found %d" % (ty, len(visitors)))
        for f in visitors:
            for b in f.live_blocks():
                for s in f.stmts(b):
                    if s[0] == "=" and s[2][0] == "agg" and isinstance(s[2][1], list) and s[2][1][1].endswith("ast::" + ty):
                        fs = facts_at(f, b)
                        g = [x for x in fs if x[0] == "callbool" and x[3] is True and len(x) > 4 and x[4].uid == vs.uid]
                        if g and ("arg2" in (g[0][2][0] or "")):
                            rep.instance("C10.NUM", "%s (%s): value built only under valid_syntax(v)" % (f.name.split("::")[-1], ty))
                        else:
                            rep.finding("C10.NUM", f.name, "unvalidated:" + ty, "Deserialize for %s builds the value without (or on the wrong side of) %s::valid_syntax of the visited text" % (ty, ty), f.loc(s[3][0]))
    # the languages of IntValue::valid_syntax and FloatValue::valid_syntax, computed from their HIR
    # as regular languages (analyzer/strlang.py) and compared with the grammar's:
    #   IntValue   :: -? (0 | NonZeroDigit Digit*)
    #   FloatValue :: IntegerPart (FractionalPart | ExponentPart | FractionalPart ExponentPart)
    #   FractionalPart :: . Digit+      ExponentPart :: (e|E) (+|-)? Digit+
    from ..strlang import StrLang, from_regex
    if rep.tier == "thorough":
        # every printable ASCII character is its own symbol (plus one non-ASCII representative)
        alpha = "".join(chr(c) for c in range(0x20, 0x7F)) + "\u00e9"
        sl = StrLang(prog, "apollo_compiler", alphabet=alpha)
        classes = {"digit": set("0123456789"), "nz": set("123456789")}
    else:
        # representatives: 0, 5 (for 1-9), the characters the predicates mention, and others
        sl = StrLang(prog, "apollo_compiler")
        classes = {"digit": set("05"), "nz": set("5")}
    refs = {
        "IntValue": from_regex(sl.alpha, r"-?(0|{nz}{digit}*)", classes),
        "FloatValue": from_regex(sl.alpha, r"-?(0|{nz}{digit}*)(.{digit}+|(e|E)(\+|-)?{digit}+|.{digit}+(e|E)(\+|-)?{digit}+)", classes),
    }
    for ty, ref in refs.items():
        vs = prog.fn(r"impl apollo_compiler::ast::%s>::valid_syntax$|^apollo_compiler::ast::%s::valid_syntax$" % (ty, ty))
        lang = sl.language(vs.name)
        extra = lang.minus(ref).witness()
        missing = ref.minus(lang).witness()

        def show(w):
            return w.replace("5", "5").replace("x", "x")
        if extra is None and missing is None:
            rep.instance("C10.NUM", "%s::valid_syntax accepts exactly the grammar's %s (language equality of the %d-state automaton extracted from the code with the grammar's)" % (ty, ty, len(lang.trans)))
        if extra is not None:
            rep.finding("C10.NUM", vs.name, "accepts-invalid", "%s::valid_syntax accepts `%s`, which is not a %s of the grammar: deserialization builds a value whose text does not lex as a number" % (ty, show(extra), ty), vs.loc())
        if missing is not None:
            rep.finding("C10.NUM", vs.name, "rejects-valid", "%s::valid_syntax rejects `%s`, which the grammar accepts" % (ty, show(missing)), vs.loc())


def rule_type(prog, rep):
    rep.floor("C10.TYPE", 4)
    fs = [f for f in prog.fns.values() if re.search(r"<impl std::fmt::Display for apollo_compiler::ast::Type>::fmt$", f.name)]
    if len(fs) != 1:
        raise AnchorError("Display for ast::Type not found")
    body = prog.hir_body(fs[0])["body"]
    m = find_single_match(body)
    if m is None:
        raise Undecided("Display for Type is not a single match")
    want = {"Named": [("arg",)], "NonNullNamed": [("arg",), ("lit", "!")], "List": [("lit", "["), ("arg",), ("lit", "]")], "NonNullList": [("lit", "["), ("arg",), ("lit", "]!")]}
    for v, w in want.items():
        i = first_match(m["arms"], lambda p: pat_matches_variant(p, v))
        arm = m["arms"][i]
        try:
            calls = fmt_calls(arm["body"])
        except ValueError as e:
            raise Undecided("format template of Display for Type: %s" % e)
        pieces = calls[0][1] if calls else None
        # merge adjacent literals
        def norm(ps):
            out = []
            for p in ps or []:
                if p[0] == "lit" and out and out[-1][0] == "lit":
                    out[-1] = ("lit", out[-1][1] + p[1])
                else:
                    out.append(p)
            return out
        bnames = bindings(arm["pat"])
        arg_ok = False
        for n in walk(arm["body"]):
            if n.get("k") == "tup" and n.get("es"):
                if len(n["es"]) == 1 and local_of(n["es"][0]) == (bnames[0] if bnames else None):
                    arg_ok = True
        if norm(pieces) == norm(w) and arg_ok:
            rep.instance("C10.TYPE", "Display for Type::%s writes %s" % (v, "".join("{}" if p[0] == "arg" else p[1] for p in w)))
        else:
            rep.finding("C10.TYPE", fs[0].name, "template:" + v, "Display for Type::%s writes `%s` (payload bound: %s), expected `%s`" % (v, pieces, arg_ok, w), fs[0].loc(arm.get("l")))
    # from_cst: NamedType -> Named, ListType -> List, NonNullType(named) -> NonNullNamed, NonNullType(list) -> NonNullList
    cv = prog.fn(r"<apollo_parser::cst::Type as apollo_compiler::ast::from_cst::Convert>::convert$")
    # Path table of the conversion: every path that returns Some(ast::Type::V{..}) is read as
    # (V, the cst accessors its payload comes from, the cst variant of self).  The table does not
    # depend on how the function spells the decision (match arms returning Some, Some(match ..),
    # if-let chains, `?`).
    from ..tables import enum_paths, return_value_on_path
    rows = {}
    for atoms, rb, path in enum_paths(cv):
        val = return_value_on_path(cv, path) or ""
        mm = re.match(r"Option::Some\{Type::(\w+)\{(.*)\}\}$", val)
        if not mm:
            if val.startswith("Option::Some"):
                rows.setdefault(("?", val[:120]), 0)
            continue
        chain = tuple(re.findall(r"(NamedType::name|ListType::ty|NonNullType::named_type|NonNullType::list_type)\(", mm.group(2)))
        roots = tuple(sorted(set(re.findall(r"arg1\.as:(\w+)\.0", mm.group(2)))))
        rows[(mm.group(1), chain, roots)] = rows.get((mm.group(1), chain, roots), 0) + 1
    exp = {
        ("Named", ("NamedType::name",), ("NamedType",)): "cst::Type::NamedType -> Named(name)",
        ("List", ("ListType::ty",), ("ListType",)): "cst::Type::ListType -> List(item type)",
        ("NonNullNamed", ("NamedType::name", "NonNullType::named_type"), ("NonNullType",)): "cst::Type::NonNullType(named) -> NonNullNamed(name)",
        ("NonNullList", ("ListType::ty", "NonNullType::list_type"), ("NonNullType",)): "cst::Type::NonNullType(list) -> NonNullList(item type)",
    }
    for k, d in exp.items():
        if k in rows:
            rep.instance("C10.TYPE", "from_cst: " + d)
        else:
            rep.finding("C10.TYPE", cv.name, "from_cst:" + k[0], "no path of Convert for cst::Type builds ast::Type::%s from %s of a cst::Type::%s (rows: %s)" % (k[0], "/".join(k[1]), k[2][0], sorted(map(str, rows))), cv.loc())
    for k in rows:
        if k not in exp:
            rep.finding("C10.TYPE", cv.name, "from_cst-extra:" + str(k[0]), "Convert for cst::Type has a path that builds %s, which is not one of the four wrappers of the grammar" % (k,), cv.loc())


def rule_numfmt(prog, rep):
    """C10.NUMFMT: the text of a value created from a Rust number comes from the number's
    `Display` (`ToString::to_string`), which never uses exponent notation, and for floats the only
    edit is appending `.0` when there is no `.`.  Any other formatter (Debug `{:?}`, LowerExp
    `{:e}`) produces `1e16`, and `1e16` + `.0` is not a FloatValue."""
    rep.floor("C10.NUMFMT", 2)
    STR_MUT = r"string::String::(push_str|push|insert|insert_str|truncate|pop|remove|retain|clear|drain|replace_range|extend|split_off)$|String as std::ops::(AddAssign|DerefMut)"
    for ty, num, allow_fix in (("FloatValue", "f64", True), ("IntValue", "i32", False)):
        fn = prog.fn(r"^apollo_compiler::ast::impls::<impl std::convert::From<%s> for apollo_compiler::ast::%s>::from$" % (num, ty))
        # the returned aggregate
        aggs = []
        for b in sorted(fn.live_blocks()):
            for s in fn.stmts(b):
                if s[0] == "=" and s[2][0] == "agg" and isinstance(s[2][1], list) and s[2][1][0] == "adt" and s[2][1][1].endswith("ast::" + ty):
                    aggs.append((b, s))
        src = [c for c in fn.live_calls() if c.callee.get("full") == "<%s as std::string::ToString>::to_string" % num and fn.sym(c.args[0]).lstrip("&") == "arg1"]
        text = "<T as ToString>::to_string(&arg1)"
        ok = len(aggs) == 1 and len(src) == 1 and [fn.sym(o) for o in aggs[0][1][2][2]] == [text]
        if not ok and len(aggs) == 1 and len(aggs[0][1][2][2]) == 1:
            # the same thing spelt `format!("{value}")` / `format!("{}", value)`: Display, no options
            t2 = fn.sym(aggs[0][1][2][2][0])
            if re.fullmatch(r'hint::must_use\(fmt::format\(Arguments::new\(&const:\*b"\\xc0\\x00", &array\(Argument::new_display\((&\*tuple\(&arg1\)\.0|&arg1)\)\)\)\)\)', t2):
                ok, text = True, t2
        why = ""
        if not ok:
            why = "the stored text is `%s`, not <%s as Display>::to_string(value)" % ([fn.sym(o) for a in aggs for o in a[1][2][2]], num)
        else:
            muts = [c for c in fn.live_calls() if re.search(STR_MUT, c.name) and c.args and fn.sym(c.args[0]).lstrip("&") == text]
            if not allow_fix:
                if muts:
                    ok, why = False, "the text is edited by %s" % [m.name.split("::")[-1] for m in muts]
            else:
                if len(muts) != 1 or not muts[0].name.endswith("push_str") or fn.sym(muts[0].args[1]) != '&*const:".0"':
                    ok, why = False, "the text is edited by %s (expected exactly one push_str(\".0\"))" % [(m.name.split("::")[-1], fn.sym(m.args[1]) if len(m.args) > 1 else "") for m in muts]
                else:
                    facts = facts_at(fn, muts[0].block)
                    g = [f for f in facts if f[0] == "callbool" and f[1].endswith("str>::contains") and f[3] is False and f[4].args and fn.sym(f[4].args[1]) == "46"]
                    if not g:
                        ok, why = False, "`.0` is appended without the test `!text.contains('.')`"
                    # every path that skips the push has contains == true: the push is the only branch
                    elif not must_pass(fn, [g[0][4].block], [aggs[0][0]], [muts[0].block, *[b for b in fn.live_blocks() if any(ff[0] == "callbool" and ff[1].endswith("str>::contains") and ff[3] is True for ff in facts_at(fn, b))]])[0]:
                        ok, why = False, "a path reaches the result without `.0` although the text has no `.`"
        rep.obligation(ok)
        if ok:
            rep.instance("C10.NUMFMT", "From<%s> for %s: text = <%s as Display>::to_string(value)%s" % (num, ty, num, "; `.0` appended iff the text has no `.`" if allow_fix else ""))
        else:
            rep.finding("C10.NUMFMT", fn.name, "format", "From<%s> for %s: %s; Display is the only std formatter that never uses exponent notation" % (num, ty, why), fn.loc())


def run(prog, rep):
    rule_name(prog, rep)
    rule_gate(prog, rep)
    rule_num(prog, rep)
    rule_type(prog, rep)
    rule_numfmt(prog, rep)
