"""C01.INV (thorough tier) — reviewed inventory of panic-capable sites in apollo-parser that are
reachable from the parse / lex entry points.

A site is an `Assert` terminator (overflow, bounds), a call to a panicking std routine
(unwrap / expect / str or slice indexing / RefCell borrows) or to core::panicking::* (panic!,
unreachable!, assert!, debug_assert!).  Every site on the pinned tree was read once and given a
discharge class; the rule fails for a site that is not in the table (or exceeds the reviewed count
for its function and kind), naming it.  It is conservative by construction - a new, harmless
`unwrap()` is reported and has to be reviewed - which is why it runs in the thorough tier only."""
import re

from . import parser_common as pc

PANIC_CALL = re.compile(
    r"core::panicking::(panic|panic_fmt|assert_failed|panic_nounwind|panic_bounds_check|unreachable_display|panic_display|panic_explicit)$|"
    r"(option::Option|result::Result)::<[^>]*>::(unwrap|expect|unwrap_err|expect_err)$|"
    r"<impl std::ops::Index(Mut)?<I> for (str|\[T\]|std::vec::Vec<T, A>|std::string::String)>::index(_mut)?$|"
    r"cell::RefCell::<T>::(borrow|borrow_mut)$|"
    r"core::str::<impl str>::split_at$|vec::Vec::<T, A>::(remove|swap_remove|insert|drain|split_off)$|"
    r"char::from_digit$|slice::<impl \[T\]>::(split_at|copy_from_slice|swap)$")

# (function suffix, kind) -> (reviewed count, class, reason)
TABLE = {
    ("lexer::cursor::Cursor::<'a>::current_str", "assert:Overflow(Sub)"): (1, "cursor-invariant", "source.len() - 1 is evaluated only after a character was pulled: the source is not empty"),
    ("lexer::cursor::Cursor::<'a>::current_str", "call:Option::unwrap"): (1, "cursor-invariant", "index / pos come from CharIndices of the same string (char boundaries, in range)"),
    ("lexer::cursor::Cursor::<'a>::drain", "assert:Overflow(Sub)"): (1, "cursor-invariant", "drain() is called from eof() in a state that consumed at least one character"),
    ("lexer::cursor::Cursor::<'a>::drain", "call:Option::unwrap"): (1, "cursor-invariant", "start <= len - 1, both char boundaries"),
    ("lexer::cursor::Cursor::<'a>::eatc", "call:panicking::panic_fmt"): (1, "decided-by-C03.DFA", "eatc with a pending character: the machine extraction reports any path that reaches it"),
    ("lexer::cursor::Cursor::<'a>::prev_str", "call:Index<str>::index"): (1, "cursor-invariant", "index <= offset, both positions of CharIndices"),
    ("lexer::lookup::is_namestart", "assert:BoundsCheck"): (1, "lut-index", "c as usize < 128 under c.is_ascii(), table has 256 entries (C03.TABLE folds this guard)"),
    ("lexer::lookup::punctuation_kind", "assert:BoundsCheck"): (1, "lut-index", "same"),
    ("lexer::<impl apollo_parser::lexer::cursor::Cursor<'a>>::advance", "assert:Overflow(Add)"): (1, "hex-window", "offset + 1 <= len"),
    ("lexer::<impl apollo_parser::lexer::cursor::Cursor<'a>>::advance", "assert:Overflow(Sub)"): (3, "hex-window", "hex_end - 4 and hex_start - 2: four hex digits and `\\u` were consumed before (states EscapedUnicode(4..1)); remaining - 1 with remaining >= 2"),
    ("lexer::<impl apollo_parser::lexer::cursor::Cursor<'a>>::advance", "call:Index<str>::index"): (2, "hex-window", "ASCII hex digits: byte offsets are char boundaries"),
    ("lexer::<impl apollo_parser::lexer::cursor::Cursor<'a>>::advance", "call:Result::unwrap"): (1, "hex-window", "from_str_radix of four characters that passed is_ascii_hexdigit"),
    ("limit::LimitTracker::check_and_increment", "assert:Overflow(Add)"): (1, "arith", "current <= limit + 1 <= usize::MAX only if limit == usize::MAX and 2^64 tokens were lexed"),
    ("limit::LimitTracker::decrement", "assert:Overflow(Sub)"): (1, "decided-by-C04.PAIR", "every decrement is paired with a successful increment on the same path"),
    ("parser::grammar::document::document::{closure#0}", "call:panicking::assert_failed"): (1, "decided-by-C04.PAIR", "assert_eq!(recursion_limit.current, 0): balance of increments and decrements on all paths"),
    ("parser::grammar::name::validate_name", "call:Index<str>::index"): (1, "lexer-name-ascii", "called with the text of a Name token only: ASCII, so byte 1 is a char boundary"),
    ("parser::Parser::<'input>::checkpoint_node", "call:RefCell::borrow"): (1, "refcell-scope", "builder borrows are single expressions; no callback runs while one is held"),
    ("parser::Parser::<'input>::push_ignored", "call:RefCell::borrow_mut"): (1, "refcell-scope", "same"),
    ("parser::Parser::<'input>::push_token", "call:RefCell::borrow_mut"): (1, "refcell-scope", "same"),
    ("parser::Parser::<'input>::start_node", "call:RefCell::borrow_mut"): (1, "refcell-scope", "same"),
    ("parser::Checkpoint::wrap_node", "call:RefCell::borrow_mut"): (1, "refcell-scope", "same"),
    ("parser::Parser::<'input>::push_ignored", "call:panicking::panic"): (1, "pending-kinds", "unreachable!: only Comment / Whitespace / Comma tokens are queued as Ignored (C02.FLUSH)"),
    ("parser::Parser::<'input>::parse", "call:Result::expect"): (1, "decided-by-C01.ROOT", "Rc::try_unwrap(builder): node guards are locals of grammar functions and are dropped before"),
    ("parser::Parser::<'input>::parse", "call:panicking::panic_fmt"): (1, "decided-by-C01.ROOT", "unreachable!: the root kind is the one the entry grammar function opens"),
    ("parser::Parser::<'input>::parse_selection_set", "call:Result::expect"): (1, "decided-by-C01.ROOT", "same"),
    ("parser::Parser::<'input>::parse_selection_set", "call:panicking::panic_fmt"): (1, "decided-by-C01.ROOT", "same"),
    ("parser::Parser::<'input>::parse_type", "call:Result::expect"): (1, "decided-by-C01.ROOT", "same (known finding: ty::ty can return without a root)"),
    ("parser::Parser::<'input>::parse_type", "call:panicking::panic_fmt"): (1, "decided-by-C01.ROOT", "same"),
    ("parser::Parser::<'input>::peek_n_inner", "assert:Overflow(Sub)"): (1, "const-arg", "n - 1: every caller passes a literal n >= 1"),
    ("parser::Parser::<'input>::peek_while", "call:panicking::panic_fmt"): (1, "decided-by-C01.PROGRESS", "debug_assert!(iteration advanced): C01.PROGRESS decides it for every callback"),
    ("parser::Parser::<'input>::peek_while_kind", "call:panicking::panic_fmt"): (1, "decided-by-C01.PROGRESS", "same"),
    ("parser::Parser::<'input>::pop", "call:Option::expect"): (1, "decided-by-C01.POP", "every pop is dominated by a successful peek"),
}


def kind_of_call(name):
    m = re.search(r"core::panicking::(\w+)$", name)
    if m:
        return "call:panicking::" + m.group(1)
    m = re.search(r"(Option|Result)::<[^>]*>::(\w+)$", name)
    if m:
        return "call:%s::%s" % (m.group(1), m.group(2))
    m = re.search(r"Index(Mut)?<I> for (str|\[T\]|std::vec::Vec<T, A>|std::string::String)>::index", name)
    if m:
        return "call:Index<%s>::index" % {"str": "str", "[T]": "slice", "std::vec::Vec<T, A>": "Vec", "std::string::String": "String"}[m.group(2)]
    m = re.search(r"RefCell::<T>::(\w+)$", name)
    if m:
        return "call:RefCell::" + m.group(1)
    return "call:" + "::".join(name.split("::")[-2:])


def sites(prog):
    ents = pc.entries(prog)
    reach = prog.reachable(ents)
    out = []
    for u in sorted(reach):
        fn = prog.fns[u]
        if fn.crate != "apollo_parser":
            continue
        for b in sorted(fn.live_blocks()):
            t = fn.term(b)
            if t[0] == "assert":
                k = re.match(r"^(\w+)(\((\w+))?", str(t[3]))
                kind = "assert:" + (str(t[3]).split(",")[0].strip("[]'\" ") if not k else (k.group(1) + ("(%s)" % k.group(3) if k.group(3) else "")))
                out.append((fn, kind, "%s:%s" % (fn.file, t[6][0] if isinstance(t[6], list) else fn.line_lo)))
            elif t[0] == "call":
                c = fn.call_at(b)
                if PANIC_CALL.search(c.name):
                    out.append((fn, kind_of_call(c.name), c.loc()))
    return out, len([u for u in reach if prog.fns[u].crate == "apollo_parser"])


def run(prog, rep):
    rep.floor("C01.INV", 30)
    found, nfn = sites(prog)
    counts = {}
    where = {}
    for fn, kind, loc in found:
        short = fn.name.replace("apollo_parser::", "", 1)
        counts[(short, kind)] = counts.get((short, kind), 0) + 1
        where.setdefault((short, kind), []).append(loc)
    for key, n in sorted(counts.items()):
        row = TABLE.get(key)
        if row is None:
            rep.finding("C01.INV", "apollo_parser::" + key[0], "unreviewed:" + key[1],
                        "a panic-capable site (%s) reachable from the parse/lex entry points is not in the reviewed inventory" % key[1], where[key][0])
        elif n > row[0]:
            rep.finding("C01.INV", "apollo_parser::" + key[0], "count:" + key[1],
                        "%d sites of kind %s (reviewed: %d): a new panic-capable site on the parse path" % (n, key[1], row[0]), where[key][-1])
        else:
            rep.instance("C01.INV", "%s: %d x %s - %s (%s)" % (key[0].split("::")[-1], n, key[1], row[1], row[2][:70]))
    gone = [k for k in TABLE if k not in counts]
    if gone:
        rep.note("inventory rows without a site on this tree: %s" % sorted("%s %s" % k for k in gone))
    rep.extra["inventory"] = {"functions_reachable": nfn, "sites": len(found), "rows": len(TABLE)}
    rep.assume("rowan / memchr internals and allocation failure are outside the inventory")
