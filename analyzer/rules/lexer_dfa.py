"""C03.DFA placeholder: transducer extraction of Cursor::advance (thorough tier), to be written."""


def run(prog, rep, ev):
    rep.note("C03.DFA: transducer extraction not built yet; thorough tier currently equals quick tier")
