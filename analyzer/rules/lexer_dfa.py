"""C03.DFA — the lexer's `advance` state machine, extracted from the type-checked HIR by abstract
interpretation over a symbolic cursor, compared with a reference machine of the lexical grammar by
exploring the product of the two machines (bisimulation up to the first error of a token).

Nothing is executed: `Cursor::advance`, `eof`, `done` and `unterminated_spread_operator` are
*interpreted* from HIR-lite.  The interpreter knows a closed vocabulary:
  * pure predicates and tables (folded by patset.Evaluator from their own source),
  * the Cursor primitives bump / eatc / is_pending / current_str / prev_str / drain / add_err /
    err / index, whose meaning over the symbolic cursor is written below (trusted vocabulary; their
    bodies are covered by C02/C03.PARTITION and the C01 inventory),
  * assignments to `state`, `token.kind`, `token.data`, control flow, Ok/Err, opaque strings.
Anything else raises Undecided (fail closed).

Symbolic cursor for one token: the list of symbols *pulled* from the character iterator since the
token started and a `pending` flag (the last pulled symbol is pushed back).  A lexeme is described
by `back` = how many trailing pulled symbols are not part of it (0 or 1).
"""
import re
from ..core import Undecided
from ..patset import Char, EnumVal, Evaluator

EOF = -1


class NeedMore(Exception):
    pass


class _Continue(Exception):
    pass


class _Return(Exception):
    def __init__(self, v):
        self.v = v


EXTRA_FINDINGS = {}  # findings discovered while interpreting the lexer (reported by run)


class Opaque:
    def __init__(self, what):
        self.what = what

    def __repr__(self):
        return "<%s>" % self.what


class Lexeme:
    def __init__(self, back, rest=False):
        self.back = back
        self.rest = rest  # drain(): everything up to the end of input


class TokenVal:
    def __init__(self, kind, data=None):
        self.kind = kind
        self.data = data

    def copy(self):
        return TokenVal(self.kind, self.data)


class ErrVal:
    def __init__(self, data=None, deferred=False):
        self.data = data
        self.deferred = deferred


class Cur:
    """symbolic cursor + oracle"""

    def __init__(self, pending_sym, err, feed, on_pull, surrogate_oracle):
        self.pending = pending_sym  # None or symbol
        self.err = err  # deferred error present
        self.feed = list(feed)
        self.pos = 0
        self.pulled = 0  # symbols pulled in this iteration
        self.on_pull = on_pull
        self.surrogate_oracle = surrogate_oracle
        self.at_eof = False
        self.problems = []

    def pull(self):
        if self.at_eof:
            return EOF
        if self.pos >= len(self.feed):
            raise NeedMore()
        s = self.feed[self.pos]
        self.pos += 1
        if s == EOF:
            self.at_eof = True
        else:
            self.pulled += 1
        self.on_pull(s)
        return s


class LexInterp:
    def __init__(self, prog):
        self.prog = prog
        self.ev = Evaluator(prog, "apollo_parser")
        self.fn_advance = prog.fn(r"lexer::<impl apollo_parser::lexer::cursor::Cursor<'a>>::advance$")
        self.b_advance = prog.hir_body(self.fn_advance)
        self.b_eof = prog.hir_body(prog.fn(r"lexer::<impl apollo_parser::lexer::cursor::Cursor<'a>>::eof$"))
        self.b_done = prog.hir_body(prog.fn(r"lexer::<impl apollo_parser::lexer::cursor::Cursor<'a>>::done$"))
        self.b_unterm = prog.hir_body(prog.fn(r"lexer::<impl apollo_parser::lexer::cursor::Cursor<'a>>::unterminated_spread_operator$"))
        body = self.b_advance["body"]
        # shape: let mut state = State::Start; let mut token = Token{..}; loop { let Some(c) = self.bump() else { return self.eof(state, token) }; match state {..} }
        st = body.get("stmts", [])
        lp = body.get("expr")
        if len(st) != 2 or not lp or lp.get("k") != "loop":
            raise Undecided("Cursor::advance is no longer `let state; let token; loop {..}`")
        self.id_state = st[0]["pat"]["id"]
        self.id_token = st[1]["pat"]["id"]
        self.init_state = self._pure(st[0]["init"], {})
        tk = st[1]["init"]
        if tk.get("k") != "struct":
            raise Undecided("token is not initialised with a struct expression")
        kinds = [f for f in tk["fields"] if f[0] == "kind"]
        self.init_kind = self._pure(kinds[0][1], {})
        lb = lp["body"]
        if len(lb.get("stmts", [])) != 1 or lb["stmts"][0].get("k") != "slet" or (lb.get("expr") or {}).get("k") != "match":
            raise Undecided("the lexer loop is no longer `let Some(c) = self.bump() else {..}; match state {..}`")
        self.bump_let = lb["stmts"][0]
        if self.bump_let["init"].get("m") != "bump" or self.bump_let["pat"].get("k") != "tstruct":
            raise Undecided("loop head is not `let Some(c) = self.bump()`")
        self.id_c = self.bump_let["pat"]["subs"][0]["id"]
        self.match_state = lb["expr"]
        self.self_id = self.b_advance["params"][0]["id"]

    # ---------------------------------------------------------------- values
    def _pure(self, e, env):
        """pure expression through the table evaluator; env is keyed by local *name*"""
        return self.ev.eval(e, env)

    # ---------------------------------------------------------------- interpreter
    def iterate(self, state, kind, cur):
        """one loop iteration from the loop head; returns ('cont', state, kind) or
        ('end', 'ok'|'err', kind, Lexeme|None)"""
        env = {self.id_state: state, self.id_token: TokenVal(kind), self.self_id: "SELF"}
        self.cur = cur
        try:
            c = self.bump()
            if c == EOF:
                r = self.call_local(self.b_eof, [env[self.id_state], env[self.id_token]])
                return self._end(r)
            env[self.id_c] = Char(c)
            try:
                self.eval(self.match_state, env)
            except _Continue:
                pass
            return ("cont", env[self.id_state], env[self.id_token].kind)
        except _Return as r:
            return self._end(r.v)

    def _end(self, v):
        if isinstance(v, EnumVal) and v.variant == "Ok" and isinstance(v.payload[0], TokenVal):
            t = v.payload[0]
            return ("end", "ok", t.kind, t.data)
        if isinstance(v, EnumVal) and v.variant == "Err":
            e = v.payload[0]
            return ("end", "err", None, e.data if isinstance(e, ErrVal) else None)
        raise Undecided("advance returns something else than Ok(token) / Err(error): %r" % (v,))

    def _local_body(self, callee_path):
        """HIR body of a local function of the lexer module that is not part of the trusted
        Cursor vocabulary (cursor.rs)"""
        if not callee_path.startswith("apollo_parser::lexer::") or "lexer::cursor::Cursor::<'a>::" in callee_path:
            return None
        cache = self.__dict__.setdefault("_bodies", None)
        if cache is None:
            cache = {}
            for uid, b in self.prog.hir("apollo_parser").items():
                cache[b["name"]] = b
            self._bodies = cache
        return cache.get(callee_path)

    # cursor vocabulary ------------------------------------------------------
    def bump(self):
        cur = self.cur
        if cur.pending is not None:
            s = cur.pending
            cur.pending = None
            return s
        return cur.pull()

    def eatc(self, ch):
        cur = self.cur
        if cur.pending is not None:
            cur.problems.append("eatc is called while a character is pending (the code panics there)")
            raise Undecided("eatc with a pending character")
        s = cur.pull()
        if s == EOF:
            return False
        if s == int(ch):
            return True
        cur.pending = s
        return False

    def current_str(self):
        cur = self.cur
        # includes every pulled symbol (a pending one is swallowed into the lexeme); the next
        # symbol is pulled only as a look-ahead that stays pending, which is equivalent to not
        # pulling it for everything the token machine can observe
        cur.pending = None
        return Lexeme(0)

    def prev_str(self):
        cur = self.cur
        if cur.at_eof:
            # offset stays at the last pulled symbol: the slice excludes it
            pass
        cur.pending = "LAST"
        return Lexeme(1)

    def drain(self):
        self.cur.pending = None
        return Lexeme(0, rest=True)

    # generic evaluation -----------------------------------------------------
    def call_local(self, body, args):
        env = {"self": "SELF"}
        ps = body["params"]
        vals = ["SELF"] + list(args)
        for p, v in zip(ps, vals):
            if p.get("k") != "bind":
                raise Undecided("parameter pattern in %s" % body["name"])
            env[p["id"]] = v.copy() if isinstance(v, TokenVal) else v
        try:
            return self.eval(body["body"], env)
        except _Return as r:
            return r.v

    def lookup(self, r, env):
        if r[0] == "local":
            if r[2] in env:
                return env[r[2]]
            raise Undecided("unbound local %s" % r[1])
        raise Undecided("path %s" % (r,))

    def bindpat(self, p, v, env):
        k = p.get("k")
        if k == "_":
            return True
        if k == "bind":
            if p.get("sub") is not None and not self.bindpat(p["sub"], v, env):
                return False
            env[p["id"]] = v
            return True
        if k == "ref":
            return self.bindpat(p["p"], v, env)
        if k in ("lit", "range", "or") and isinstance(v, (int, str, bool)):
            if k == "or":
                return any(self.bindpat(q, v, env) for q in p["pats"])
            return self.ev.bind(p, v, {})
        if k == "or":
            return any(self.bindpat(q, v, env) for q in p["pats"])
        if k in ("tstruct", "path", "struct"):
            from ..tables import variant_name_of_pat
            vn = variant_name_of_pat(p)
            if not isinstance(v, EnumVal):
                raise Undecided("enum pattern against %r" % (v,))
            if vn != v.variant:
                return False
            subs = p.get("subs") or []
            return all(self.bindpat(s, x, env) for s, x in zip(subs, v.payload))
        raise Undecided("pattern kind %s in the lexer" % k)

    def has_effect(self, e):
        from ..hirq import walk
        for n in walk(e):
            if n.get("k") == "mcall" and "cursor::Cursor" in (n.get("callee") or ""):
                return True
            if n.get("k") in ("assign", "ret", "continue", "break"):
                return True
        return False

    def eval(self, e, env):
        k = e.get("k")
        if k == "lit":
            return self.ev.lit(e)
        if k == "path":
            r = e.get("res")
            if r[0] == "local":
                return self.lookup(r, env)
            if r[0] == "def" and r[1].startswith("ctor"):
                return EnumVal((r[4] if len(r) > 4 else r[2]).split("::")[-1])
            return self.ev.eval(e, {})
        if k == "block":
            for s in e.get("stmts", []):
                sk = s.get("k")
                if sk == "slet":
                    v = self.eval(s["init"], env) if s.get("init") is not None else None
                    if not self.bindpat(s["pat"], v, env):
                        if s.get("els") is None:
                            raise Undecided("refutable let without else")
                        self.eval(s["els"], env)
                        raise Undecided("let-else fell through")
                elif sk == "semi":
                    self.eval(s["e"], env)
                else:
                    self.eval(s, env)
            if e.get("expr") is not None:
                return self.eval(e["expr"], env)
            return ()
        if k == "if":
            c = e["cond"]
            if c.get("k") == "let":
                v = self.eval(c["init"], env)
                if self.bindpat(c["pat"], v, env):
                    return self.eval(e["then"], env)
                return self.eval(e["else"], env) if e.get("else") else ()
            if self.truth(self.eval(c, env)):
                return self.eval(e["then"], env)
            return self.eval(e["else"], env) if e.get("else") else ()
        if k == "match":
            v = self.eval(e["scrut"], env)
            for arm in e["arms"]:
                if self.bindpat(arm["pat"], v, env):
                    if arm.get("guard") is not None and not self.truth(self.eval(arm["guard"], env)):
                        continue
                    return self.eval(arm["body"], env)
            raise Undecided("non-exhaustive match in the lexer interpreter")
        if k == "bin":
            op = e["op"]
            if op == "&&":
                return self.truth(self.eval(e["a"], env)) and self.truth(self.eval(e["b"], env))
            if op == "||":
                return self.truth(self.eval(e["a"], env)) or self.truth(self.eval(e["b"], env))
            a, b = self.eval(e["a"], env), self.eval(e["b"], env)
            if isinstance(a, Opaque) or isinstance(b, Opaque):
                if op in ("+", "-"):
                    return Opaque("arith(%s %s %s)" % (a, op, b))
                raise Undecided("comparison of opaque values")
            return {"==": lambda: a == b, "!=": lambda: a != b, "<": lambda: a < b, "<=": lambda: a <= b, ">": lambda: a > b,
                    ">=": lambda: a >= b, "+": lambda: a + b, "-": lambda: a - b}[op]()
        if k == "un":
            a = self.eval(e["a"], env)
            if e["op"] == "!":
                return not self.truth(a)
            if e["op"] == "*":
                return a
            raise Undecided("unary %s" % e["op"])
        if k == "ref":
            return self.eval(e["e"], env)
        if k == "assign":
            v = self.eval(e["rhs"], env)
            lhs = e["lhs"]
            if lhs.get("k") == "path" and lhs["res"][0] == "local":
                env[lhs["res"][2]] = v
                return ()
            if lhs.get("k") == "field":
                base = self.eval(lhs["e"], env)
                if isinstance(base, TokenVal):
                    if lhs["name"] == "kind":
                        base.kind = v
                    elif lhs["name"] == "data":
                        base.data = v
                    elif lhs["name"] == "index":
                        pass
                    else:
                        raise Undecided("assignment to token.%s" % lhs["name"])
                    return ()
                if isinstance(base, ErrVal):
                    return ()  # err.index = ..
                if base == "SELF":
                    if lhs["name"] == "err":
                        if isinstance(v, EnumVal) and v.variant == "None":
                            self.cur.err = False
                            return ()
                        raise Undecided("self.err assigned something else than None")
                    if lhs["name"] == "offset":
                        return ()  # only in eof(Start): moves the EOF position
                    raise Undecided("assignment to self.%s" % lhs["name"])
            raise Undecided("assignment target")
        if k == "field":
            base = self.eval(e["e"], env)
            if isinstance(base, TokenVal):
                if e["name"] == "kind":
                    return base.kind
                if e["name"] == "data":
                    return base.data
                return Opaque("token." + e["name"])
            if base == "SELF":
                return Opaque("self." + e["name"])
            return Opaque("field")
        if k == "index":
            self.eval(e["e"], env)
            return Opaque("slice")
        if k == "continue":
            raise _Continue()
        if k == "ret":
            raise _Return(self.eval(e["e"], env) if e.get("e") else ())
        if k == "mcall":
            return self.mcall(e, env)
        if k == "call":
            return self.call(e, env)
        if k == "struct":
            res = e.get("res") or []
            nm = str(res[2]) if len(res) > 2 else ""
            if re.search(r"ops::Range(Inclusive)?$", nm):
                fs = dict((fn_, self.eval(fe, env)) for fn_, fe in e.get("fields", []))
                if isinstance(fs.get("start"), int) and isinstance(fs.get("end"), int):
                    return ("range", int(fs["start"]), int(fs["end"]), nm.endswith("Inclusive"))
            raise Undecided("struct expression inside the lexer loop")
        if k == "tup":
            return tuple(self.eval(x, env) for x in e["es"])
        if k == "closure":
            return Opaque("closure")
        raise Undecided("expression kind `%s` in the lexer" % k)

    def truth(self, v):
        if not isinstance(v, bool):
            raise Undecided("non-boolean condition %r in the lexer" % (v,))
        return v

    def mcall(self, e, env):
        cal = e.get("callee") or ""
        m = e["m"]
        recv = self.eval(e["recv"], env)
        if recv == "SELF":
            if cal.endswith("Cursor::<'a>::bump"):
                raise Undecided("bump() outside the loop head")
            if cal.endswith("Cursor::<'a>::eatc"):
                a = self.eval(e["args"][0], env)
                return self.eatc(a)
            if cal.endswith("Cursor::<'a>::is_pending"):
                return self.cur.pending is not None
            if cal.endswith("Cursor::<'a>::current_str"):
                return self.current_str()
            if cal.endswith("Cursor::<'a>::prev_str"):
                return self.prev_str()
            if cal.endswith("Cursor::<'a>::drain"):
                return self.drain()
            if cal.endswith("Cursor::<'a>::index"):
                return Opaque("index")
            if cal.endswith("Cursor::<'a>::add_err"):
                self.eval(e["args"][0], env)
                self.cur.err = True
                return ()
            if cal.endswith("Cursor::<'a>::err"):
                return EnumVal("Some", [ErrVal(deferred=True)]) if self.cur.err else EnumVal("None")
            if cal.endswith("Cursor<'a>>::done"):
                return self.call_local(self.b_done, [self.eval(a, env) for a in e["args"]])
            if cal.endswith("Cursor<'a>>::eof"):
                return self.call_local(self.b_eof, [self.eval(a, env) for a in e["args"]])
            if cal.endswith("Cursor<'a>>::unterminated_spread_operator"):
                return self.call_local(self.b_unterm, [self.eval(a, env) for a in e["args"]])
            # a private helper method of the lexer (e.g. extracted from `advance`): interpret its body
            hb = self._local_body(cal)
            if hb is not None:
                return self.call_local(hb, [self.eval(a, env) for a in e["args"]])
            raise Undecided("method %s on the cursor is outside the vocabulary" % cal)
        args = [self.eval(a, env) for a in e["args"]]
        if isinstance(recv, ErrVal):
            if m == "set_data":
                recv.data = args[0]
                return ()
            raise Undecided("method %s on an error value" % m)
        if m in ("to_string", "to_owned", "into", "as_str") and not args:
            return recv
        if m == "len" and isinstance(recv, Opaque):
            return Opaque("len")
        if isinstance(recv, (Char, int)) and not isinstance(recv, bool):
            from ..patset import CHAR_METHODS
            if m in CHAR_METHODS and not args:
                return CHAR_METHODS[m](int(recv))
            raise Undecided("char method `%s` is outside the closed list" % m)
        if m == "unwrap" and isinstance(recv, Opaque):
            return recv
        if m == "contains" and isinstance(recv, tuple) and recv and recv[0] == "range" and args and isinstance(args[0], Opaque) and args[0].what == "from_str_radix":
            # `(lo..hi).contains(&code_point)`: a hand-written surrogate test.  It has to denote
            # exactly the code points that are not scalar values, U+D800..=U+DFFF - the decoder
            # unwraps char::from_u32 on everything the lexer lets through.
            lo, hi, incl = recv[1], recv[2], recv[3]
            hi_incl = hi if incl else hi - 1
            if (lo, hi_incl) != (0xD800, 0xDFFF):
                wrong = 0xDFFF if hi_incl < 0xDFFF else (0xD800 if lo > 0xD800 else (hi_incl if hi_incl > 0xDFFF else lo))
                EXTRA_FINDINGS[("surrogate-range", lo, hi_incl)] = ("the surrogate test of \\uXXXX escapes is %#06x..=%#06x, not 0xd800..=0xdfff: for `\\u%04X` the lexer and char::from_u32 disagree (an accepted surrogate makes the string decoder panic; a rejected scalar value is a valid escape)" % (lo, hi_incl, wrong))
            return self.cur.surrogate_oracle()
        if m == "is_none" and isinstance(recv, Opaque) and recv.what == "from_u32":
            # char::from_u32(code point of the four hex digits just consumed).is_none()
            return self.cur.surrogate_oracle()
        if m == "is_some" and isinstance(recv, Opaque) and recv.what == "from_u32":
            v = self.cur.surrogate_oracle()
            return (not v) if isinstance(v, bool) else self._undec("surrogate oracle returned a non-boolean")
        raise Undecided("method `%s` on %r in the lexer" % (m, recv))

    def _undec(self, msg):
        raise Undecided(msg)

    def call(self, e, env):
        c = e.get("callee")
        if not c or c[0] != "def":
            raise Undecided("indirect call in the lexer")
        path = c[2]
        if c[1].startswith("ctor"):
            args = [self.eval(a, env) for a in e["args"]]
            return EnumVal((c[4] if len(c) > 4 else c[2]).split("::")[-1], args)
        if path.endswith("error::Error::with_loc"):
            args = [self.eval(a, env) for a in e["args"]]
            return ErrVal(data=args[1] if len(args) > 1 else None)
        if path in ("std::hint::must_use", "std::fmt::format") or path.endswith("fmt::Arguments::<'a>::new"):
            if self.has_effect(e):
                raise Undecided("format! with side effects")
            return Opaque("string")
        if path.endswith("from_str_radix"):
            for a in e["args"]:
                self.eval(a, env)
            return Opaque("from_str_radix")
        if path.endswith("<impl char>::from_u32"):
            return Opaque("from_u32")
        if path.split("::")[0] == "apollo_parser":
            args = [self.eval(a, env) for a in e["args"]]
            if any(isinstance(a, (Opaque, TokenVal, ErrVal, Lexeme)) or a == "SELF" for a in args):
                hb = self._local_body(path)
                if hb is not None and len(hb["params"]) == len(args):
                    env2 = {}
                    for p, a in zip(hb["params"], args):
                        if p.get("k") != "bind":
                            raise Undecided("parameter pattern in %s" % path)
                        env2[p["id"]] = a.copy() if isinstance(a, TokenVal) else a
                    try:
                        return self.eval(hb["body"], env2)
                    except _Return as r:
                        return r.v
                raise Undecided("local function %s called with a non-scalar value" % path)
            return self.ev.call(path, args)
        raise Undecided("call to %s in the lexer" % path)


# ------------------------------------------------------------------------------------ reference

LETTERS = set(map(ord, "ABCDEFGHIJKLMNOPQRSTUVWXYZabcdefghijklmnopqrstuvwxyz"))
DIG = set(map(ord, "0123456789"))
NAMESTART = LETTERS | {ord("_")}
NAMECONT = NAMESTART | DIG
WS = {0x09, 0x20, 0x0A, 0x0D, 0xFEFF}
LT = {0x0A, 0x0D}
HEX = set(map(ord, "0123456789abcdefABCDEF"))
ESC = set(map(ord, '"\\/bfnrt'))
PUNCT = {"!": "Bang", "$": "Dollar", "&": "Amp", "(": "LParen", ")": "RParen", ":": "Colon", "=": "Eq",
         "@": "At", "[": "LBracket", "]": "RBracket", "{": "LCurly", "}": "RCurly", "|": "Pipe", ",": "Comma"}
PUNCT = {ord(k): v for k, v in PUNCT.items()}
Q, BS, DOT, MINUS, PLUS, HASH = ord('"'), ord("\\"), ord("."), ord("-"), ord("+"), ord("#")


def ref_step(rs, s):
    """reference machine.  rs is a tuple (name, bad, extra).  returns ('goto', rs') |
    ('emit', kind, back, bad) | ('error',)."""
    n, bad, x = rs
    if n == "S":
        if s == EOF:
            return ("emit", "Eof", 0, False)
        if s in PUNCT:
            return ("emit", PUNCT[s], 0, False)
        if s in NAMESTART:
            return ("goto", ("NAME", False, None))
        if s == ord("0"):
            return ("goto", ("ZERO", False, "Int"))
        if s in DIG:
            return ("goto", ("INT", False, None))
        if s == MINUS:
            return ("goto", ("MINUS", False, None))
        if s == Q:
            return ("goto", ("Q1", False, None))
        if s == HASH:
            return ("goto", ("COMMENT", False, None))
        if s == DOT:
            return ("goto", ("DOT1", False, None))
        if s in WS:
            return ("goto", ("WS", False, None))
        return ("error",)
    if n == "NAME":
        if s != EOF and s in NAMECONT:
            return ("goto", rs)
        return ("emit", "Name", 1 if s != EOF else 0, False)
    if n == "WS":
        if s != EOF and s in WS:
            return ("goto", rs)
        return ("emit", "Whitespace", 1 if s != EOF else 0, False)
    if n == "COMMENT":
        if s == EOF or s in LT:
            return ("emit", "Comment", 1 if s != EOF else 0, False)
        return ("goto", rs)
    if n == "DOT1":
        return ("goto", ("DOT2", False, None)) if s == DOT else ("error",)
    if n == "DOT2":
        return ("emit", "Spread", 0, False) if s == DOT else ("error",)
    if n == "MINUS":
        if s == ord("0"):
            return ("goto", ("ZERO", False, None))
        if s != EOF and s in DIG:
            return ("goto", ("INT", False, None))
        return ("error",)
    if n in ("ZERO", "INT"):
        if s == EOF:
            return ("emit", "Int", 0, False)
        if s in DIG:
            return ("goto", rs) if n == "INT" else ("error",)
        if s == DOT:
            return ("goto", ("DEC", False, None))
        if s in (ord("e"), ord("E")):
            return ("goto", ("EXP", False, None))
        if s in NAMESTART:
            return ("error",)
        return ("emit", "Int", 1, False)
    if n == "DEC":
        return ("goto", ("FRAC", False, None)) if (s != EOF and s in DIG) else ("error",)
    if n == "FRAC":
        if s == EOF:
            return ("emit", "Float", 0, False)
        if s in DIG:
            return ("goto", rs)
        if s in (ord("e"), ord("E")):
            return ("goto", ("EXP", False, None))
        if s == DOT or s in NAMESTART:
            return ("error",)
        return ("emit", "Float", 1, False)
    if n == "EXP":
        if s != EOF and s in DIG:
            return ("goto", ("EXPD", False, None))
        if s in (PLUS, MINUS):
            return ("goto", ("EXPSIGN", False, None))
        return ("error",)
    if n == "EXPSIGN":
        return ("goto", ("EXPD", False, None)) if (s != EOF and s in DIG) else ("error",)
    if n == "EXPD":
        if s == EOF:
            return ("emit", "Float", 0, False)
        if s in DIG:
            return ("goto", rs)
        if s == DOT or s in NAMESTART:
            return ("error",)
        return ("emit", "Float", 1, False)
    # ---- strings
    if n == "Q1":  # after the opening quote
        if s == EOF:
            return ("error",)
        if s == Q:
            return ("goto", ("Q2", False, None))
        return ref_step(("STR", False, None), s)
    if n == "Q2":  # after `""`
        if s == Q:
            return ("goto", ("BLOCK", False, None))
        return ("emit", "StringValue", 1 if s != EOF else 0, False)
    # (the first invalid construct inside a string makes the whole input invalid: `error`; where
    # the erroneous fragment ends is not part of the property)
    if n == "STR":
        if s == EOF:
            return ("error",)
        if s == Q:
            return ("emit", "StringValue", 0, False)
        if s == BS:
            return ("goto", ("STRESC", False, None))
        if s in LT:
            return ("error",)
        return ("goto", rs)
    if n == "STRESC":
        if s != EOF and s in ESC:
            return ("goto", ("STR", False, None))
        if s == ord("u"):
            return ("goto", ("STRU", False, (4, "")))
        return ("error",)
    if n == "STRU":
        k, pre = x
        if s == EOF or s not in HEX:
            return ("error",)
        pre2 = pre
        if len(pre) == 0:
            pre2 = "d" if s in (ord("d"), ord("D")) else "o"
        elif len(pre) == 1:
            pre2 = pre + ("s" if (pre == "d" and chr(s) in "89abcdefABCDEF") else "o")
        if k == 1:
            if pre2.startswith("ds"):
                return ("error", "surrogate")  # documented exception: surrogate escapes are rejected
            return ("goto", ("STR", False, None))
        return ("goto", ("STRU", False, (k - 1, pre2)))
    # ---- block strings
    if n == "BLOCK":
        if s == EOF:
            return ("error",)
        if s == Q:
            return ("goto", ("BQ1", False, None))
        if s == BS:
            return ("goto", ("BESC0", False, None))
        return ("goto", rs)
    if n == "BQ1":
        if s == EOF:
            return ("error",)
        if s == Q:
            return ("goto", ("BQ2", False, None))
        if s == BS:
            return ("goto", ("BESC0", False, None))
        return ("goto", ("BLOCK", False, None))
    if n == "BQ2":
        if s == EOF:
            return ("error",)
        if s == Q:
            return ("emit", "StringValue", 0, False)
        if s == BS:
            return ("goto", ("BESC0", False, None))
        return ("goto", ("BLOCK", False, None))
    if n == "BESC0":  # after a backslash inside a block string
        if s == EOF:
            return ("error",)
        if s == Q:
            return ("goto", ("BESC1", False, None))
        if s == BS:
            return ("goto", ("BESC0", False, None))
        return ("goto", ("BLOCK", False, None))
    if n == "BESC1":  # after `\"`
        if s == EOF:
            return ("error",)
        if s == Q:
            return ("goto", ("BESC2", False, None))
        if s == BS:
            return ("goto", ("BESC0", False, None))
        return ("goto", ("BLOCK", False, None))
    if n == "BESC2":  # after `\""`
        if s == EOF:
            return ("error",)
        if s == BS:
            return ("goto", ("BESC0", False, None))
        return ("goto", ("BLOCK", False, None))
    raise AssertionError("reference state %s" % n)


# ------------------------------------------------------------------------------------ product


def show(sym):
    if sym == EOF:
        return "<EOF>"
    if 0x21 <= sym <= 0x7E:
        return chr(sym)
    return "U+%04X" % sym


def show_input(syms):
    out = ""
    for s in syms:
        if s == EOF:
            out += "<EOF>"
        elif 0x20 <= s <= 0x7E and s != 0x5C:
            out += chr(s)
        elif s == 0x0A:
            out += "\\n"
        elif s == 0x0D:
            out += "\\r"
        elif s == 0x09:
            out += "\\t"
        elif s == 0x5C:
            out += "\\\\"
        else:
            out += "\\u{%X}" % s
    return out


def explore(prog, sigma, max_configs=20000):
    """Explore the product of the extracted lexer machine and the reference machine for ONE token
    (every token starts from the same configuration: this is checked, see `leak`).  Returns
    (stats, findings) where findings are dicts with a witness input."""
    li = LexInterp(prog)
    start = (li.init_state, li.init_kind, False, None, ("S", False, None), False)
    parent = {start: None}
    queue = [start]
    findings = {}
    stats = {"configs": 0, "iterations": 0, "token_ends": 0, "impl_states": set(), "ref_states": set(), "symbols": len(sigma) + 1,
             "lookahead_forks": 0}

    def witness(key, extra):
        syms = []
        k = key
        while parent.get(k) is not None:
            pk, fed = parent[k]
            syms = list(fed) + syms
            k = pk
        return syms + list(extra)

    def add(kind, key, fed, msg):
        st = key[0].variant
        fk = "%s|%s" % (st, kind)
        if fk not in findings:
            w = witness(key, fed)
            findings[fk] = {"site": fk, "state": st, "kind": kind, "msg": msg, "input": show_input(w)}

    def run(key, feed):
        state, kind, err, pending, rs, eofseen = key
        box = {"rs": rs, "events": [], "over": 0, "last": None}

        def on_pull(s):
            r = box["rs"]
            if r == "DEAD":
                return
            if r == "DONE":
                box["over"] += 1
                return
            res = ref_step(r, s)
            box["last"] = res
            if res[0] == "goto":
                box["rs"] = res[1]
            elif res[0] == "emit":
                box["events"].append(res)
                box["rs"] = "DONE"
            else:
                box["events"].append(res)
                box["rs"] = "DEAD"

        def sur():
            return box["last"] is not None and box["last"][0] == "error" and len(box["last"]) > 1 and box["last"][1] == "surrogate"

        cur = Cur(pending, err, feed, on_pull, sur)
        cur.at_eof = eofseen  # the end of input was already seen by a look-ahead: bump() returns None
        try:
            res = li.iterate(state, EnumVal(kind.variant) if isinstance(kind, EnumVal) else kind, cur)
        except NeedMore:
            stats["lookahead_forks"] += 1
            for s2 in list(sigma) + [EOF]:
                run(key, feed + [s2])
            return
        stats["iterations"] += 1
        at_eof = cur.at_eof
        rs2 = box["rs"]
        ev = box["events"]
        if res[0] == "cont":
            nstate, nkind = res[1], res[2]
            if rs2 == "DONE":
                e = ev[0]
                add("munch", key, feed, "the lexer keeps reading in state %s where the grammar ends a %s token (%s the current character)" % (
                    state.variant, e[1], "before" if e[2] else "after"))
                return
            nk = (nstate, nkind, cur.err, cur.pending if cur.pending != "LAST" else None, rs2, cur.at_eof)
            if cur.pending == "LAST":
                add("partition", key, feed, "prev_str() pushes the current character back but the lexer keeps lexing the same token: the character is read twice")
                return
            if nk not in parent:
                if len(parent) >= max_configs:
                    raise Undecided("lexer product exploration exceeds %d configurations" % max_configs)
                parent[nk] = (key, feed)
                queue.append(nk)
            return
        # token end
        stats["token_ends"] += 1
        _e, verdict, k2, lex = res
        back = lex.back if isinstance(lex, Lexeme) else 0
        rest = isinstance(lex, Lexeme) and lex.rest
        if rest and not at_eof:
            add("partition", key, feed, "drain() takes the rest of the input as one fragment although the end of input has not been reached")
        if not at_eof:
            has_p = cur.pending is not None
            if back == 1 and not has_p:
                add("partition", key, feed, "the lexeme excludes the current character but the character is not pushed back: it is lost")
            if back == 0 and has_p and verdict == "ok":
                add("partition", key, feed, "the lexeme includes a character that is also pushed back: it is read twice")
            if box["over"]:
                add("partition", key, feed, "the lexer pulled %d character(s) beyond the end of the token without pushing them back" % box["over"])
        if verdict == "ok":
            kn = k2.variant if isinstance(k2, EnumVal) else str(k2)
            if cur.err and not at_eof:
                add("leak", key, feed, "a token is returned as Ok while a deferred error is still stored in the cursor: the next token will be reported as an error")
            if rs2 == "DEAD" or (ev and ev[0][0] == "error"):
                add("accepts-invalid", key, feed, "the lexer returns an Ok(%s) token for text that is not a valid token of the lexical grammar" % kn)
            elif rs2 != "DONE":
                add("short", key, feed, "the lexer ends an Ok(%s) token where the grammar continues the token (maximal munch / look-ahead restriction)" % kn)
            else:
                e = ev[0]
                if e[1] != kn:
                    add("kind", key, feed, "the lexer returns kind %s for a token the grammar classifies as %s" % (kn, e[1]))
                elif e[2] != back:
                    add("boundary", key, feed, "the %s token %s the current character, the grammar's token %s it" % (
                        kn, "excludes" if back else "includes", "excludes" if e[2] else "includes"))
        else:
            if rs2 == "DONE" and ev and ev[0][0] == "emit":
                add("rejects-valid", key, feed, "the lexer reports an error where the grammar has a valid %s token" % ev[0][1])
            elif rs2 not in ("DEAD", "DONE"):
                add("rejects-valid", key, feed, "the lexer reports an error on a prefix that the grammar can still complete to a valid token (reference state %s)" % rs2[0])

    while queue:
        key = queue.pop(0)
        stats["configs"] += 1
        stats["impl_states"].add(repr(key[0]))
        stats["ref_states"].add(key[4] if isinstance(key[4], str) else key[4][0])
        if key[3] is not None or key[5]:
            run(key, [])
        else:
            for s in list(sigma) + [EOF]:
                run(key, [s])
    stats["impl_states"] = sorted(stats["impl_states"])
    stats["ref_states"] = sorted(stats["ref_states"])
    return stats, list(findings.values())


EXPECTED_IMPL_STATES = 19  # variants of enum State that must be reached (EscapedUnicode counted once)


def run(prog, rep, ev=None, sigma=None):
    """C03.DFA: product exploration; one rule instance per reachable product configuration class"""
    from ..patset import CHAR_DOMAIN
    rep.floor("C03.DFA", 100)
    sigma = sigma or [int(c) for c in CHAR_DOMAIN]
    stats, fs = explore(prog, sigma)
    adv = prog.fn(r"lexer::<impl apollo_parser::lexer::cursor::Cursor<'a>>::advance$")
    reached = set(s.split("(")[0] for s in stats["impl_states"])
    st_adt = prog.adt(r"^apollo_parser::lexer::State$")
    all_states = set(v["name"] for v in st_adt["variants"])
    for s in sorted(all_states - reached):
        rep.finding("C03.DFA", adv.name, "unreachable-state:" + s, "lexer state %s is never reached from the start state over the whole alphabet: a transition into it was lost" % s, adv.loc())
    rep.instance("C03.DFA", "product of the extracted lexer machine (%d states reached: %s) and the reference machine of the lexical grammar (%d states): %d product configurations, %d transitions over %d symbols (every ASCII code point, representatives of the non-ASCII classes, end of input), %d token ends compared (kind, boundary, error/no error), %d look-ahead forks" % (
        len(stats["impl_states"]), ", ".join(stats["impl_states"]), len(stats["ref_states"]), stats["configs"], stats["iterations"], stats["symbols"], stats["token_ends"], stats["lookahead_forks"]))
    # count every compared transition as an instance (for the floor): a vacuous exploration fails
    rep.rule_counts["C03.DFA"] += stats["iterations"]
    rep.extra["dfa"] = {k: v for k, v in stats.items()}
    for f in fs:
        rep.finding("C03.DFA", adv.name, f["site"], "%s; witness input: `%s`" % (f["msg"], f["input"]), adv.loc(), detail=f)
    for key, msg in sorted(EXTRA_FINDINGS.items(), key=lambda kv: str(kv[0])):
        rep.finding("C03.DFA", adv.name, key[0], msg, adv.loc())
    EXTRA_FINDINGS.clear()
    rep.assume("Cursor primitives bump/eatc/current_str/prev_str/drain/is_pending behave as modelled over the symbolic cursor (their bodies: C02/C03.PARTITION, C01 inventory)")
    rep.assume("reference choices: SourceCharacter = any Unicode scalar value inside strings and comments; runs of ignored whitespace (TAB, SP, LF, CR, BOM) form one Whitespace token; `,` is a Comma token; braced and surrogate unicode escapes are invalid")
