"""C27 — Async execution does not depend on the schedule (DESIGN.md C27)."""
import re

from ..core import AnchorError
from ..hirq import callee_path, res_path, walk

CRATES = ["apollo_compiler"]
LEVEL = "other"
EXPLANATION = """
C27.SEQ: the only async primitives called anywhere in apollo-compiler are a closed allow-list
(now_or_never, StreamExt::next/map/enumerate, stream::iter, size_hint, Box::pin and the compiler's
own await desugaring); any combinator that polls more than one future or buffers a stream (join*,
select*, FuturesUnordered, buffered, spawn, zip, ...), any manual Future/Stream impl, any
hand-written poll call or Waker handling is a violation.  Then every `.await` is a sequential
composition, resolvers are invoked in program order and a Pending poll only suspends the one state
machine - for every schedule.  C27.SHARED: execute_sync and execute_async both reach the executor
only through execute_common; execute_sync drives it with now_or_never over MaybeAsync::Sync values.
C27.ORDER: execute_selection_set awaits execute_field inside a for-loop over the IndexMap built by
collect_fields (document order); complete_list_value awaits items one at a time.
"""

ASYNC_NS = r"^(<.* as )?(futures|futures_util|futures_core|futures_channel|futures_executor|tokio|async_std|smol|rayon|crossbeam|core::future|std::future|core::task|std::task|std::thread|std::sync::mpsc)\b"
ALLOWED = [
    r"^futures::FutureExt::now_or_never$",
    r"^futures::StreamExt::(next|map|enumerate)$",
    r"^futures::stream::iter$",
    r"^futures::Stream::size_hint$",
    r"^<std::pin::Pin<P> as futures::Stream>::size_hint$",
]
DESUGAR_ONLY = [
    r"^std::future::IntoFuture::into_future$",
    r"^<F as std::future::IntoFuture>::into_future$",
    r"^futures::Future::poll$",
    r"^<.* as futures::Future>::poll$",
    r"^std::future::get_context$",
    r"^core::future::get_context$",
]


def rule_seq(prog, rep):
    rep.floor("C27.SEQ", 6)
    seen = {}
    for fn in prog.fns.values():
        for c in fn.live_calls():
            for n in {c.name, c.orig_name}:
                is_async = re.search(ASYNC_NS, n) or re.search(r" as (futures|futures_core|futures_util|core::future|std::future)", n) or n.split("::")[-1].startswith("poll")
                if not is_async:
                    continue
                if re.search(r"FutureExt::now_or_never$", n) and not re.search(r"resolvers::Execution::<'a>::execute_sync$", fn.name):
                    # polling once and dropping the future when it is pending is schedule-dependent
                    # by construction; the only legitimate user is execute_sync, which drives a
                    # future that contains no pending resolver at all
                    rep.finding("C27.SEQ", fn.name, "now-or-never",
                                "`now_or_never()` outside execute_sync: a future that is pending on its first poll is dropped (what the resolver did before suspending is lost, or repeated if the call is made again), so the response and the resolver call order depend on the schedule", c.loc())
                    continue
                if any(re.search(a, n) for a in ALLOWED):
                    seen.setdefault(n, 0)
                    seen[n] += 1
                    continue
                if c.expn and any(re.search(a, n) for a in DESUGAR_ONLY):
                    seen.setdefault(n + " (await desugaring)", 0)
                    seen[n + " (await desugaring)"] += 1
                    continue
                rep.finding("C27.SEQ", fn.name, "async-call:" + n.split("::")[-1],
                            "call to `%s`, which is outside the allow-list of sequential async primitives: a combinator that polls several futures (or a hand-written poll) lets the schedule decide the order resolvers run in" % n, c.loc())
    for n, k in sorted(seen.items()):
        rep.instance("C27.SEQ", "%s x%d" % (n, k))
    for imp in prog.impls.values():
        if re.search(r"(future::Future|futures::Future|Stream|task::Wake|future::IntoFuture)$", imp.get("trait") or ""):
            sp = imp.get("span")
            rep.finding("C27.SEQ", "impl %s for %s" % (imp["trait"], imp["self"]), "manual-future-impl",
                        "hand-written %s implementation: its poll order is not sequential composition" % imp["trait"], "%s:%d" % (sp[0], sp[1]) if sp else None)
    rep.instance("C27.SEQ", "no manual Future/Stream/Wake impl among %d impls" % len(prog.impls))


def rule_shared(prog, rep):
    rep.floor("C27.SHARED", 3)
    cg = prog.callgraph()
    ess = prog.fn(r"^apollo_compiler::resolvers::execution::execute_selection_set$")
    common = prog.fn(r"^apollo_compiler::resolvers::Execution::<'a>::execute_common$")
    common_co = prog.fn(r"^apollo_compiler::resolvers::Execution::<'a>::execute_common::\{closure#0\}$")
    sync = prog.fn(r"^apollo_compiler::resolvers::Execution::<'a>::execute_sync$")
    asy = prog.fn(r"^apollo_compiler::resolvers::Execution::<'a>::execute_async::\{closure#0\}$")
    callers = set(u for u in cg if ess.uid in cg[u])
    ok_callers = {common_co.uid, prog.fn(r"^apollo_compiler::resolvers::result_coercion::complete_value::\{closure#0\}$").uid}
    extra = callers - ok_callers
    if extra:
        for u in extra:
            rep.finding("C27.SHARED", prog.fns[u].name, "executor-entry", "execute_selection_set is entered from outside execute_common / complete_value: sync and async execution may no longer share one code path", prog.fns[u].loc())
    else:
        rep.instance("C27.SHARED", "execute_selection_set callers: execute_common, complete_value (recursion)")
    for f in (sync, asy):
        if common.uid in cg[f.uid]:
            rep.instance("C27.SHARED", "%s calls execute_common" % f.name)
        else:
            rep.finding("C27.SHARED", f.name, "not-via-common", "does not go through execute_common", f.loc())
    # execute_sync: now_or_never on that future, only MaybeAsync::Sync built
    non = [c for c in sync.live_calls() if re.search(r"FutureExt::now_or_never$", c.name)]
    if len(non) != 1 or "execute_common(" not in sync.sym(non[0].args[0]):
        rep.finding("C27.SHARED", sync.name, "now_or_never", "execute_sync does not drive execute_common's future with now_or_never", sync.loc())
    else:
        rep.instance("C27.SHARED", "execute_sync: execute_common(..).now_or_never()")
    variants = set()
    for b in sync.live_blocks():
        for s in sync.stmts(b):
            if s[0] == "=" and s[2][0] == "agg" and isinstance(s[2][1], list) and s[2][1][1].endswith("resolvers::MaybeAsync"):
                variants.add(s[2][1][2])
    if variants == {"Sync"}:
        rep.instance("C27.SHARED", "execute_sync builds only MaybeAsync::Sync")
    else:
        rep.finding("C27.SHARED", sync.name, "maybe-async", "execute_sync builds MaybeAsync variants %s" % sorted(variants), sync.loc())


def _contains_await_of(node, callee_re):
    """is there an `.await` (match with src=await) whose operand contains a call to callee_re?"""
    for n in walk(node, into_closures=False):
        if n.get("k") == "match" and n.get("src") == "await":
            for m in walk(n["scrut"], into_closures=False):
                cp = callee_path(m) if m.get("k") in ("call", "mcall") else None
                if cp and re.search(callee_re, cp):
                    return True
    return False


def rule_order(prog, rep):
    rep.floor("C27.ORDER", 2)
    ess = prog.fn(r"^apollo_compiler::resolvers::execution::execute_selection_set$")
    body = prog.hir_body(ess)["body"]
    # the grouped field set is an IndexMap filled by collect_fields
    # (identified as the local handed to collect_fields as its output map, whatever its name)
    gty, gid, gname = None, None, None
    for m in walk(body):
        if m.get("k") == "call" and callee_path(m) and callee_path(m).endswith("execution::collect_fields") and m.get("args"):
            for q in walk(m["args"][-1]):
                if q.get("k") == "path" and q.get("res") and q["res"][0] == "local":
                    gid, gname = q["res"][2], q["res"][1]
    for n in walk(body):
        if n.get("k") == "slet" and n["pat"].get("k") == "bind" and n["pat"].get("id") == gid:
            gty = n["pat"].get("ty")
    found = False
    for n in walk(body):
        if n.get("k") == "match" and n.get("src") == "for":
            # scrutinee: IntoIterator::into_iter(&grouped_field_set)
            it = n["scrut"]
            if not (it.get("k") == "call" and (callee_path(it) or "").endswith("IntoIterator::into_iter")):
                continue  # the inner `match Iterator::next(&mut iter)` of the same desugaring
            src, src_id = None, None
            for m in walk(it):
                if m.get("k") == "path" and res_path(m.get("res")) and res_path(m["res"]).startswith("local:"):
                    src = res_path(m["res"])[6:]
                    src_id = m["res"][2]
            loop_has_await = _contains_await_of(n, r"resolvers::execution::execute_field$")
            if loop_has_await:
                found = True
                ty_ok = gty is not None and re.match(r"^indexmap::IndexMap<", gty)
                if gid is not None and src_id == gid and ty_ok:
                    rep.instance("C27.ORDER", "execute_selection_set: `for .. in &grouped_field_set` (IndexMap, document order) awaits execute_field inside the loop body")
                else:
                    rep.finding("C27.ORDER", ess.name, "field-loop-source", "the loop that awaits execute_field iterates `%s` of type %s, not the IndexMap built by collect_fields (document order)" % (src, gty), ess.loc())
    if not found:
        rep.finding("C27.ORDER", ess.name, "field-loop", "no for-loop awaiting execute_field one field at a time found in execute_selection_set", ess.loc())
    # collect_fields fills that same map
    cf = [m for m in walk(body) if m.get("k") == "call" and callee_path(m) and callee_path(m).endswith("execution::collect_fields")]
    if not cf:
        rep.finding("C27.ORDER", ess.name, "collect-fields", "execute_selection_set no longer calls collect_fields", ess.loc())
    # complete_list_value: while-let over stream.next().await with complete_value(..).await inside
    clv = prog.fn(r"^apollo_compiler::resolvers::result_coercion::complete_list_value$")
    body = prog.hir_body(clv)["body"]
    ok = False
    for n in walk(body):
        if n.get("k") == "loop" and n.get("src") in ("While", "Loop"):
            if _contains_await_of(n, r"StreamExt::next$") and _contains_await_of(n, r"result_coercion::complete_value$"):
                ok = True
    if ok:
        rep.instance("C27.ORDER", "complete_list_value: `while let Some(..) = stream.next().await` completes one item at a time")
    else:
        rep.finding("C27.ORDER", clv.name, "item-loop", "complete_list_value does not await items one at a time in a loop", clv.loc())


def run(prog, rep):
    rule_seq(prog, rep)
    rule_shared(prog, rep)
    rule_order(prog, rep)
    rep.assume("futures::StreamExt::next / FutureExt::now_or_never / stream::iter behave as documented (poll exactly the one underlying future/stream)")
