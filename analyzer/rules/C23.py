"""C23 — Schema coordinates parse, print and resolve correctly (DESIGN.md C23).

The five FromStr implementations are tiny straight-line parsers made of `split_once(char)`,
`strip_prefix(char)`, literal comparison, `Name::try_from` and calls to each other.  They are
interpreted *symbolically* (from the type-checked HIR) over templates - strings made of Name holes
and literal delimiters - obtained from the five Display implementations' format templates.  Because
no delimiter is a Name character (checked against Name::is_name_start / is_name_continue), this
interpretation is exact: parse(print(c)) == c for every coordinate c, the dispatcher picks the
right variant, and - since every piece produced by a split is consumed exactly once by a Name
check, a sub-parser or a literal comparison - a string is accepted only if it has the printed form.
Lookup is decided as decision tables over ExtendedType variants and argument provenance."""
import re

from ..core import AnchorError, Undecided
from ..hirq import decode_fmt_template, fmt_calls, walk
from ..flow import _strip
from ..tables import enum_paths, return_value_on_path

CRATES = ["apollo_compiler"]
LEVEL = "other"
EXPLANATION = __doc__

KINDS = ["TypeCoordinate", "TypeAttributeCoordinate", "FieldArgumentCoordinate", "DirectiveCoordinate", "DirectiveArgumentCoordinate"]
VARIANT = {"TypeCoordinate": "Type", "TypeAttributeCoordinate": "TypeAttribute", "FieldArgumentCoordinate": "FieldArgument",
           "DirectiveCoordinate": "Directive", "DirectiveArgumentCoordinate": "DirectiveArgument"}
# the RFC's five forms, as (field | literal) sequences
SPEC = {
    "TypeCoordinate": [("hole", "ty")],
    "TypeAttributeCoordinate": [("hole", "ty"), ("lit", "."), ("hole", "attribute")],
    "FieldArgumentCoordinate": [("hole", "ty"), ("lit", "."), ("hole", "field"), ("lit", "("), ("hole", "argument"), ("lit", ":)")],
    "DirectiveCoordinate": [("lit", "@"), ("hole", "directive")],
    "DirectiveArgumentCoordinate": [("lit", "@"), ("hole", "directive"), ("lit", "("), ("hole", "argument"), ("lit", ":)")],
}


class ParseFail(Exception):
    pass


def norm(t):
    """merge adjacent literals, drop empty ones"""
    out = []
    for it in t:
        if it[0] == "lit":
            if not it[1]:
                continue
            if out and out[-1][0] == "lit":
                out[-1] = ("lit", out[-1][1] + it[1])
                continue
        out.append(it)
    return out


def split_once(t, ch):
    """first occurrence of delimiter ch in template t (holes never contain ch)"""
    for i, it in enumerate(t):
        if it[0] == "lit" and ch in it[1]:
            j = it[1].index(ch)
            left = norm(t[:i] + [("lit", it[1][:j])])
            right = norm([("lit", it[1][j + 1:])] + t[i + 1:])
            return left, right
    return None


class Interp:
    """symbolic interpreter of the FromStr bodies"""

    def __init__(self, prog, rep):
        self.prog = prog
        self.rep = rep
        self.bodies = {}
        self.delims = set()
        self.dropped = []  # (kind, binding) pieces never consumed
        self.lossy = []  # (kind, method, pattern) operations that discard an unchecked number of delimiters
        for k in KINDS + ["SchemaCoordinate"]:
            fn = prog.fn(r"^<apollo_compiler::coordinate::%s as std::str::FromStr>::from_str$" % k)
            self.bodies[k] = (fn, prog.hir_body(fn))

    # ---- expression evaluation -> template | struct dict
    def run(self, kind, template):
        fn, body = self.bodies[kind]
        params = body["params"]
        if len(params) != 1 or params[0].get("k") != "bind":
            raise Undecided("from_str of %s: unexpected parameters" % kind)
        env = {params[0]["id"]: ("str", list(template))}
        used = {}
        try:
            v = self.block(kind, body["body"], env, used)
        except _Return as r:
            v = r.value
        if v[0] == "err":
            raise ParseFail(v[1])
        if v[0] != "ok":
            raise Undecided("from_str of %s does not evaluate to Ok/Err" % kind)
        # pieces bound but never consumed
        for lid, (nm, n) in used.items():
            if n == 0:
                self.dropped.append((kind, nm))
        return v[1]

    def block(self, kind, b, env, used):
        if b.get("k") != "block":
            return self.expr(kind, b, env, used)
        for st in b.get("stmts") or []:
            k = st.get("k")
            if k == "slet":
                self.slet(kind, st, env, used)
            elif k == "semi":
                self.expr(kind, st["e"], env, used)
            elif k == "if":
                # a guard clause: `if <cond> { return Err(..) }` (no value, else optional)
                c = st["cond"]
                if c.get("k") == "let":
                    val = self.expr(kind, c["init"], env, used)
                    ok = self.bind_pat(kind, c["pat"], val, env, used)
                else:
                    v = self.expr(kind, c, env, used)
                    if v[0] != "bool":
                        raise Undecided("if condition is not a recognised boolean")
                    ok = v[1]
                br = st["then"] if ok else st.get("else")
                if br is not None:
                    self.block(kind, br, env, used) if br.get("k") == "block" and br.get("expr") is not None else self._stmts_only(kind, br, env, used)
            else:
                raise Undecided("from_str of %s: statement kind %s" % (kind, k))
        if b.get("expr") is None:
            raise Undecided("from_str of %s: block without tail expression" % kind)
        return self.expr(kind, b["expr"], env, used)

    def _stmts_only(self, kind, b, env, used):
        """a block evaluated for its effects (early return): no tail expression required"""
        if b.get("k") != "block":
            self.expr(kind, b, env, used)
            return
        b2 = dict(b)
        if b2.get("expr") is None:
            b2["expr"] = {"k": "lit", "v": None}
        self.block(kind, b2, env, used)

    def bind_pat(self, kind, pat, val, env, used):
        """bind pattern against a value; returns False if a literal pattern does not match"""
        k = pat.get("k")
        if k == "bind":
            env[pat["id"]] = val
            if val[0] == "str":
                used[pat["id"]] = (pat["name"], 0)
            return True
        if k == "lit" and pat.get("t") == "str":
            if val[0] != "str":
                raise Undecided("literal pattern against a non-string")
            return norm(val[1]) == norm([("lit", pat["v"])])
        if k == "_":
            if val[0] == "str":
                self.dropped.append((kind, "_"))
            return True
        if k == "tuple":
            if val[0] != "tuple" or len(val[1]) != len(pat["pats"]):
                raise Undecided("tuple pattern shape")
            return all(self.bind_pat(kind, p, v, env, used) for p, v in zip(pat["pats"], val[1]))
        if k == "tstruct" and pat["res"][2].endswith("Some"):
            if val[0] == "none":
                return False
            if val[0] != "some":
                raise Undecided("Some(..) pattern against %s" % val[0])
            return self.bind_pat(kind, pat["subs"][0], val[1], env, used)
        if k in ("path", "tstruct") and pat.get("res") and str(pat["res"][2]).endswith("None"):
            if val[0] not in ("none", "some"):
                raise Undecided("None pattern against %s" % val[0])
            return val[0] == "none"
        raise Undecided("from_str of %s: pattern kind %s" % (kind, k))

    def slet(self, kind, st, env, used):
        val = self.expr(kind, st["init"], env, used)
        ok = self.bind_pat(kind, st["pat"], val, env, used)
        if not ok:
            if st.get("els") is None:
                raise Undecided("refutable let without else")
            v = self.block(kind, st["els"], env, used)
            raise Undecided("let-else block fell through") if v is not None else None

    def use(self, lid, env, used):
        if lid not in env:
            raise Undecided("unknown local")
        if lid in used:
            nm, n = used[lid]
            used[lid] = (nm, n + 1)
        return env[lid]

    def expr(self, kind, e, env, used):
        k = e.get("k")
        if k == "block":
            return self.block(kind, e, env, used)
        if k == "path":
            r = e.get("res")
            if r and r[0] == "local":
                return self.use(r[2], env, used)
            if r and r[0] == "def" and r[2].endswith("SchemaCoordinateParseError::InvalidFormat"):
                return ("errval", "InvalidFormat")
            raise Undecided("path %s" % (r,))
        if k == "lit":
            return ("litval", e.get("v"))
        if k == "un" and e.get("op") in ("!", "Not", "not"):
            v = self.expr(kind, e.get("e") or e.get("a"), env, used)
            if v[0] != "bool":
                raise Undecided("negation of a non-boolean")
            return ("bool", not v[1])
        if k == "ret":
            raise _Return(self.expr(kind, e["e"], env, used))
        if k == "call":
            c = e.get("callee")
            cp = c[2] if c and c[0] == "def" else None
            if cp and cp.endswith("::Ok"):
                return ("ok", self.expr(kind, e["args"][0], env, used))
            if cp and cp.endswith("::Err"):
                return ("err", self.expr(kind, e["args"][0], env, used))
            if cp and cp.endswith("FromResidual::from_residual"):
                return ("err", "residual")
            if cp and cp.endswith("Try::branch"):
                return self.expr(kind, e["args"][0], env, used)
            if cp and cp.endswith("TryFrom::try_from"):
                v = self.expr(kind, e["args"][0], env, used)
                if v[0] != "str":
                    raise Undecided("try_from of a non-string")
                t = norm(v[1])
                if len(t) == 1 and t[0][0] == "hole":
                    return ("res_ok", ("name", t[0][1]))
                return ("res_err", "InvalidName")
            if cp and cp.endswith("FromStr::from_str"):
                v = self.expr(kind, e["args"][0], env, used)
                if v[0] != "str":
                    raise Undecided("from_str of a non-string")
                return ("pending_from_str", v[1])
            if cp and cp.startswith("apollo_compiler::coordinate::") and c[1] in ("Fn", "AssocFn"):
                # a local helper: interpret its body on the same symbolic values
                bodies = [b for b in self.prog.hir("apollo_compiler").values() if b["name"] == cp]
                if len(bodies) != 1:
                    raise Undecided("helper %s not found" % cp)
                hb = bodies[0]
                args = [self.expr(kind, a, env, used) for a in e["args"]]
                env2 = {}
                for p, a in zip(hb["params"], args):
                    if not self.bind_pat(kind, p, a, env2, used):
                        raise Undecided("helper parameter pattern")
                try:
                    return self.block(kind, hb["body"], env2, used)
                except _Return as r:
                    return r.value
            raise Undecided("from_str of %s: call to %s" % (kind, cp))
        if k == "tup":
            return ("tuple", [self.expr(kind, x, env, used) for x in e["es"]])
        if k == "mcall":
            cal = e.get("callee") or ""
            recv = self.expr(kind, e["recv"], env, used)
            if cal.endswith("str>::split_once") or cal.endswith("str>::strip_prefix") or cal.endswith("str>::starts_with"):
                a = e["args"][0]
                if not (a.get("k") == "lit" and a.get("t") == "char"):
                    raise Undecided("delimiter is not a char literal")
                ch = chr(a["v"])
                self.delims.add(ch)
                if recv[0] != "str":
                    raise Undecided("%s on a non-string" % cal)
                t = norm(recv[1])
                if cal.endswith("split_once"):
                    r = split_once(t, ch)
                    return ("none",) if r is None else ("some", ("tuple", [("str", r[0]), ("str", r[1])]))
                starts = bool(t) and t[0][0] == "lit" and t[0][1].startswith(ch)
                if cal.endswith("starts_with"):
                    # a peek: does not consume the piece
                    r0 = e["recv"].get("res")
                    if r0 and r0[0] == "local" and r0[2] in used:
                        nm, n = used[r0[2]]
                        used[r0[2]] = (nm, n - 1)
                    return ("bool", starts)
                return ("some", ("str", norm([("lit", t[0][1][1:])] + t[1:]))) if starts else ("none",)
            if re.search(r"str>::(strip_suffix|trim_end_matches|trim_start_matches|ends_with|trim_matches)$", cal):
                a = e["args"][0]
                if not (a.get("k") == "lit" and a.get("t") in ("char", "str")):
                    raise Undecided("pattern argument of %s is not a literal" % cal)
                pat = chr(a["v"]) if a["t"] == "char" else a["v"]
                for ch in pat:
                    self.delims.add(ch)
                if recv[0] != "str" or not pat:
                    raise Undecided("%s on a non-string" % cal)
                t = norm(recv[1])

                def ends(tt):
                    return bool(tt) and tt[-1][0] == "lit" and tt[-1][1].endswith(pat)

                def starts(tt):
                    return bool(tt) and tt[0][0] == "lit" and tt[0][1].startswith(pat)

                def cut_end(tt):
                    return norm(tt[:-1] + [("lit", tt[-1][1][:-len(pat)])])

                def cut_start(tt):
                    return norm([("lit", tt[0][1][len(pat):])] + tt[1:])

                m = cal.split("::")[-1]
                if m == "ends_with":
                    r0 = e["recv"].get("res")
                    if r0 and r0[0] == "local" and r0[2] in used:
                        nm, n = used[r0[2]]
                        used[r0[2]] = (nm, n - 1)
                    return ("bool", ends(t))
                if m == "strip_suffix":
                    return ("some", ("str", cut_end(t))) if ends(t) else ("none",)
                # trim_* removes zero or more occurrences: the text is accepted with the delimiter
                # missing or repeated, which no later check can recover
                self.lossy.append((kind, m, pat))
                if m in ("trim_end_matches", "trim_matches"):
                    while ends(t):
                        t = cut_end(t)
                if m in ("trim_start_matches", "trim_matches"):
                    while starts(t):
                        t = cut_start(t)
                return ("str", t)
            if cal.endswith("Result::<T, E>::map"):
                ctor = e["args"][0]
                r = ctor.get("res")
                if not (ctor.get("k") == "path" and r and r[0] == "def" and "SchemaCoordinate::" in r[2]):
                    raise Undecided("Result::map with something else than a SchemaCoordinate constructor")
                return ("mapped", recv, r[2].split("::")[-1])
            if cal.endswith("Result::<T, E>::or_else"):
                clo = e["args"][0]
                if clo.get("k") != "closure" or clo["params"][0].get("k") != "_":
                    raise Undecided("or_else with a closure that inspects the error")
                return ("alts", recv, clo["body"], dict(env))
            raise Undecided("from_str of %s: method %s" % (kind, cal))
        if k == "match" and e.get("src") == "try":
            v = self.expr(kind, e["scrut"], env, used)
            want = e.get("sty", "").rstrip(">").split(", ")[-1].split("::")[-1]
            if v[0] == "pending_from_str":
                if want not in KINDS:
                    raise Undecided("`?` on from_str of unknown type %s" % want)
                try:
                    return ("struct", want, self.run(want, v[1]))
                except ParseFail as pf:
                    raise _Return(("err", str(pf)))
            if v[0] == "res_ok":
                return v[1]
            if v[0] == "res_err":
                raise _Return(("err", v[1]))
            if v[0] == "ok":
                return v[1]
            if v[0] == "err":
                raise _Return(("err", v[1]))
            if v[0] == "some":
                return v[1]
            if v[0] == "none":
                raise _Return(("none",))
            raise Undecided("`?` on %s" % v[0])
        if k == "field":
            v = self.expr(kind, e["e"], env, used)
            if v[0] != "struct":
                raise Undecided("field access on a non-struct")
            return v[2][e["name"]]
        if k == "struct":
            out = {}
            for fname, fe in e["fields"]:
                out[fname] = self.expr(kind, fe, env, used)
            return out
        if k == "if":
            c = e["cond"]
            if c.get("k") == "let":
                val = self.expr(kind, c["init"], env, used)
                ok = self.bind_pat(kind, c["pat"], val, env, used)
            else:
                v = self.expr(kind, c, env, used)
                if v[0] != "bool":
                    raise Undecided("if condition is not a recognised boolean")
                ok = v[1]
            br = e["then"] if ok else e.get("else")
            if br is None:
                raise Undecided("if without else")
            return self.block(kind, br, env, used)
        if k == "match" and e.get("src") == "normal":
            # an ordinary match over an Option / tuple of pieces: first arm whose pattern binds
            val = self.expr(kind, e["scrut"], env, used)
            for arm in e["arms"]:
                if arm.get("guard") is not None:
                    raise Undecided("from_str of %s: match guard" % kind)
                env2, used2 = dict(env), dict(used)
                if self.bind_pat(kind, arm["pat"], val, env2, used2):
                    env.update(env2)
                    used.update(used2)
                    return self.expr(kind, arm["body"], env, used)
            raise Undecided("from_str of %s: no match arm applies" % kind)
        raise Undecided("from_str of %s: expression kind %s" % (kind, k))

    def dispatch(self, template):
        """run SchemaCoordinate::from_str on a template: -> (variant, struct) of the first
        alternative that succeeds"""
        fn, body = self.bodies["SchemaCoordinate"]
        env = {body["params"][0]["id"]: ("str", list(template))}
        used = {}
        v = self.block("SchemaCoordinate", body["body"], env, used)
        return self.resolve_alts(v, used)

    def resolve_alts(self, v, used):
        if v[0] == "alts":
            try:
                return self.resolve_alts(v[1], used)
            except ParseFail:
                nv = self.expr("SchemaCoordinate", v[2], v[3], used)
                return self.resolve_alts(nv, used)
        if v[0] == "mapped":
            inner, variant = v[1], v[2]
            if inner[0] != "pending_from_str":
                raise Undecided("mapped value is not a from_str call")
            # which type? the variant's payload type
            kind = [k for k, vv in VARIANT.items() if vv == variant]
            if not kind:
                raise Undecided("unknown SchemaCoordinate variant %s" % variant)
            return variant, self.run(kind[0], inner[1])
        raise Undecided("dispatcher alternative of shape %s" % v[0])


class _Return(Exception):
    def __init__(self, value):
        self.value = value


def display_template(prog, kind):
    """[(hole, field) | (lit, s)] of `impl Display for <kind>` with holes mapped to struct fields
    through the destructuring `let Self { .. } = self`"""
    fn = prog.fn(r"^<apollo_compiler::coordinate::%s as std::fmt::Display>::fmt$" % kind)
    body = prog.hir_body(fn)
    fcs = fmt_calls(body["body"])
    if len(fcs) != 1 or fcs[0][1] is None:
        raise Undecided("Display for %s: expected one write! with a decodable template" % kind)
    node, pieces = fcs[0]
    # binding name -> field through the let pattern
    b2f = {}
    for n in walk(body["body"]):
        if n.get("k") == "slet" and n["pat"].get("k") == "struct":
            for fname, p in n["pat"]["fields"]:
                if p.get("k") == "bind":
                    b2f[p["name"]] = fname
                else:
                    raise Undecided("Display for %s: non-binding field pattern" % kind)
            if n["pat"].get("rest"):
                raise Undecided("Display for %s ignores fields with `..`" % kind)
    # argument order: the args array of Arguments::new: &[Argument::new_display(&x), ..]
    # (desugaring: `let args = (&a, &b); let args = [Argument::new_display(args.0), ..];`)
    args = []
    tup = None
    for n in walk(body["body"]):
        if n.get("k") == "slet" and n.get("init", {}).get("k") == "tup" and n["pat"].get("name") == "args":
            tup = []
            for e in n["init"]["es"]:
                loc = [m for m in walk(e) if m.get("k") == "path" and m.get("res") and m["res"][0] == "local"]
                if len(loc) != 1:
                    raise Undecided("Display for %s: format argument is not a plain local" % kind)
                tup.append(loc[0]["res"][1])
        if n.get("k") == "slet" and n.get("init", {}).get("k") == "array" and n["pat"].get("name") == "args":
            for e in n["init"]["es"]:
                cp = e.get("callee")[2] if e.get("k") == "call" and e.get("callee") and e["callee"][0] == "def" else ""
                if not cp.endswith("Argument::<'_>::new_display"):
                    raise Undecided("Display for %s formats a field with %s, not Display" % (kind, cp))
                a = e["args"][0]
                if a.get("k") == "field" and tup is not None and a["name"].isdigit():
                    args.append(tup[int(a["name"])])
                else:
                    raise Undecided("Display for %s: unrecognised format argument shape" % kind)
    out = []
    ai = 0
    for p in pieces:
        if p[0] == "lit":
            out.append(("lit", p[1]))
        else:
            if len(p) > 1 and p[1]:
                raise Undecided("Display for %s uses format options %s" % (kind, p[1]))
            if ai >= len(args):
                raise Undecided("Display for %s: more placeholders than arguments" % kind)
            nm = args[ai]
            ai += 1
            if nm not in b2f:
                raise Undecided("Display for %s: placeholder `%s` is not a destructured field" % (kind, nm))
            out.append(("hole", b2f[nm]))
    return fn, norm(out)


def rule_grammar(prog, rep):
    rep.floor("C23.PRINT", 5)
    rep.floor("C23.ROUNDTRIP", 5)
    rep.floor("C23.DISPATCH", 5)
    it = Interp(prog, rep)
    templates = {}
    for k in KINDS:
        fn, t = display_template(prog, k)
        templates[k] = t
        ok = t == norm(SPEC[k])
        rep.obligation(ok)
        if ok:
            rep.instance("C23.PRINT", "Display for %s = %s" % (k, "".join("{%s}" % x[1] if x[0] == "hole" else x[1] for x in t)))
        else:
            rep.finding("C23.PRINT", fn.name, "template", "Display for %s prints `%s`, the coordinate form is `%s`" % (
                k, "".join("{%s}" % x[1] if x[0] == "hole" else x[1] for x in t), "".join("{%s}" % x[1] if x[0] == "hole" else x[1] for x in SPEC[k])), fn.loc())
    for k in KINDS:
        fn = it.bodies[k][0]
        tpl = norm(SPEC[k])
        try:
            st = it.run(k, tpl)
            got = {f: (v[1] if isinstance(v, tuple) and v[0] == "name" else v) for f, v in st.items()}
            want = {x[1]: x[1] for x in tpl if x[0] == "hole"}
            ok = got == want
            why = "fields %s" % got
        except ParseFail as pf:
            ok, why = False, "rejected (%s)" % pf
        rep.obligation(ok)
        if ok:
            rep.instance("C23.ROUNDTRIP", "%s::from_str(print(c)) == c for every c (symbolic: %s)" % (k, sorted(want)))
        else:
            rep.finding("C23.ROUNDTRIP", fn.name, "parse-of-printed", "parsing the printed form of a %s gives %s instead of the original fields" % (k, why), fn.loc())
        # strictness: near-miss templates must be rejected by this parser
        misses = []
        holes = [i for i, x in enumerate(tpl) if x[0] == "hole"]
        for i in holes:  # a hole that is empty
            misses.append(("empty %s" % tpl[i][1], norm(tpl[:i] + tpl[i + 1:])))
        for d in sorted(it.delims | set(".(:)@")):
            misses.append(("trailing `%s`" % d, norm(tpl + [("lit", d)])))
            misses.append(("leading `%s`" % d, norm([("lit", d)] + tpl)))
        for i, x in enumerate(tpl):
            if x[0] == "lit":
                misses.append(("`%s` missing" % x[1], norm(tpl[:i] + tpl[i + 1:])))
                misses.append(("`%s` repeated" % x[1], norm(tpl[:i] + [x, x] + tpl[i + 1:])))
                for j in range(len(x[1])):
                    if len(x[1]) > 1:
                        misses.append(("`%s` without its `%s`" % (x[1], x[1][j]), norm(tpl[:i] + [("lit", x[1][:j] + x[1][j + 1:])] + tpl[i + 1:])))
        if tpl[-1][0] == "lit" and len(tpl[-1][1]) > 1:
            misses.append(("truncated suffix", norm(tpl[:-1] + [("lit", tpl[-1][1][:-1])])))
            misses.append(("junk before `)`", norm(tpl[:-1] + [("lit", tpl[-1][1][:-1]), ("hole", "junk"), ("lit", tpl[-1][1][-1])])))
        for what, m in misses:
            if m == tpl:
                continue
            try:
                it.run(k, m)
                acc = True
            except ParseFail:
                acc = False
            rep.obligation(not acc)
            if acc:
                rep.finding("C23.STRICT", fn.name, "accepts:" + what, "%s::from_str accepts `%s` (%s), which is not a %s" % (
                    k, "".join("{%s}" % x[1] if x[0] == "hole" else x[1] for x in m), what, k), fn.loc())
            else:
                rep.instance("C23.STRICT", "%s rejects %s" % (k, what))
    # dispatcher
    disp = it.bodies["SchemaCoordinate"][0]
    for k in KINDS:
        tpl = norm(SPEC[k])
        try:
            variant, st = it.dispatch(tpl)
            got = {f: (v[1] if isinstance(v, tuple) and v[0] == "name" else v) for f, v in st.items()}
            ok = variant == VARIANT[k] and got == {x[1]: x[1] for x in tpl if x[0] == "hole"}
            why = "%s %s" % (variant, got)
        except ParseFail as pf:
            ok, why = False, "rejected (%s)" % pf
        rep.obligation(ok)
        if ok:
            rep.instance("C23.DISPATCH", "SchemaCoordinate::from_str(`%s`) = %s" % ("".join("{%s}" % x[1] if x[0] == "hole" else x[1] for x in tpl), VARIANT[k]))
        else:
            rep.finding("C23.DISPATCH", disp.name, "variant:" + VARIANT[k], "SchemaCoordinate::from_str on the printed form of a %s gives %s" % (k, why), disp.loc())
    # every piece consumed exactly once
    rep.floor("C23.CONSUME", 1)
    for kind, m, pat in sorted(set(it.lossy)):
        fn = it.bodies[kind][0]
        rep.finding("C23.CONSUME", fn.name, "lossy:%s:%s" % (m, pat), "%s::from_str removes `%s` with %s, which accepts the text with the delimiter missing or repeated" % (kind, pat, m), fn.loc())
    if it.dropped:
        for kind, nm in sorted(set(it.dropped)):
            fn = it.bodies[kind][0]
            rep.finding("C23.CONSUME", fn.name, "dropped:" + nm, "%s::from_str never checks the piece `%s` it split off: arbitrary text is accepted there" % (kind, nm), fn.loc())
    elif not it.lossy:
        rep.instance("C23.CONSUME", "every piece produced by split_once/strip_prefix is consumed by a Name check, a sub-parser or a literal comparison")
    return it


def rule_delims(prog, rep, it):
    rep.floor("C23.DELIMS", 1)
    from ..patset import Evaluator, byte_set
    ev = Evaluator(prog, "apollo_compiler")
    bad = []
    for fname in ("apollo_compiler::name::Name::is_name_continue", "apollo_compiler::name::Name::is_name_start"):
        s = byte_set(ev, fname)
        for d in sorted(it.delims | set(".(:)@")):
            if ord(d) in s:
                bad.append((d, fname))
    rep.obligation(not bad)
    if bad:
        for d, f in bad:
            rep.finding("C23.DELIMS", f, "delimiter:" + d, "the coordinate delimiter `%s` is accepted by %s: a Name could contain it and split_once would cut a name in two" % (d, f), None)
    else:
        rep.instance("C23.DELIMS", "delimiters %s are outside is_name_start / is_name_continue" % sorted(it.delims | set(".(:)@")))


def rule_names(prog, rep):
    """no unchecked Name constructor in coordinate.rs outside the const-checked macro"""
    rep.floor("C23.NAMES", 1)
    n = 0
    for fn in prog.fns.values():
        if not fn.file.endswith("coordinate.rs"):
            continue
        for c in fn.live_calls():
            if re.search(r"Name::(new_unchecked|new_static_unchecked|from_arc_unchecked)$", c.name):
                rep.finding("C23.NAMES", fn.name, "unchecked", "coordinate code builds a Name with %s" % c.name.split("::")[-1], c.loc())
                n += 1
    if n == 0:
        rep.instance("C23.NAMES", "no unchecked Name constructor is called in coordinate.rs; parsed names come from Name::try_from (C10.GATE)")


LOOKUP_TABLE = {
    "Enum": ("values", "EnumValue"),
    "InputObject": ("fields", "InputField"),
    "Object": ("fields", "Field"),
    "Interface": ("fields", "Field"),
    "Union": (None, "InvalidType"),
    "Scalar": (None, "InvalidType"),
}


def _plain(s):
    """drop borrow/deref noise from a symbolic value: `&*<Node<T> as Deref>::deref(&x)` -> `x`"""
    if s is None:
        return ""
    prev = None
    while prev != s:
        prev = s
        s = re.sub(r"<[^<>]*(<[^<>]*>)?[^<>]* as Deref>::deref\(([^()]*(\([^()]*\))?[^()]*)\)", r"\2", s)
    return s.replace("&", "").replace("*", "")


def _variant_region(fn, sb, info, v):
    t = info["edges"].get(v)
    if t is None:
        t = info["otherwise"]
    others = [x for vv, x in info["edges"].items() if x != t] + ([info["otherwise"]] if info["otherwise"] != t else [])
    return fn.reachable_blocks([t], avoid=others)


def rule_lookup(prog, rep):
    rep.floor("C23.LOOKUP", 20)
    # TypeAttributeCoordinate::lookup_ref and the three typed lookups
    specs = [
        (r"^apollo_compiler::coordinate::TypeAttributeCoordinate::lookup_ref$", LOOKUP_TABLE, "arg2"),
        (r"^apollo_compiler::coordinate::TypeAttributeCoordinate::lookup_field$", {"Object": ("fields", None), "Interface": ("fields", None), "Enum": (None, "InvalidType"), "InputObject": (None, "InvalidType"), "Union": (None, "InvalidType"), "Scalar": (None, "InvalidType")}, "arg1.attribute"),
        (r"^apollo_compiler::coordinate::TypeAttributeCoordinate::lookup_input_field$", {"InputObject": ("fields", None), "Object": (None, "InvalidType"), "Interface": (None, "InvalidType"), "Enum": (None, "InvalidType"), "Union": (None, "InvalidType"), "Scalar": (None, "InvalidType")}, "arg1.attribute"),
        (r"^apollo_compiler::coordinate::TypeAttributeCoordinate::lookup_enum_value$", {"Enum": ("values", None), "Object": (None, "InvalidType"), "Interface": (None, "InvalidType"), "InputObject": (None, "InvalidType"), "Union": (None, "InvalidType"), "Scalar": (None, "InvalidType")}, "arg1.attribute"),
    ]
    EXT = ("Scalar", "Object", "Interface", "Union", "Enum", "InputObject")

    def leaf_classes(val):
        """symbolic return value -> {True: class when the attribute is found, False: when not}"""
        v = _plain(val)
        v = re.sub(r"<Result<T, E> as Try>::branch\(([^()]*\([^()]*\))\)\.as:Continue\.0", r"\1", v)
        tag = None
        m = re.match(r"Result::map\((.*), fn:apollo_compiler::coordinate::TypeAttributeLookup::(\w+)\)$", v)
        if m:
            v, tag = m.group(1), m.group(2)
        m = re.match(r"Result::Ok\{TypeAttributeLookup::(\w+)\{(.*)\}\}$", v)
        if m:
            tag, v = m.group(1), "Result::Ok{%s}" % m.group(2)
        GET = r"IndexMap::get\((?P<coll>.*?), (?P<key>[\w.]+)\)"

        def ok_class(mm):
            c = re.search(r"as:(\w+)\.0\)?\.(\w+)$", mm.group("coll"))
            if not c or "TypeCoordinate::lookup_ref(" not in mm.group("coll"):
                return ("?coll", mm.group("coll")[-60:])
            return ("ok", c.group(1), c.group(2), mm.group("key"), tag)

        m = re.match(r"Option::ok_or\(" + GET + r", SchemaLookupError::MissingAttribute\{(?P<k2>[\w.]+)\}\)$", v)
        if m:
            return {True: ok_class(m), False: ("MissingAttribute", m.group("k2"))}
        m = re.match(r"Result::Ok\{" + GET + r"\.as:Some\.0\}$", v)
        if m:
            return {True: ok_class(m)}
        m = re.match(r"Result::Err\{SchemaLookupError::MissingAttribute\{([\w.]+)\}\}$", v)
        if m:
            return {False: ("MissingAttribute", m.group(1))}
        if re.match(r"Result::Err\{SchemaLookupError::InvalidType\{.*TypeCoordinate::lookup_ref\(.*\}\}$", v):
            return {True: ("InvalidType",), False: ("InvalidType",)}
        if "from_residual(" in v and "as:Break.0" in v:
            return {"propagate": True}
        return {True: ("?", v[:120]), False: ("?", v[:120])}

    for pat, table, keyarg in specs:
        fn = prog.fn(pat)
        paths = []
        for atoms, rb, path in enum_paths(fn):
            vs, found, typed = None, None, True
            for f in _strip(atoms):
                names = (f[2],) if f[0] == "variant" else (tuple(f[2]) if f[0] == "variant_in" else None)
                if names and all(n in EXT for n in names):
                    vs = set(names) if vs is None else (vs & set(names))
                elif names and all(n in ("Continue", "Break") for n in names):
                    typed = typed and "Continue" in names
                elif names and all(n in ("Some", "None") for n in names) and re.search(r"::get@\d+$", f[1]):
                    found = names == ("Some",)
                else:
                    raise Undecided("%s: unrecognised condition %s" % (fn.name, f))
            paths.append((vs, found, typed, leaf_classes(return_value_on_path(fn, path))))
        if not any(not typed for _v, _f, typed, _l in paths):
            rep.finding("C23.LOOKUP", fn.name, "type-lookup", "the type is not looked up first with TypeCoordinate::lookup_ref(..)? (no path propagates its error)", fn.loc())
        for v, (coll, tag) in sorted(table.items()):
            ok = True
            got = {}
            for found in (True, False):
                cls = set()
                for vs, pf, typed, leaf in paths:
                    if not typed or (vs is not None and v not in vs) or (pf is not None and pf != found):
                        continue
                    cls.add(leaf.get(found, ("?no-result-for-%s" % found,)))
                want = ("InvalidType",) if coll is None else (("ok", v, coll, keyarg, tag) if found else ("MissingAttribute", keyarg))
                got[found] = sorted(cls)
                if cls != {want}:
                    ok = False
            if coll is None:
                desc = "no lookup, Err(InvalidType)"
            else:
                desc = "%s.get(%s)%s, None -> MissingAttribute" % (coll, keyarg, (" -> " + tag) if tag else "")
            rep.obligation(ok)
            if ok:
                rep.instance("C23.LOOKUP", "%s: %s -> %s" % (fn.name.split("::")[-1], v, desc))
            else:
                rep.finding("C23.LOOKUP", fn.name, "variant:" + v, "for a %s type the lookup is not `%s` (found: %s, not found: %s)" % (v, desc, got[True], got[False]), fn.loc())
    # straight-line lookups: which map, which key, which error
    straight = [
        (r"^apollo_compiler::coordinate::TypeCoordinate::lookup_ref$", r"^Option::ok_or\(IndexMap::get\(&arg2\.types, arg1\), SchemaLookupError::MissingType\{arg1\}\)$"),
        (r"^apollo_compiler::coordinate::DirectiveCoordinate::lookup_ref$", r"^Option::ok_or\(IndexMap::get\(&arg2\.directive_definitions, arg1\), SchemaLookupError::MissingType\{arg1\}\)$"),
        (r"^apollo_compiler::coordinate::TypeCoordinate::lookup$", r"^TypeCoordinate::lookup_ref\(&arg1\.ty, arg2\)$"),
        (r"^apollo_compiler::coordinate::TypeAttributeCoordinate::lookup$", r"^TypeAttributeCoordinate::lookup_ref\(&arg1\.ty, &arg1\.attribute, arg2\)$"),
        (r"^apollo_compiler::coordinate::FieldArgumentCoordinate::lookup$", r"^FieldArgumentCoordinate::lookup_ref\(&arg1\.ty, &arg1\.field, &arg1\.argument, arg2\)$"),
        (r"^apollo_compiler::coordinate::DirectiveCoordinate::lookup$", r"^DirectiveCoordinate::lookup_ref\(&arg1\.directive, arg2\)$"),
        (r"^apollo_compiler::coordinate::DirectiveArgumentCoordinate::lookup$", r"^DirectiveArgumentCoordinate::lookup_ref\(&arg1\.directive, &arg1\.argument, arg2\)$"),
    ]
    for pat, shape in straight:
        fn = prog.fn(pat)
        rows = enum_paths(fn)
        rv = return_value_on_path(fn, rows[0][2]) if len(rows) == 1 else None
        ok = rv is not None and re.match(shape.replace('&', ''), _plain(rv)) is not None
        rep.obligation(ok)
        if ok:
            rep.instance("C23.LOOKUP", "%s = %s" % (".".join(fn.name.split("::")[-2:]), rv[:110]))
        else:
            rep.finding("C23.LOOKUP", fn.name, "shape", "lookup is `%s`, expected the form %s" % ((rv or "not straight-line")[:160], shape), fn.loc())
    # argument lookups: the field/directive found first, then argument_by_name(argument)
    for pat, first, firstargs, argn in (
        (r"^apollo_compiler::coordinate::FieldArgumentCoordinate::lookup_ref$", r"TypeAttributeCoordinate::lookup_ref$", ["arg1", "arg2", "arg4"], "arg3"),
        (r"^apollo_compiler::coordinate::DirectiveArgumentCoordinate::lookup_ref$", r"DirectiveCoordinate::lookup_ref$", ["arg1", "arg3"], "arg2"),
    ):
        fn = prog.fn(pat)
        f1 = [c for c in fn.live_calls() if re.search(first, c.name)]
        ab = [c for c in fn.live_calls() if re.search(r"::argument_by_name$", c.name)]
        ok = len(f1) == 1 and len(ab) == 1 and [_plain(fn.sym(a)) for a in f1[0].args] == firstargs and _plain(fn.sym(ab[0].args[1])) == argn
        if ok:
            errs = [s[2][1][2] for b in fn.live_blocks() for s in fn.stmts(b) if s[0] == "=" and s[2][0] == "agg" and isinstance(s[2][1], list) and s[2][1][0] == "adt" and s[2][1][1].endswith("SchemaLookupError")]
            ok = "MissingArgument" in errs
        rep.obligation(ok)
        if ok:
            rep.instance("C23.LOOKUP", "%s: %s(%s) then argument_by_name(%s), None -> MissingArgument" % (".".join(fn.name.split("::")[-2:]), first.split("::")[0], ", ".join(firstargs), argn))
        else:
            rep.finding("C23.LOOKUP", fn.name, "argument-lookup", "argument lookup does not resolve its parent with the coordinate's own names in order and then argument_by_name(argument)", fn.loc())
    # argument_by_name compares the definition's name with the requested name
    for fnm in (r"^apollo_compiler::ast::impls::<impl apollo_compiler::ast::FieldDefinition>::argument_by_name$", r"^apollo_compiler::ast::impls::<impl apollo_compiler::ast::DirectiveDefinition>::argument_by_name$"):
        fn = prog.fn(fnm)
        cl = [g for g in prog.fns.values() if g.parent == fn.uid and g.kind == "closure"]
        ok = len(cl) == 1
        rvs = ""
        if ok:
            rows = enum_paths(cl[0])
            rvs = return_value_on_path(cl[0], rows[0][2]) if len(rows) == 1 else ""
            ok = re.fullmatch(r"<Name as PartialEq<str>>::eq\(arg2\.name, arg1\.0\)", _plain(rvs)) is not None
            rows2 = enum_paths(fn)
            rv2 = return_value_on_path(fn, rows2[0][2]) if len(rows2) == 1 else ""
            ok = ok and re.match(r"^<.* as Iterator>::find\(slice::iter\(arg1\.arguments\), closure:", _plain(rv2)) is not None
        rep.obligation(ok)
        if ok:
            rep.instance("C23.LOOKUP", "%s = arguments.iter().find(|a| a.name == name)" % fn.name.split("impl ")[-1])
        else:
            rep.finding("C23.LOOKUP", fn.name, "by-name", "argument_by_name no longer finds the first argument whose name equals the requested name (`%s`)" % (rvs or "?")[:140], fn.loc())
    # SchemaCoordinate::lookup dispatch
    fn = prog.fn(r"^apollo_compiler::coordinate::SchemaCoordinate::lookup$")
    info = fn.switch_info(0)
    if not info or info.get("kind") != "enum":
        raise Undecided("SchemaCoordinate::lookup does not start with a match on self")
    for k in KINDS:
        v = VARIANT[k]
        reg = _variant_region(fn, 0, info, v)
        cs = [c for c in fn.live_calls() if c.block in reg and re.search(r"coordinate::\w+::lookup$", c.name)]
        ok = len(cs) == 1 and cs[0].name.endswith("%s::lookup" % k) and ("as:%s.0" % v) in fn.sym(cs[0].args[0])
        rep.obligation(ok)
        if ok:
            rep.instance("C23.LOOKUP", "SchemaCoordinate::lookup: %s -> %s::lookup" % (v, k))
        else:
            rep.finding("C23.LOOKUP", fn.name, "dispatch:" + v, "variant %s is not looked up with %s::lookup" % (v, k), fn.loc())


def run(prog, rep):
    it = rule_grammar(prog, rep)
    rule_delims(prog, rep, it)
    rule_names(prog, rep)
    rule_lookup(prog, rep)
    rep.assume("Name::try_from accepts exactly the GraphQL Name grammar (decided under C10) and IndexMap::get returns the entry whose key equals the argument")
    rep.note("the interpretation of the FromStr bodies is symbolic (templates of Name holes and literal delimiters), not an execution of the code")
