"""C15 — Valid schemas are internally consistent (DESIGN.md C15)."""
import re

from ..core import AnchorError, Undecided, norm_path, op_place
from ..diag import check_rows, push_sites, region_rows
from ..flow import always_reaches, arg_path_s, derives, enclosing_loop, loop_headers, loop_over
from ..tables import enum_paths, return_value_on_path
from ..flow import _strip

CRATES = ["apollo_compiler"]
LEVEL = "other"
EXPLANATION = """
`Valid<Schema>` is only produced when validate_schema pushed no diagnostic, so each invariant in
the statement holds for every valid schema iff, whenever it is broken, some diagnostic is pushed.
C15.ROWS decides that direction per invariant on the validator's own control flow: the region that
handles one element (a loop body, or the function) is enumerated path by path; on every path whose
branch facts are consistent with the invariant being broken (lookup in schema.types is None, the
looked-up kind is not the required one, is_output_type/is_input_type false, an implemented
interface lacks a field, IsValidImplementationFieldType false, argument missing / of another type
/ extra and required, non-null input cycle found, name starts with `__` outside the built-in
file, no query root, root type reused) the named diagnostic must be pushed before the region ends.
The lookups must be on schema.types / get_interface with the element's own name (PROV).
C15.KINDS: the kind predicates used by those rows are the spec's tables over the six ExtendedType
variants (IsInputType, IsOutputType, object / interface tests, get_interface / get_input_object).
C15.CHAIN: every element reaches its validator - validate_schema's loop runs over schema.types and
each variant arm, validate_schema_definition and validate_directive_definitions are on every
path; the object / interface validators call the field, implements and implementation validators
on every path; iter_root_operations yields all three roots.  C15.CYCLE: FindRecursiveInputValue
follows exactly the non-null named references, every field of every input object on the way,
and returns Recursed when it meets the root again.  C15.RESERVED: validate_type_system_name's
table and its call sites (types, directive definitions, fields, arguments / input fields, enum
values), each on every path of its region.  The `exactly the referenced built-in scalars` clause
is the C16 rule set, re-run here.  Decides `invariant broken => diagnostic` on the code's
branch structure; it does not decide that the branch conditions compute what their names say
beyond the extracted tables (e.g. Schema::is_subtype is taken as given).
"""

V = "apollo_compiler::validation::"


# ------------------------------------------------------------------------------- matchers


def _call_of_path(fn, p):
    m = re.match(r"^call:(.*)@(\d+)((?:\..*)?)$", p)
    if not m:
        return None, None, None
    return m.group(1), fn.call_at(int(m.group(2))), m.group(3)


def m_opt(call_re, recv_re=None):
    """Option returned by a lookup call: True = Some"""

    def f(fn, fact):
        if fact[0] == "variant" and fact[2] in ("Some", "None") and fact[3] is True:
            name, call, rest = _call_of_path(fn, fact[1])
            if call is not None and not rest and re.search(call_re, name):
                if recv_re and not re.search(recv_re, arg_path_s(fn, call, 0) or ""):
                    return None
                return fact[2] == "Some"
        if fact[0] == "callbool" and re.search(r"Option::<T>::is_(some|none)$", fact[1]):
            name, call, rest = _call_of_path(fn, fact[2][0] or "")
            if call is not None and not rest and re.search(call_re, name):
                if recv_re and not re.search(recv_re, arg_path_s(fn, call, 0) or ""):
                    return None
                return fact[3] if fact[1].endswith("is_some") else (not fact[3])
        return None

    return f


def m_kind(call_re, variant):
    """variant test on the payload of a lookup: True = is `variant`"""

    def f(fn, fact):
        if fact[0] in ("variant", "variant_in"):
            name, call, rest = _call_of_path(fn, fact[1])
            if call is None or rest != ".as:Some.0" or not re.search(call_re, name):
                return None
            if fact[0] == "variant":
                return (fact[2] == variant) if fact[3] is True else None
            if variant not in fact[2]:
                return False
            return True if len(fact[2]) == 1 else None
        return None

    return f


def m_call(name_re, arg_res=()):
    def f(fn, fact):
        if fact[0] == "callbool" and re.search(name_re, fact[1]):
            for i, rx in enumerate(arg_res):
                if rx is not None and not re.search(rx, (fact[2][i] if i < len(fact[2]) else "") or ""):
                    return None
            return fact[3]
        return None

    return f


def m_variant(path_re):
    """enum variant of a place: value = variant name (or '~A|B' for a set)"""

    def f(fn, fact):
        if fact[0] == "variant" and fact[3] is True and re.search(path_re, fact[1]):
            return fact[2]
        if fact[0] == "variant_in" and re.search(path_re, fact[1]):
            return "in:" + "|".join(fact[2])
        return None

    return f


# ------------------------------------------------------------------------------- ROWS

TYPES_GET = r"indexmap::IndexMap::<K, V, S>::get$"

SPECS = [
    dict(fn=V + "schema::validate_schema_definition", region="whole",
         atoms={"query_none": m_call(r"Option::<T>::is_none$", [r"^arg2\.schema_definition\.query$"])},
         rows=[("a query root exists", {"query_none": True}, {"QueryRootOperationType"})]),
    dict(fn=V + "schema::validate_root_operation_definitions", region=r"iter_root_operations",
         atoms={"defined": m_opt(TYPES_GET, r"^arg2\.types$"), "object": m_kind(TYPES_GET, "Object"),
                "seen_before": m_opt(r"Iterator>::find$")},
         rows=[("root operation types exist", {"defined": False}, {"UndefinedDefinition"}),
               ("root operation types are object types", {"defined": True, "object": False}, {"RootOperationObjectType"}),
               ("root operation types are distinct", {"seen_before": True}, {"DuplicateRootOperationType"})]),
    dict(fn=V + "union_::validate_union_definition", region=r"\.members$",
         atoms={"defined": m_opt(TYPES_GET, r"^arg2\.types$"), "object": m_kind(TYPES_GET, "Object")},
         rows=[("union members exist", {"defined": False}, {"UndefinedDefinition"}),
               ("union members are object types", {"defined": True, "object": False}, {"UnionMemberObjectType"})]),
    dict(fn=V + "field::validate_field_definitions", region=r"^arg4$",
         atoms={"defined": m_opt(TYPES_GET, r"^arg2\.types$"),
                "output": m_call(r"ExtendedType::is_output_type$", [r"@\d+\.as:Some\.0$"]),
                "builtin_scalar": m_call(r"BuiltInScalars::record_type_ref$")},
         rows=[("field types exist", {"defined": False, "builtin_scalar": False}, {"UndefinedDefinition"}),
               ("field types are output types", {"defined": True, "output": False}, {"OutputType"})]),
    dict(fn=V + "input_object::validate_input_value_definitions", region=r"^arg4$",
         atoms={"defined": m_opt(TYPES_GET, r"^arg2\.types$"),
                "input": m_call(r"ExtendedType::is_input_type$", [r"@\d+\.as:Some\.0$"]),
                "builtin_scalar": m_call(r"BuiltInScalars::record_type_ref$")},
         rows=[("argument / input field types exist", {"defined": False, "builtin_scalar": False}, {"UndefinedDefinition"}),
               ("argument / input field types are input types", {"defined": True, "input": False}, {"InputType"})]),
    dict(fn=V + "interface::validate_implements_interfaces", region=r"^arg5$", loop_index=0,
         atoms={"interface": m_opt(r"Schema::get_interface$", r"^arg2$")},
         rows=[("implemented names are defined interfaces", {"interface": False}, {"UndefinedDefinition"})]),
    dict(fn=V + "interface::validate_implements_interfaces", region=r"FlatMap|flat_map", by_next=True,
         atoms={"declared": m_call(r"IndexSet::<T, S>::contains$", [r"^arg5$"])},
         rows=[("transitively implemented interfaces are declared", {"declared": False}, {"TransitiveImplementedInterfaces"})]),
    dict(fn=V + "object::validate_object_type_definition", region=r"\.fields$", inner=True,
         atoms={"has_field": m_call(r"IndexMap::<K, V, S>::contains_key$", [r"^arg4\.fields$", r"\.name$"])},
         rows=[("objects define every field of their interfaces", {"has_field": False}, {"MissingInterfaceField"})]),
    dict(fn=V + "interface::validate_interface_definition", region=r"\.fields$", inner=True,
         atoms={"has_field": m_call(r"IndexMap::<K, V, S>::contains_key$", [r"^arg4\.fields$", r"\.name$"])},
         rows=[("interfaces define every field of their interfaces", {"has_field": False}, {"MissingInterfaceField"})]),
    dict(fn=V + "interface::validate_implementation_field_types", region=r"\.fields$", inner=True,
         atoms={"impl_field": m_opt(TYPES_GET, r"^arg4$"),
                "valid_type": m_call(r"interface::is_valid_implementation_field_type$", [r"^arg2$", r"\.1\.ty$", r"as:Some\.0\.ty$"])},
         rows=[("implementation field types are valid subtypes", {"impl_field": True, "valid_type": False}, {"InvalidImplementationFieldType"})]),
    dict(fn=V + "interface::validate_implementation_field_arguments", region=r"IntoIterator>::into_iter@22$|\.arguments$", loop_index=0, by_slice=True,
         atoms={"impl_arg": m_opt(r"Iterator>::find$"),
                "type_differs": m_call(r"PartialEq::ne$", [r"next@\d+\.as:Some\.0\.ty$", r"find@\d+\.as:Some\.0\.ty$"])},
         rows=[("interface arguments exist on the implementation", {"impl_arg": False}, {"MissingInterfaceFieldArgument"}),
               ("interface arguments keep their type", {"impl_arg": True, "type_differs": True}, {"InvalidImplementationFieldArgumentType"})]),
    dict(fn=V + "interface::validate_implementation_field_arguments", region=r"\.arguments$", loop_index=1, by_slice=True,
         atoms={"in_interface": m_call(r"Iterator>::any$"),
                "required": m_call(r"interface::is_required_argument$", [r"next@\d+\.as:Some\.0$"])},
         rows=[("extra implementation arguments are optional", {"in_interface": False, "required": True}, {"ExtraRequiredImplementationFieldArgument"})]),
    dict(fn=V + "input_object::validate_input_object_definition", region="whole",
         atoms={"cycle": m_variant(r"FindRecursiveInputValue::<'_>::check@\d+$"),
                "err": m_variant(r"FindRecursiveInputValue::<'_>::check@\d+\.as:Err\.0$")},
         rows=[("no non-null input object cycle", {"cycle": "Err", "err": "Recursed"}, {"RecursiveInputObjectDefinition"}),
               ("input object nesting within the limit", {"cycle": "Err", "err": "Limit"}, {"DeeplyNestedType"})]),
]


def _pick_region(fn, spec):
    if spec["region"] == "whole":
        hs = loop_headers(fn)
        return 0, list(hs), None
    hs = loop_headers(fn)
    cands = []
    for h, (some, none, nxt) in sorted(hs.items()):
        paths, calls = derives(fn, nxt.args[0])
        hay = sorted(paths) + [c.name for c in calls] + [nxt.name]
        if any(re.search(spec["region"], x) for x in hay):
            cands.append(h)
    if spec.get("inner"):
        # the innermost loop among the candidates (a loop nested in another candidate or any loop)
        inner = [h for h in cands if enclosing_loop(fn, h, hs) is not None]
        cands = inner or cands
    if spec.get("by_next"):
        cands = [h for h in cands if re.search(spec["region"], hs[h][2].name)] or cands
    if "loop_index" in spec and len(cands) > spec["loop_index"]:
        cands = [cands[spec["loop_index"]]]
    if len(cands) != 1:
        # the loop is then recognised by what it tests, not by how it iterates: the innermost loop
        # whose body branches on every atom of the row (a flat_map/zip chain rewritten as nested
        # loops, an index loop, ...)
        by_atoms = []
        for h in sorted(hs):
            try:
                rows = region_rows(fn, hs[h][0], [h])
            except Exception:
                continue
            seen = set()
            for facts, _p, _c, _path in rows:
                for f in facts:
                    for a, m in spec["atoms"].items():
                        if m(fn, f) is not None:
                            seen.add(a)
            if seen >= set(spec["atoms"]):
                by_atoms.append(h)
        inner = [h for h in by_atoms if not any(o != h and enclosing_loop(fn, o, hs) == h for o in by_atoms)]
        if len(inner) == 1:
            cands = inner
    if len(cands) != 1:
        raise AnchorError("%s: expected one loop over /%s/, found %d (%s)" % (fn.name, spec["region"], len(cands), cands))
    h = cands[0]
    return hs[h][0], [h], h


def rule_rows(prog, rep):
    rep.floor("C15.ROWS", 20)
    for spec in SPECS:
        fn = prog.fn("^" + re.escape(spec["fn"]) + "$")
        start, stops, header = _pick_region(fn, spec)
        rows = region_rows_raw(fn, start, stops)
        atoms = spec["atoms"]

        def classify(fact, atoms=atoms, fn=fn):
            out = []
            for a, m in atoms.items():
                v = m(fn, fact)
                if v is not None:
                    out.append((a, v))
            return out or None

        seen_atoms = set()
        for facts, _p, _c, _path in rows:
            for f in facts:
                r = classify(f)
                for a, _v in r or []:
                    seen_atoms.add(a)
        missing = set(atoms) - seen_atoms
        if missing:
            raise Undecided("%s: no branch in the region tests %s (idiom not recognised or test removed)" % (fn.name, sorted(missing)))
        for label, when, needs in spec["rows"]:
            def violating(known, when=when):
                for a, v in when.items():
                    if a in known:
                        kv = known[a]
                        if isinstance(kv, str) and kv.startswith("in:"):
                            if v not in kv[3:].split("|"):
                                return False
                        elif kv != v:
                            return False
                return True

            n, bad = check_rows(rep, "C15.ROWS", fn, rows, classify, violating, label, needs)
            where = "loop@%s" % header if header is not None else "function"
            if not bad:
                rep.instance("C15.ROWS", "%s [%s]: `%s` broken (%s) => %s on all %d such paths" % (
                    fn.name.replace(V, ""), where, label, ", ".join("%s=%s" % kv for kv in sorted(when.items())), "/".join(sorted(needs)), sum(1 for r in rows if violating(_known(classify, r[0])))))
        # PROV: element-keyed lookups use the loop element
        if header is not None:
            for facts, _p, _c, path in rows[:1]:
                pass
            _check_elem_keys(prog, rep, fn, header, rows)


def _known(classify, facts):
    known = {}
    for f in facts:
        for a, v in classify(f) or []:
            known[a] = v
    return known


def region_rows_raw(fn, start, stops):
    """like diag.region_rows but facts keep their Call objects stripped (hashable)"""
    return region_rows(fn, start, stops)


def _check_elem_keys(prog, rep, fn, header, rows):
    """every schema.types.get / get_interface / contains_key / find in the region takes its key
    from the loop element (or an enclosing loop's element)"""
    hs = loop_headers(fn)
    body = fn.reachable_blocks([hs[header][0]], avoid=[header])
    outer = set()
    h = header
    while h is not None:
        outer.add(h)
        h = enclosing_loop(fn, h, hs)
    for c in fn.live_calls():
        if c.block not in body:
            continue
        if re.search(r"IndexMap::<K, V, S>::(get|contains_key)$|Schema::get_interface$|IndexSet::<T, S>::contains$", c.name) and len(c.args) >= 2:
            _p, calls = derives(fn, c.args[1])
            ok = any(x.block in outer for x in calls)
            rep.obligation(ok)
            if not ok:
                rep.finding("C15.ROWS", fn.name, "key:" + c.name.split("::")[-1], "the lookup %s in the per-element region does not use the element's own name (key derives from %s)" % (c.name.split("::")[-1], sorted(_p)[:4]), c.loc())


# ------------------------------------------------------------------------------- KINDS

ALLV = ("Scalar", "Object", "Interface", "Union", "Enum", "InputObject")
KIND_TABLES = [
    (r"^apollo_compiler::schema::ExtendedType::is_input_type$", {"Scalar", "Enum", "InputObject"}),
    (r"^apollo_compiler::schema::ExtendedType::is_output_type$", {"Scalar", "Object", "Interface", "Union", "Enum"}),
    (r"^apollo_compiler::schema::ExtendedType::is_leaf$", {"Scalar", "Enum"}),
    (r"^apollo_compiler::schema::ExtendedType::is_object$", {"Object"}),
    (r"^apollo_compiler::schema::ExtendedType::is_interface$", {"Interface"}),
    (r"^apollo_compiler::schema::ExtendedType::is_union$", {"Union"}),
    (r"^apollo_compiler::schema::ExtendedType::is_scalar$", {"Scalar"}),
    (r"^apollo_compiler::schema::ExtendedType::is_enum$", {"Enum"}),
    (r"^apollo_compiler::schema::ExtendedType::is_input_object$", {"InputObject"}),
]
GETTERS = [
    (r"^apollo_compiler::schema::Schema::get_interface$", "Interface"),
    (r"^apollo_compiler::schema::Schema::get_object$", "Object"),
    (r"^apollo_compiler::schema::Schema::get_input_object$", "InputObject"),
    (r"^apollo_compiler::schema::Schema::get_union$", "Union"),
    (r"^apollo_compiler::schema::Schema::get_enum$", "Enum"),
    (r"^apollo_compiler::schema::Schema::get_scalar$", "Scalar"),
]


def variant_table(fn, path_re, leaf_of):
    """{variant: leaf} of a loop-free function branching on an enum place"""
    tab = {}
    for atoms, rb, path in enum_paths(fn):
        vs = None
        for f in _strip(atoms):
            if f[0] == "variant" and f[3] is True and re.search(path_re, f[1]) and f[2] in ALLV:
                vs = [f[2]]
            elif f[0] == "variant_in" and re.search(path_re, f[1]):
                vs = list(f[2])
        leaf = leaf_of(fn, path)
        if vs is None:
            tab.setdefault("*", set()).add(leaf)
            continue
        for v in vs:
            tab.setdefault(v, set()).add(leaf)
    return tab


def rule_kinds(prog, rep):
    rep.floor("C15.KINDS", 15)
    for pat, true_set in KIND_TABLES:
        fn = prog.fn(pat)
        tab = variant_table(fn, r"^arg1$", lambda f, p: return_value_on_path(f, p))
        got = set(v for v in ALLV if tab.get(v) == {"const:true"})
        undec = [v for v in ALLV if tab.get(v) not in ({"const:true"}, {"const:false"})]
        if undec:
            raise Undecided("%s: variants %s have no constant verdict (%s)" % (fn.name, undec, tab))
        ok = got == true_set
        rep.obligation(ok)
        if ok:
            rep.instance("C15.KINDS", "%s = %s" % (fn.name.split("::")[-1], sorted(got)))
        else:
            rep.finding("C15.KINDS", fn.name, "table", "%s is true for %s; the specification's table is %s" % (fn.name.split("::")[-1], sorted(got), sorted(true_set)), fn.loc())
    for pat, variant in GETTERS:
        fn = prog.fn(pat)
        calls = [c for c in fn.live_calls() if re.search(r"IndexMap::<K, V, S>::get$", c.name)]
        if len(calls) != 1 or arg_path_s(fn, calls[0], 0) != "arg1.types" or "arg2" not in derives(fn, calls[0].args[1])[0]:
            raise Undecided("%s: not a single schema.types.get(name)" % fn.name)

        def leaf(f, p):
            v = return_value_on_path(f, p) or ""
            return "Some" if re.match(r"^Option::Some\{", v) else ("None" if "None" in v else v)

        tab = variant_table(fn, r"as:Some\.0$", leaf)
        got = set(v for v in ALLV if tab.get(v) == {"Some"})
        bad = [v for v in ALLV if tab.get(v) not in ({"Some"}, {"None"})]
        if bad:
            raise Undecided("%s: variants %s undecided (%s)" % (fn.name, bad, tab))
        ok = got == {variant}
        rep.obligation(ok)
        if ok:
            rep.instance("C15.KINDS", "%s returns Some only for ExtendedType::%s" % (fn.name.split("::")[-1], variant))
        else:
            rep.finding("C15.KINDS", fn.name, "getter", "%s returns Some for %s, expected only %s" % (fn.name.split("::")[-1], sorted(got), variant), fn.loc())


# ------------------------------------------------------------------------------- CHAIN


def _always_calls(rep, fn, pat, start=0, exits=None, what=None, rule="C15.CHAIN"):
    blocks = [c.block for c in fn.live_calls() if re.search(pat, c.name)]
    exits = exits if exits is not None else list(fn.return_blocks())
    ok = bool(blocks) and always_reaches(fn, start, blocks, exits)
    rep.obligation(ok)
    short = pat.split("::")[-1].rstrip("$")
    if ok:
        rep.instance(rule, "%s: %s on every path%s" % (fn.name.replace("apollo_compiler::", ""), short, what or ""))
    else:
        rep.finding(rule, fn.name, "skips:" + short, "%s can finish%s without calling %s: the invariants that validator enforces are not checked for some schemas" % (fn.name.split("::")[-1], what or "", short), fn.loc())
    return ok


def rule_chain(prog, rep):
    rep.floor("C15.CHAIN", 20)
    vs = prog.fn(r"^apollo_compiler::schema::validation::validate_schema$")
    _always_calls(rep, vs, r"validation::schema::validate_schema_definition$")
    _always_calls(rep, vs, r"validation::directive::validate_directive_definitions$")
    hs = loop_headers(vs)
    types_loops = loop_over(vs, r"^arg2\.types$", hs)
    if len(types_loops) != 1:
        raise AnchorError("validate_schema: expected one loop over schema.types, found %d" % len(types_loops))
    h = types_loops[0]
    if not always_reaches(vs, 0, [h], vs.return_blocks()):
        rep.finding("C15.CHAIN", vs.name, "types-loop-conditional", "the loop over schema.types is not on every path", vs.loc())
    sw = [b for b in vs.live_blocks() if (vs.switch_info(b) or {}).get("kind") == "enum" and vs.switch_info(b)["adt"].endswith("schema::ExtendedType")]
    if len(sw) != 1:
        raise AnchorError("validate_schema: expected one match over ExtendedType")
    info = vs.switch_info(sw[0])
    if not always_reaches(vs, hs[h][0], [sw[0]], [h] + list(vs.return_blocks())):
        rep.finding("C15.CHAIN", vs.name, "types-loop-skip", "an iteration over schema.types can skip the per-kind validator", vs.loc())
    arms = {
        "Scalar": r"validation::scalar::validate_scalar_definition$",
        "Object": r"validation::object::validate_object_type_definition$",
        "Interface": r"validation::interface::validate_interface_definition$",
        "Union": r"validation::union_::validate_union_definition$",
        "Enum": r"validation::enum_::validate_enum_definition$",
        "InputObject": r"validation::input_object::validate_input_object_definition$",
    }
    for v, pat in sorted(arms.items()):
        st = info["edges"].get(v)
        if st is None:
            rep.finding("C15.CHAIN", vs.name, "arm:" + v, "no arm for ExtendedType::%s" % v, vs.loc())
            continue
        _always_calls(rep, vs, pat, start=st, exits=[h] + list(vs.return_blocks()), what=" (ExtendedType::%s arm)" % v)
    _always_calls(rep, vs, r"schema::validation::validate_type_system_name$", start=hs[h][0], exits=[h] + list(vs.return_blocks()), what=" (each type name)", rule="C15.RESERVED")
    # schema definition -> roots
    vsd = prog.fn("^" + re.escape(V + "schema::validate_schema_definition") + "$")
    _always_calls(rep, vsd, r"validation::schema::validate_root_operation_definitions$")
    iro = prog.fn(r"^apollo_compiler::schema::SchemaDefinition::iter_root_operations$")
    srcs = set()
    for b in iro.live_blocks():
        for s in iro.stmts(b):
            if s[0] == "=":
                for m in re.finditer(r"arg1\.(query|mutation|subscription)\b", iro.sym(s[2][1]) if s[2][0] == "use" else str(iro.apath_s(s[2][2])) if s[2][0] == "ref" else ""):
                    srcs.add(m.group(1))
    ok = srcs == {"query", "mutation", "subscription"}
    rep.obligation(ok)
    if ok:
        rep.instance("C15.CHAIN", "iter_root_operations reads query, mutation and subscription")
    else:
        rep.finding("C15.CHAIN", iro.name, "roots", "iter_root_operations reads only %s" % sorted(srcs), iro.loc())
    # object / interface validators
    for f, pats in [
        (V + "object::validate_object_type_definition", [r"field::validate_field_definitions$", r"interface::validate_implements_interfaces$", r"interface::validate_implementation_field_types$", r"interface::validate_implementation_field_arguments$"]),
        (V + "interface::validate_interface_definition", [r"field::validate_field_definitions$", r"interface::validate_implements_interfaces$", r"interface::validate_implementation_field_types$", r"interface::validate_implementation_field_arguments$"]),
        (V + "input_object::validate_input_object_definition", [r"input_object::validate_input_value_definitions$", r"FindRecursiveInputValue::<'_>::check$"]),
        (V + "directive::validate_directive_definition", [r"input_object::validate_argument_definitions$"]),
        (V + "field::validate_field_definition", [r"input_object::validate_argument_definitions$"]),
        (V + "input_object::validate_argument_definitions", [r"input_object::validate_input_value_definitions$"]),
    ]:
        fn = prog.fn("^" + re.escape(f) + "$")
        for p in pats:
            _always_calls(rep, fn, p)
    # loops in the object / interface validators over implements_interfaces reach the inner field loop
    for f in (V + "object::validate_object_type_definition", V + "interface::validate_interface_definition",
              V + "interface::validate_implementation_field_types", V + "interface::validate_implementation_field_arguments"):
        fn = prog.fn("^" + re.escape(f) + "$")
        hs2 = loop_headers(fn)
        outer = [h2 for h2 in loop_over(fn, r"implements_interfaces$|^arg5$", hs2) if enclosing_loop(fn, h2, hs2) is None]
        inner = [h2 for h2 in hs2 if enclosing_loop(fn, h2, hs2) in outer]
        found = False
        for o in outer:
            rows = region_rows(fn, hs2[o][0], [o] + [i for i in inner])
            # on the path where get_interface is Some, the inner loop header must be reached
            for facts, _p, _c, path in rows:
                known = [f_ for f_ in facts if f_[0] == "variant" and re.search(r"Schema::get_interface@\d+$", f_[1])]
                if known and known[0][2] == "Some":
                    found = True
                    ok = path[-1] in inner
                    rep.obligation(ok)
                    if not ok:
                        rep.finding("C15.CHAIN", fn.name, "inner-loop-skipped", "with the implemented interface found, the per-field loop is not entered", fn.loc())
        if found:
            rep.instance("C15.CHAIN", "%s: for each implemented interface that exists, the per-field loop runs" % fn.name.replace(V, ""))
        else:
            raise Undecided("%s: loop over implements_interfaces with a get_interface test not found" % fn.name)


# ------------------------------------------------------------------------------- CYCLE


def rule_cycle(prog, rep):
    rep.floor("C15.CYCLE", 4)
    ivd = prog.fn(r"input_object::FindRecursiveInputValue::<'_>::input_value_definition$")
    rows = []
    for atoms, rb, path in enum_paths(ivd):
        fs = _strip(atoms)
        ty = None
        contains = None
        found = None
        first_eq = None
        for f in fs:
            if f[0] == "variant" and f[1] == "arg3.ty" and f[3] is True:
                ty = [f[2]]
            elif f[0] == "variant_in" and f[1] == "arg3.ty":
                ty = list(f[2])
            elif f[0] == "callbool" and re.search(r"RecursionGuard::<'_>::contains$", f[1]) and f[2][0] == "arg2" and re.search(r"^arg3\.ty\.as:NonNullNamed\.0$", f[2][1] or ""):
                contains = f[3]
            elif f[0] == "variant" and re.search(r"Schema::get_input_object@\d+$", f[1]):
                found = f[2] == "Some"
            elif f[0] == "callbool" and re.search(r"Option<T> as std::cmp::PartialEq>::eq$", f[1]) and "RecursionGuard::<'_>::first" in (f[2][0] or ""):
                first_eq = f[3]
        leaf = return_value_on_path(ivd, path) or ""
        calls = [ivd.call_at(b) for b in path if ivd.call_at(b) is not None]
        recursed = [c for c in calls if re.search(r"FindRecursiveInputValue::<'_>::input_object_definition$", c.name)]
        rows.append((ty, contains, found, first_eq, leaf, recursed, fs))
    nn = [r for r in rows if r[0] == ["NonNullNamed"]]
    if not nn:
        rep.finding("C15.CYCLE", ivd.name, "no-nonnull-arm", "no path handles Type::NonNullNamed: non-null references are never followed", ivd.loc())
        return
    for ty, contains, found, first_eq, leaf, recursed, fs in rows:
        if ty is None or "NonNullNamed" not in ty:
            continue
        if ty != ["NonNullNamed"]:
            raise Undecided("input_value_definition: NonNullNamed shares a path with %s" % ty)
        if contains is None:
            rep.finding("C15.CYCLE", ivd.name, "no-seen-test", "a NonNullNamed path does not test whether the name is already on the stack", ivd.loc())
            continue
        if contains is False and found is True:
            brk = any(f[0] == "variant" and "Try>::branch" in f[1] and f[2] == "Break" for f in fs)
            if brk:
                ok = "from_residual" in leaf
            else:
                ok = bool(recursed) and any("RecursionGuard::push" in ivd.sym(a) for c in recursed for a in c.args)
            rep.obligation(ok)
            if not ok:
                rep.finding("C15.CYCLE", ivd.name, "not-followed", "an unseen non-null input object reference is not followed with seen.push(name) / its error is not propagated (returns %s)" % leaf[:80], ivd.loc())
        if contains is True and first_eq is True:
            ok = leaf.startswith("Result::Err{CycleError::Recursed")
            rep.obligation(ok)
            if not ok:
                rep.finding("C15.CYCLE", ivd.name, "cycle-not-reported", "meeting the root again on a non-null path returns %s instead of Err(Recursed)" % leaf[:80], ivd.loc())
        if contains is True and first_eq is None:
            rep.finding("C15.CYCLE", ivd.name, "no-root-test", "a seen name is not compared with the root", ivd.loc())
    rep.instance("C15.CYCLE", "input_value_definition: NonNullNamed & unseen & input object => recurse with push + `?`; seen & root => Err(Recursed) (%d paths)" % len(rows))
    iod = prog.fn(r"input_object::FindRecursiveInputValue::<'_>::input_object_definition$")
    hs = loop_headers(iod)
    loops = loop_over(iod, r"^arg3\.fields$|\.fields$", hs)
    ok = False
    for h in loops:
        blocks = [c.block for c in iod.live_calls() if re.search(r"input_value_definition$", c.name)]
        if blocks and always_reaches(iod, hs[h][0], blocks, [h] + list(iod.return_blocks())) and always_reaches(iod, 0, [h], iod.return_blocks()):
            # the `?`: on Break the function returns from_residual
            ok = True
    rep.obligation(ok)
    if ok:
        rep.instance("C15.CYCLE", "input_object_definition: every field goes through input_value_definition")
    else:
        rep.finding("C15.CYCLE", iod.name, "fields", "not every field of the input object is examined", iod.loc())
    brk_ok = False
    for atoms, rb, path in enum_paths(iod, inner_loops="cut"):
        fs = _strip(atoms)
        if any(f[0] == "variant" and "Try>::branch" in f[1] and f[2] == "Break" for f in fs):
            brk_ok = "from_residual" in (return_value_on_path(iod, path) or "")
    rep.obligation(brk_ok)
    if brk_ok:
        rep.instance("C15.CYCLE", "input_object_definition: an error from a field is returned (`?`)")
    else:
        rep.finding("C15.CYCLE", iod.name, "swallowed", "an error found in a field is not returned", iod.loc())
    chk = prog.fn(r"input_object::FindRecursiveInputValue::<'_>::check$")
    leaves = set(return_value_on_path(chk, p) for _a, _r, p in enum_paths(chk))
    ok = len(leaves) == 1 and re.search(r"input_object_definition\(.*RecursionStack::guard\(&RecursionStack::with_root\(<Name as Clone>::clone\(&arg2\.name\)\)\), &arg2\)$", list(leaves)[0] or "") is not None
    rep.obligation(ok)
    if ok:
        rep.instance("C15.CYCLE", "check: starts at the input object with its own name as the root of the stack")
    else:
        rep.finding("C15.CYCLE", chk.name, "root", "check() does not start from with_root(input_object.name) (%s)" % sorted(leaves), chk.loc())


# ------------------------------------------------------------------------------- RESERVED


def rule_reserved(prog, rep):
    rep.floor("C15.RESERVED", 7)
    fn = prog.fn(r"^apollo_compiler::schema::validation::validate_type_system_name$")
    rows = region_rows(fn, 0, [])
    n_true = 0
    for facts, pushed, calls, path in rows:
        builtin = None
        dunder = None
        for f in facts:
            if f[0] == "callbool" and re.search(r"Option::<T>::is_some_and$", f[1]) and "Name::location" in (f[2][0] or ""):
                builtin = f[3]
            if f[0] == "callbool" and re.search(r"str>::starts_with$|str::starts_with$", f[1]) and f[2][0] == "arg2" and f[2][1] == 'const:"__"':
                dunder = f[3]
        if builtin is not True and dunder is not False:
            n_true += 1
            ok = "ReservedName" in pushed
            rep.obligation(ok)
            if not ok:
                rep.finding("C15.RESERVED", fn.name, "row", "a name starting with `__` outside the built-in file is not reported (facts %s)" % (facts,), fn.loc())
    if not n_true:
        raise Undecided("validate_type_system_name: no path for a reserved user name")
    clos = [f for f in prog.fns.values() if f.root == fn.uid and f.kind == "closure"]
    okc = False
    for c in clos:
        leaves = set(return_value_on_path(c, p) for _a, _r, p in enum_paths(c))
        if len(leaves) == 1 and re.search(r"FileId as PartialEq>::eq\(&arg2\.file_id, &\*?const:.*\)$", list(leaves)[0] or ""):
            okc = True
    bi = prog.const(r"^apollo_compiler::parser::FileId::BUILT_IN$") if any("FileId::BUILT_IN" in c["name"] for c in prog.consts.values()) else None
    rep.obligation(okc)
    if okc:
        rep.instance("C15.RESERVED", "validate_type_system_name: ReservedName iff starts_with(\"__\") and location is not in the built-in file")
    else:
        rep.finding("C15.RESERVED", fn.name, "builtin-test", "the built-in exemption is not `loc.file_id == FileId::BUILT_IN`", fn.loc())
    # call sites: each on every path of its region
    sites = [
        (V + "directive::validate_directive_definition", "whole", "directive definitions"),
        (V + "field::validate_field_definition", "whole", "field definitions"),
        (V + "input_object::validate_input_value_definitions", r"^arg4$", "arguments and input fields"),
        (V + "enum_::validate_enum_value", "whole", "enum values"),
    ]
    for f, region, what in sites:
        g = prog.fn("^" + re.escape(f) + "$")
        if region == "whole":
            _always_calls(rep, g, r"schema::validation::validate_type_system_name$", what=" (%s)" % what, rule="C15.RESERVED")
        else:
            hs = loop_headers(g)
            ls = loop_over(g, region, hs)
            if len(ls) != 1:
                raise AnchorError("%s: loop over %s not found" % (g.name, region))
            _always_calls(rep, g, r"schema::validation::validate_type_system_name$", start=hs[ls[0]][0], exits=[ls[0]] + list(g.return_blocks()), what=" (%s, every element)" % what, rule="C15.RESERVED")
            if not always_reaches(g, 0, [ls[0]], g.return_blocks()):
                rep.finding("C15.RESERVED", g.name, "loop-conditional", "the loop over %s is not on every path" % what, g.loc())
    ved = prog.fn("^" + re.escape(V + "enum_::validate_enum_definition") + "$")
    hs = loop_headers(ved)
    ls = loop_over(ved, r"\.values$", hs)
    if len(ls) != 1:
        raise AnchorError("validate_enum_definition: loop over values not found")
    _always_calls(rep, ved, r"enum_::validate_enum_value$", start=hs[ls[0]][0], exits=[ls[0]] + list(ved.return_blocks()), what=" (every enum value)", rule="C15.RESERVED")
    if not always_reaches(ved, 0, [ls[0]], ved.return_blocks()):
        rep.finding("C15.RESERVED", ved.name, "loop-conditional", "the loop over enum values is not on every path", ved.loc())
    # the name argument is the element's own name
    for g in prog.fns.values():
        if g.crate != "apollo_compiler":
            continue
        for c in g.live_calls():
            if c.uid == fn.uid:
                p = arg_path_s(g, c, 1) or ""
                if not re.search(r"\.name$|\.as:Some\.0\.0$|\.value$", p):
                    rep.finding("C15.RESERVED", g.name, "name-arg", "validate_type_system_name is given %s, not a definition's name" % p, c.loc())


def run(prog, rep):
    rule_rows(prog, rep)
    rule_kinds(prog, rep)
    rule_chain(prog, rep)
    rule_cycle(prog, rep)
    rule_reserved(prog, rep)
    # `every implemented interface field is present with a compatible type`: the compatibility
    # table itself (C29.IMPL)
    from .C29 import rule_impl
    rule_impl(prog, rep)
    # `exactly the built-in scalars that are referenced`: the C16 bookkeeping rules
    from . import C16

    C16.rule_prune(prog, rep)
    C16.rule_record(prog, rep)
    C16.rule_cover(prog, rep)
    C16.rule_restore(prog, rep)
    rep.floor("C16.PRUNE", 9)
    rep.floor("C16.COVER", 10)
