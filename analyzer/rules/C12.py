"""C12 — Schema serialization round-trips and preserves order (DESIGN.md C12).

Round-trip equality is a statement about runtime values and is NOT decided.  Decided here are the
structural necessary conditions of `no component is lost, duplicated or reordered on the way from
a Schema to its serialized definitions and extensions`."""
import re

from ..core import AnchorError, Undecided
from ..flow import _strip, facts_at
from ..tables import enum_paths, return_value_on_path

CRATES = ["apollo_parser", "apollo_compiler"]
LEVEL = "other"
EXPLANATION = """
C12.ORDERED: every collection field of the schema / executable / AST types is an insertion-ordered
collection (IndexMap, IndexSet, Vec); a hash- or tree-ordered one would reorder on round trip.
C12.NOPERTURB: no order-perturbing operation (swap_remove, sort*, reverse, swap*, move_index,
pop, deprecated remove, insert_before/shift_insert, Vec::swap_remove/sort/dedup/rotate/insert/
remove) on a collection whose elements are schema or AST components, anywhere in apollo-compiler
(shift_remove and retain keep relative order and are allowed).
C12.SPLIT: each of the 7 `to_ast` implementations in schema/serialize.rs builds the definition from
`self.<field>` with `components/names(.., None)` for every component collection (plus description
and name), and one extension per `self.extensions()` entry with `Some(ext)` for the same fields and
the closure's own `ext`; `components`, `names` and the root-operation helper are
filter(origin.extension_id() == ext) -> map(node/name clone) -> collect pipelines with no other
adaptor.  C12.ORIGINS: `iter_origins` of each type covers every component collection of that type
(an omitted collection drops extensions that contribute only to it), `extensions()` collects the
extension ids of `iter_origins` into an IndexSet, and ExtendedType dispatches each variant to its
own type.  C12.EXTORDER: the order in which extensions are emitted is the first-occurrence order
over the *chain* of the collections; with two or more multi-element collections that order cannot
agree with each collection's own order for all schemas (`type Q {f} extend type Q {a} extend type
Q @d {b}` re-parses with fields f, b, a) - reported per type.  C12.ROOTOPS: iter_root_operations
pairs Query/Mutation/Subscription with the same-named fields.  C12.IMPLICIT: the schema definition
is omitted only under `no description, no directives, no extensions, all roots are the default
names` or `every root operation comes from an extension`.  C12.TOPLEVEL: Schema::to_ast chains the
schema definition, the non-built-in directive definitions and all types, skipping only the
definition (first item) of built-in types.
"""

TYPES = ["Scalar", "Object", "Interface", "Union", "Enum", "InputObject"]
ORDERED_OK = re.compile(r"^(std::sync::Arc<)?(indexmap::IndexMap<|indexmap::IndexSet<|std::vec::Vec<)")
UNORDERED = re.compile(r"(HashMap<|HashSet<|BTreeMap<|BTreeSet<|BinaryHeap<|LinkedList<)")
COLLECTION = re.compile(r"(IndexMap<|IndexSet<|Vec<|HashMap<|HashSet<|BTreeMap<|BTreeSet<|VecDeque<)")


def _fields(adt):
    return [(f[0], f[1]) for v in adt["variants"] for f in v["fields"]]


def rule_ordered(prog, rep):
    rep.floor("C12.ORDERED", 30)
    pats = [r"^apollo_compiler::schema::(Schema|SchemaDefinition|ScalarType|ObjectType|InterfaceType|UnionType|EnumType|InputObjectType|DirectiveList)$",
            r"^apollo_compiler::executable::(ExecutableDocument|OperationMap|Operation|Fragment|SelectionSet|Field|InlineFragment|FragmentSpread)$",
            r"^apollo_compiler::ast::(Document|DirectiveList|\w+Definition|\w+Extension|Directive|Field|InlineFragment|FragmentSpread)$"]
    seen = 0
    for uid, a in sorted(prog.adts.items(), key=lambda kv: kv[1]["name"]):
        if not any(re.search(p, a["name"]) for p in pats):
            continue
        for fname, fty in _fields(a):
            if not COLLECTION.search(fty):
                continue
            seen += 1
            if UNORDERED.search(fty):
                rep.finding("C12.ORDERED", a["name"], "field:" + fname,
                            "collection field %s.%s has type %s, which does not keep insertion order: serialization order would not be the source order" % (a["name"], fname, fty), None)
            else:
                rep.instance("C12.ORDERED", "%s.%s: %s" % (a["name"].split("::")[-1], fname, re.sub(r"apollo_compiler::|, ahash::RandomState", "", fty)[:90]))
    if seen == 0:
        raise AnchorError("no collection fields found in schema/executable/ast types")


PERTURB_MAP = re.compile(r"(IndexMap|IndexSet)::<[^>]*>::(swap_remove\w*|sort\w*|reverse|swap_indices|move_index|pop|remove|remove_entry|remove_full|insert_before|shift_insert|insert_sorted\w*|swap_take|first_entry|last_entry|drain|truncate|split_off|extract_if)$")
PERTURB_VEC = re.compile(r"(vec::Vec::<T, A>|slice::<impl \[T\]>|VecDeque::<T, A>)::(swap_remove|sort\w*|reverse|swap|dedup\w*|rotate\w*|remove|insert|drain|truncate|split_off|select_nth\w*|pop|extract_if)$")
KEEP_MAP = re.compile(r"(IndexMap|IndexSet)::<[^>]*>::(shift_remove\w*|retain\w*)$")
# element types whose order is observable in serialized output
BEARING = re.compile(r"(Component<|ComponentName|ExtendedType|ast::Definition|ast::Directive|FieldDefinition|InputValueDefinition|EnumValueDefinition|executable::Selection\b|ast::Selection\b|ast::Argument|VariableDefinition|node::Node<|Operation>|Fragment>|OperationType, )")


def rule_noperturb(prog, rep):
    rep.floor("C12.NOPERTURB", 8)
    for fn in sorted(prog.fns.values(), key=lambda f: f.name):
        for c in fn.live_calls():
            m = PERTURB_MAP.search(c.name) or PERTURB_VEC.search(c.name)
            k = KEEP_MAP.search(c.name)
            if not m and not k:
                continue
            recv = ""
            if c.args and c.args[0][0] in ("c", "m"):
                recv = fn.local_ty(c.args[0][1][0])
            op = (m or k).group(2)
            short = fn.name.replace("apollo_compiler::", "")
            if k:
                rep.instance("C12.NOPERTURB", "%s: %s on %s keeps relative order" % (short, op, recv[:70]))
                continue
            if BEARING.search(recv) and not re.search(r"slice::Iter<|Vec<&", recv):
                rep.finding("C12.NOPERTURB", fn.name, "op:%s" % op,
                            "%s on %s perturbs the order of output-bearing components" % (op, recv[:120]), c.loc())
            else:
                rep.instance("C12.NOPERTURB", "%s: %s on %s (not a component collection)" % (short, op, recv[:70]))


def _ast_aggregates(fn):
    out = []
    for b in sorted(fn.live_blocks()):
        for s in fn.stmts(b):
            if s[0] == "=" and s[2][0] == "agg" and isinstance(s[2][1], list) and s[2][1][0] == "adt" and re.search(r"^apollo_compiler::ast::\w+(Definition|Extension)$", s[2][1][1]):
                out.append((s[2][1][1], [fn.sym(o) for o in s[2][2]]))
    return out


def _check_agg(prog, rep, fn, astname, syms, selfpat, ext):
    """every field of the AST struct is drawn from the same-named field of self, with the
    right extension selector"""
    ast = prog.adt("^" + re.escape(astname) + "$")
    fl = _fields(ast)
    if len(fl) != len(syms):
        raise Undecided("aggregate of %s has %d operands for %d fields" % (astname, len(syms), len(fl)))
    sel = r"Option::None\{\}" if not ext else r"Option::Some\{&arg2\}"
    bad = []
    for (fname, fty), s in zip(fl, syms):
        src = selfpat + re.escape(fname)
        if fname in ("description", "name"):
            ok = re.fullmatch(r"<.+ as Clone>::clone\(&(\*)?%s\)" % src, s) is not None
        elif fname == "root_operations":
            cl = r"to_ast::\{closure#0\}\((&closure:[^,]+|&arg1\.1), tuple\(%s\)\)" % sel
            ok = re.fullmatch(cl, s) is not None
        elif "DirectiveList" in fty:
            ok = re.fullmatch(r"DirectiveList::DirectiveList\{serialize::components\(&(\*)?%s, %s\)\}" % (src, sel), s) is not None
        elif "Vec<apollo_compiler::name::Name>" in fty:
            ok = re.fullmatch(r"serialize::names\(&%s, %s\)" % (src, sel), s) is not None
        else:
            ok = re.fullmatch(r"serialize::components\(IndexMap::values\(&%s\), %s\)" % (src, sel), s) is not None
        rep.obligation(ok)
        if not ok:
            bad.append((fname, s))
    return fl, bad


def rule_split(prog, rep):
    rep.floor("C12.SPLIT", 17)
    for t in TYPES + ["Schema"]:
        if t == "Schema":
            fn = prog.fn(r"^apollo_compiler::schema::serialize::<impl apollo_compiler::node::Node<apollo_compiler::schema::SchemaDefinition>>::to_ast$")
            selfd = r"<Node<T> as Deref>::deref\(&arg1\)\."
            selfe = r"<Node<T> as Deref>::deref\(&arg1\.0\)\."
            sty = prog.adt(r"^apollo_compiler::schema::SchemaDefinition$")
            defname, extname = "apollo_compiler::ast::SchemaDefinition", "apollo_compiler::ast::SchemaExtension"
        else:
            fn = prog.fn(r"^apollo_compiler::schema::serialize::<impl apollo_compiler::schema::%sType>::to_ast$" % t)
            selfd, selfe = r"arg1\.", r"arg1\.0\."
            sty = prog.adt(r"^apollo_compiler::schema::%sType$" % t)
            defname, extname = "apollo_compiler::ast::%sTypeDefinition" % t, "apollo_compiler::ast::%sTypeExtension" % t
        closures = [g for g in prog.fns.values() if g.root == fn.uid and g.kind == "closure"]
        d_aggs = [a for a in _ast_aggregates(fn) if a[0] == defname]
        e_aggs = [(g, a) for g in closures for a in _ast_aggregates(g) if a[0] == extname]
        if len(d_aggs) != 1 or len(e_aggs) != 1:
            rep.fail("UNDECIDED rule=C12.SPLIT %s: expected one %s and one %s aggregate (found %d / %d)" % (fn.name, defname, extname, len(d_aggs), len(e_aggs)))
            continue
        dfl, dbad = _check_agg(prog, rep, fn, defname, d_aggs[0][1], selfd, False)
        efl, ebad = _check_agg(prog, rep, e_aggs[0][0], extname, e_aggs[0][1][1], selfe, True)
        for fname, s in dbad:
            rep.finding("C12.SPLIT", fn.name, "definition:" + fname,
                        "%s.%s is not built from self.%s restricted to the definition's own components (got `%s`)" % (defname.split("::")[-1], fname, fname, s[:150]), fn.loc())
        for fname, s in ebad:
            rep.finding("C12.SPLIT", fn.name, "extension:" + fname,
                        "%s.%s is not built from self.%s restricted to this extension's components (got `%s`)" % (extname.split("::")[-1], fname, fname, s[:150]), fn.loc())
        # coverage: every field of the schema type appears in the definition; every component
        # collection appears in the extension
        sfl = _fields(sty)
        dn = {f for f, _ in dfl}
        en = {f for f, _ in efl}
        for fname, fty in sfl:
            afield = "root_operations" if fname in ("query", "mutation", "subscription") else fname
            if afield not in dn:
                rep.finding("C12.SPLIT", fn.name, "definition-lacks:" + fname, "%s has no counterpart of schema field `%s`" % (defname, fname), fn.loc())
            if (COLLECTION.search(fty) or "DirectiveList" in fty or afield == "root_operations") and afield not in en:
                rep.finding("C12.SPLIT", fn.name, "extension-lacks:" + fname, "%s has no counterpart of component collection `%s`" % (extname, fname), fn.loc())
        if not dbad and not ebad:
            rep.instance("C12.SPLIT", "%s: definition takes %s with None; extension takes %s with Some(ext)" % (
                sty["name"].split("::")[-1], sorted(dn), sorted(en)))
        # the extension closure is mapped over self.extensions()
        ext_calls = [c for c in fn.live_calls() if re.search(r"::extensions$", c.name)]
        mapped = [c for c in fn.live_calls() if re.search(r"Iterator::map$", c.name) and "extensions(" in fn.sym(c.args[0]) and "into_iter(" in fn.sym(c.args[0])]
        chained = [c for c in fn.live_calls() if re.search(r"Iterator::chain$", c.name)]
        if len(ext_calls) == 1 and len(mapped) == 1 and chained:
            rep.instance("C12.SPLIT", "%s: one extension definition per self.extensions() entry, chained after the definition" % sty["name"].split("::")[-1])
        else:
            rep.finding("C12.SPLIT", fn.name, "extension-iteration", "extensions are not produced by mapping the closure over self.extensions()", fn.loc())
    # helper pipelines
    pipes = [
        (r"^apollo_compiler::schema::serialize::components$", r"^Iterator::collect\(Iterator::map\(Iterator::filter\(IntoIterator::into_iter\(arg1\), closure:[^,]+\), closure:[^,]+\)\)$", r"&arg2\.origin", r"<Node<T> as Clone>::clone\(&arg2\.node\)"),
        (r"^apollo_compiler::schema::serialize::names$", r"^Iterator::collect\(Iterator::map\(Iterator::filter\(IndexSet::iter\(&arg1\), closure:[^,]+\), closure:[^,]+\)\)$", r"&arg2\.origin", r"<Name as Clone>::clone\(&arg2\.name\)"),
        (r"SchemaDefinition>>::to_ast::\{closure#0\}$", r"^Iterator::collect\(Iterator::map\(Iterator::filter\(SchemaDefinition::iter_root_operations\(&\*<Node<T> as Deref>::deref\(&arg1\.0\)\), closure:[^,]+\), closure:[^,]+\)\)$", r"&arg2\.1\.origin", r"<T as Into<U>>::into\(tuple\(arg2\.0, <Name as Clone>::clone\(&arg2\.1\.name\)\)\)"),
    ]
    for pat, shape, origin, proj in pipes:
        fn = prog.fn(pat)
        rows = enum_paths(fn)
        rv = return_value_on_path(fn, rows[0][2]) if len(rows) == 1 else None
        ok = rv is not None and re.match(shape, rv) is not None
        subs = sorted((g for g in prog.fns.values() if g.parent == fn.uid and g.kind == "closure"), key=lambda g: g.name)
        if len(subs) == 2:
            f_rows, m_rows = enum_paths(subs[0]), enum_paths(subs[1])
            frv = return_value_on_path(subs[0], f_rows[0][2]) if len(f_rows) == 1 else ""
            mrv = return_value_on_path(subs[1], m_rows[0][2]) if len(m_rows) == 1 else ""
            okf = re.fullmatch(r"<Option<T> as PartialEq>::eq\(&ComponentOrigin::extension_id\(%s\), &arg1\.0\)" % origin, frv or "") is not None
            okm = re.fullmatch(proj, mrv or "") is not None
        else:
            okf = okm = False
            frv = mrv = "?"
        rep.obligation(ok and okf and okm)
        if ok and okf and okm:
            rep.instance("C12.SPLIT", "%s: filter(origin.extension_id() == ext) -> map(clone) -> collect, no other adaptor" % fn.name.split("::")[-1])
        else:
            rep.finding("C12.SPLIT", fn.name, "pipeline",
                        "the component selection helper is no longer filter(extension_id == ext).map(clone).collect (pipeline `%s`, filter `%s`, map `%s`)" % ((rv or "?")[:120], (frv or "?")[:100], (mrv or "?")[:80]), fn.loc())


def _chain_sources(sym):
    """access paths `arg1.<field>` in chain order inside the symbolic value of iter_origins"""
    return re.findall(r"arg1\.(\w+)", sym)


def rule_origins(prog, rep):
    rep.floor("C12.ORIGINS", 16)
    rep.floor("C12.EXTORDER", 2)
    for t in TYPES + ["SchemaDefinition"]:
        tn = t if t == "SchemaDefinition" else t + "Type"
        sty = prog.adt(r"^apollo_compiler::schema::%s$" % tn)
        io = prog.fn(r"^apollo_compiler::schema::%s::iter_origins$" % tn)
        rows = enum_paths(io)
        if len(rows) != 1:
            raise Undecided("%s is not straight-line" % io.name)
        rv = return_value_on_path(io, rows[0][2]) or ""
        srcs = _chain_sources(rv)
        comp = [(f, ty) for f, ty in _fields(sty) if re.search(r"Component<|ComponentName|DirectiveList", ty)]
        missing = [f for f, _ in comp if f not in srcs]
        dup = [f for f in set(srcs) if srcs.count(f) > 1]
        # each mapped closure projects `.origin`
        cls = [g for g in prog.fns.values() if g.parent == io.uid and g.kind == "closure"]
        proj_ok = True
        for g in cls:
            r2 = enum_paths(g)
            sy = None
            for b in r2[0][2]:
                for s in g.stmts(b):
                    if s[0] == "=" and s[1][0] == 0 and not s[1][1] and s[2][0] == "ref":
                        sy = g.sym(s[2][2])
            if sy is None or not re.fullmatch(r"arg2\.origin", sy):
                proj_ok = False
        rep.obligation(not missing and not dup and proj_ok and len(cls) == len(srcs))
        if missing:
            for f in missing:
                rep.finding("C12.ORIGINS", io.name, "omits:" + f,
                            "%s::iter_origins does not visit `%s`: an extension that contributes only to `%s` is not discovered by extensions() and its components are dropped from the serialized schema" % (tn, f, f), io.loc())
        elif dup or not proj_ok or len(cls) != len(srcs):
            rep.finding("C12.ORIGINS", io.name, "shape", "iter_origins is not a chain of `<collection>.iter().map(|c| &c.origin)` over distinct collections (`%s`)" % rv[:160], io.loc())
        else:
            rep.instance("C12.ORIGINS", "%s::iter_origins covers %s" % (tn, srcs))
        ex = prog.fn(r"^apollo_compiler::schema::%s::extensions$" % tn)
        r3 = enum_paths(ex)
        rv3 = return_value_on_path(ex, r3[0][2]) if len(r3) == 1 else ""
        ok3 = re.fullmatch(r"Iterator::collect\(Iterator::filter_map\(%s::iter_origins\(&arg1\), closure:[^,]+\)\)" % tn, rv3 or "") is not None
        ok3 = ok3 and ex.local_ty(0).startswith("indexmap::IndexSet<&")
        rep.obligation(ok3)
        if ok3:
            rep.instance("C12.ORIGINS", "%s::extensions = iter_origins().filter_map(extension_id).collect::<IndexSet>()" % tn)
        else:
            rep.finding("C12.ORIGINS", ex.name, "extensions-shape", "extensions() is no longer the insertion-ordered set of extension ids of iter_origins() (`%s` : %s)" % ((rv3 or "?")[:120], ex.local_ty(0)[:60]), ex.loc())
        # EXTORDER
        cty = dict(comp)
        multi = [f for f in srcs if f in cty and re.search(r"IndexMap<|IndexSet<|Vec<|DirectiveList", cty[f])]
        if len(multi) >= 2 and ok3:
            rep.finding("C12.EXTORDER", ex.name, "chain-order",
                        "extensions of %s are emitted in first-occurrence order over the chain %s; an extension that adds only to a later collection is emitted after a later extension that adds to an earlier one, so the re-parsed %s is reordered" % (tn, multi, multi[-1]), ex.loc())
        elif len(multi) < 2:
            rep.instance("C12.EXTORDER", "%s: extension order is decided by a single multi-element collection %s" % (tn, multi))
    for nm, want in (("serialize::<impl apollo_compiler::schema::ExtendedType>::to_ast", r"schema::serialize::<impl apollo_compiler::schema::%sType>::to_ast$"),
                     ("ExtendedType::iter_origins", r"schema::%sType::iter_origins$")):
        fn = prog.fn(r"^apollo_compiler::schema::%s$" % re.escape(nm))
        info = fn.switch_info(0)
        if not info or info.get("kind") != "enum" or not info["adt"].endswith("ExtendedType"):
            raise Undecided("%s does not start with a match on ExtendedType" % fn.name)
        for v in TYPES:
            t = info["edges"].get(v)
            others = [x for vv, x in info["edges"].items() if vv != v]
            reach = fn.reachable_blocks([t], avoid=others) if t is not None else set()
            cs = [c for c in fn.live_calls() if c.block in reach and re.search(r"::(to_ast|iter_origins)$", c.name)]
            ok = len(cs) == 1 and re.search(want % v, cs[0].name) is not None and ("as:%s.0" % v) in fn.sym(cs[0].args[0])
            rep.obligation(ok)
            if ok:
                rep.instance("C12.ORIGINS", "%s: variant %s -> %s" % (nm.split("::")[-1], v, cs[0].name.split("schema::")[-1]))
            else:
                rep.finding("C12.ORIGINS", fn.name, "dispatch:" + v, "variant %s is not dispatched to %sType's own implementation" % (v, v), fn.loc())


def rule_rootops(prog, rep):
    rep.floor("C12.ROOTOPS", 1)
    fn = prog.fn(r"^apollo_compiler::schema::SchemaDefinition::iter_root_operations$")
    rows = enum_paths(fn)
    rv = return_value_on_path(fn, rows[0][2]) if len(rows) == 1 else ""
    want = r"array\(tuple\(OperationType::Query\{\}, &arg1\.query\), tuple\(OperationType::Mutation\{\}, &arg1\.mutation\), tuple\(OperationType::Subscription\{\}, &arg1\.subscription\)\)"
    ok = rv is not None and re.search(want, rv) is not None and rv.startswith("Iterator::filter_map(")
    rep.obligation(ok)
    if ok:
        rep.instance("C12.ROOTOPS", "iter_root_operations: (Query, query), (Mutation, mutation), (Subscription, subscription) in that order")
    else:
        rep.finding("C12.ROOTOPS", fn.name, "pairs", "root operations are not paired with the same-named fields in query/mutation/subscription order (`%s`)" % (rv or "?")[:200], fn.loc())


def rule_implicit(prog, rep):
    rep.floor("C12.IMPLICIT", 2)
    fn = prog.fn(r"^apollo_compiler::schema::serialize::<impl apollo_compiler::node::Node<apollo_compiler::schema::SchemaDefinition>>::to_ast$")
    # the `None` that stands for "no schema definition emitted"
    nones = []
    for b in sorted(fn.live_blocks()):
        for s in fn.stmts(b):
            if s[0] == "=" and s[2][0] == "agg" and isinstance(s[2][1], list) and s[2][1][0] == "adt" and s[2][1][2] == "None" and "ast::Definition" in fn.local_ty(s[1][0]):
                nones.append(b)
    if len(nones) != 1:
        raise Undecided("expected one `None` of type Option<ast::Definition> in %s (found %d)" % (fn.name, len(nones)))
    nb = nones[0]
    idom = fn.dominators()
    sw = idom[nb]
    info = fn.switch_info(sw)
    if not info or info.get("kind") != "bool" or info["edges"].get(True) != nb:
        raise Undecided("the omitted-definition branch is not the true edge of a boolean test")
    # follow the copy to the decision local
    l = info["local"]
    sd = fn.single_def(l)
    while sd is not None and sd[2][0] == "use" and sd[2][1][0] in ("c", "m") and not sd[2][1][1][1]:
        l = sd[2][1][1][0]
        sd = fn.single_def(l)
    defs = [x for x in fn.defs().get(l, []) if not x[3] and x[0] in fn.live_blocks()]
    n_ok = 0
    for b, i, rv, _p in defs:
        if rv[0] == "use" and rv[1][0] == "k":
            if rv[1][2] == "false":
                continue
            facts = _strip(facts_at(fn, b))
            ok = any(f[0] == "callbool" and f[1].endswith("Vec::<T, A>::is_empty") and f[3] is True and "to_ast::{closure#0}" in (f[2][0] or "") for f in facts)
            what = "every root operation comes from an extension (root_ops(None).is_empty())"
        else:
            facts = _strip(facts_at(fn, b))
            need = {
                "description.is_none()": lambda f: f[0] == "callbool" and f[1].endswith("Option::<T>::is_none") and f[3] is True and "description" in (f[2][0] or ""),
                "directives.is_empty()": lambda f: f[0] == "callbool" and f[1].endswith("is_empty") and f[3] is True and "directives" in (f[2][0] or ""),
                "extensions.is_empty()": lambda f: f[0] == "callbool" and f[1].endswith("IndexSet::<T, S>::is_empty") and f[3] is True and "extensions" in (f[2][0] or ""),
                "roots are the default names (all)": lambda f: f[0] == "callbool" and f[1].endswith("Iterator::all") and f[3] is True,
            }
            miss = [k for k, p in need.items() if not any(p(f) for f in facts)]
            ok = not miss
            what = "no description, no directives, no extensions, default root names" if ok else "missing conjunct(s): %s" % miss
        rep.obligation(ok)
        if ok:
            n_ok += 1
            rep.instance("C12.IMPLICIT", "schema definition omitted only when %s" % what)
        else:
            rep.finding("C12.IMPLICIT", fn.name, "implicit#%d" % n_ok,
                        "the `schema` definition can be omitted although it carries information (%s): description/directives/extensions/non-default roots would be lost on round trip" % what, fn.loc())


def rule_implicit_roots(prog, rep):
    """C12.IMPLICIT (roots): the per-operation test inside `.all(..)` must be an *equality* between
    the root the schema has and the root an implicit schema definition would give
    (default-named object type present -> Some(default name), else None).  `has none or equal`
    omits the definition of `schema { query: Query }` in a document that also defines an ordinary
    `type Mutation`: the re-parsed schema adopts it as a root."""
    fn = prog.fn(r"^apollo_compiler::schema::serialize::<impl apollo_compiler::node::Node<apollo_compiler::schema::SchemaDefinition>>::to_ast$")
    alls = [c for c in fn.live_calls() if c.name.endswith("Iterator::all")]
    done = False
    for c in alls:
        m = re.search(r"closure:([^,()]+\{closure#\d+\})", fn.sym(c.args[1]))
        clo = prog.fns.get(m.group(1)) if m else None
        if clo is None:
            continue
        leaves = set(return_value_on_path(clo, p) or "" for _a, _r, p in enum_paths(clo))
        done = True
        ok = len(leaves) == 1
        leaf = sorted(leaves)[0] if leaves else ""
        mm = re.match(r"^<Option<T> as PartialEq>::eq\(&?(.*), &?(bool::then_some\(.*default_type_name\(.*)\)$", leaf) or re.match(r"^<Option<T> as PartialEq>::eq\(&?(bool::then_some\(.*default_type_name\(.*), &?(.*)\)$", leaf)
        ok = ok and mm is not None and "arg2.0" in leaf and re.search(r"is_some_and\(IndexMap::get\(", leaf) is not None
        rep.obligation(ok)
        if ok:
            rep.instance("C12.IMPLICIT", "per operation type: root present == root an implicit definition would have (Option equality with then_some(default-named object exists, default name))")
        else:
            rep.finding("C12.IMPLICIT", fn.name, "roots-equality",
                        "the per-operation test of the implicit-schema check is `%s`, not an equality between the schema's root and the root an implicit definition would give: an explicit `schema { query: Query }` can be omitted while a default-named `type Mutation` exists, and the re-parsed schema gains that root" % leaf[:160], clo.loc())
    if not done:
        rep.fail("UNDECIDED rule=C12.IMPLICIT the per-operation root test (`.all(closure)`) was not found")


def rule_toplevel(prog, rep):
    rep.floor("C12.TOPLEVEL", 3)
    fn = prog.fn(r"^apollo_compiler::schema::serialize::<impl apollo_compiler::schema::Schema>::to_ast$")
    rows = enum_paths(fn)
    rv = return_value_on_path(fn, rows[0][2]) if len(rows) == 1 else ""
    shape = (r"^Iterator::chain\(Iterator::chain\(serialize::to_ast\(&arg1\.schema_definition, &arg1\.types\), "
             r"Iterator::map\(Iterator::filter\(IndexMap::values\(&arg1\.directive_definitions\), closure:[^,]+\), closure:[^,]+\)\), "
             r"Iterator::flat_map\(IndexMap::values\(&arg1\.types\), .*\)\)$")
    ok = re.match(shape, rv or "") is not None
    rep.obligation(ok)
    if ok:
        rep.instance("C12.TOPLEVEL", "Schema::to_ast = schema definition ++ directive definitions ++ types (each in map order)")
    else:
        rep.finding("C12.TOPLEVEL", fn.name, "chain", "Schema::to_ast is no longer schema_definition ++ directive_definitions.values() ++ types.values() (`%s`)" % (rv or "?")[:200], fn.loc())
    cls = sorted((g for g in prog.fns.values() if g.parent == fn.uid and g.kind == "closure"), key=lambda g: g.name)
    if len(cls) != 3:
        raise Undecided("Schema::to_ast: expected 3 closures, found %d" % len(cls))
    f0 = cls[0]
    r0 = enum_paths(f0)
    rv0 = return_value_on_path(f0, r0[0][2]) if len(r0) == 1 else ""
    ok0 = re.fullmatch(r"Not\(Node::is_built_in\(&arg2\)\)", rv0 or "") is not None
    rep.obligation(ok0)
    if ok0:
        rep.instance("C12.TOPLEVEL", "directive definitions: only built-in ones are skipped")
    else:
        rep.finding("C12.TOPLEVEL", f0.name, "directive-filter", "directive definitions are filtered by `%s`, not by !is_built_in()" % rv0, f0.loc())
    f2 = cls[2]
    nxt = [c for c in f2.live_calls() if re.search(r"Iterator.*::next$", c.name)]
    ok2 = len(nxt) == 1
    if ok2:
        facts = _strip(facts_at(f2, nxt[0].block))
        ok2 = any(f[0] == "callbool" and f[1].endswith("ExtendedType::is_built_in") and f[3] is True for f in facts)
        ok2 = ok2 and nxt[0].block not in f2.reachable_blocks([nxt[0].target])
    toast = [c for c in f2.live_calls() if re.search(r"ExtendedType>::to_ast$", c.name) and f2.sym(c.args[0]) == "&arg2"]
    ok2 = ok2 and len(toast) == 1
    rep.obligation(ok2)
    if ok2:
        rep.instance("C12.TOPLEVEL", "types: exactly the first item (the definition) is skipped, only for built-in types")
    else:
        rep.finding("C12.TOPLEVEL", f2.name, "builtin-skip", "the per-type closure skips items other than the definition of a built-in type", f2.loc())


def run(prog, rep):
    rule_ordered(prog, rep)
    rule_noperturb(prog, rep)
    rule_split(prog, rep)
    rule_origins(prog, rep)
    rule_rootops(prog, rep)
    rule_implicit(prog, rep)
    rule_implicit_roots(prog, rep)
    rule_toplevel(prog, rep)
    # the serialized form is printed by the AST printer: its dispatch / separator / string rules
    # are necessary conditions here too (decided by C08 / C09, shared)
    from . import C08
    C08.run(prog, rep)
    rep.assume("indexmap keeps insertion order under insert/shift_remove/retain; Vec keeps push order")
    rep.note("round-trip equality, the closure that compares actual and default root names, and AST serialization itself (C08/C09) are not decided here")
