"""C16 — Validation is idempotent (DESIGN.md C16)."""
import re

from ..core import AnchorError, Undecided, op_local, op_place, norm_path
from ..flow import _strip, always_reaches, closure_captures, derives
from ..tables import enum_paths, return_value_on_path

CRATES = ["apollo_compiler"]
LEVEL = "other"
EXPLANATION = """
Re-validation leaves a valid schema identical iff the only thing validate_schema changes is the
set of built-in scalar definitions, and that set is a function of the references alone.
C16.PRUNE: the retain closure removes an entry iff it is built-in AND a built-in scalar AND not
recorded as used (decision table over the 3 atoms, 8 rows), runs on schema.types, and is skipped
only when all_used() (= every built-in scalar was recorded).  C16.RECORD: record_type_ref files
a built-in scalar name under used_and_defined when schema.types has it and under
used_and_undefined otherwise, and nothing else; every container of type references in a schema
(object/interface fields, input-object fields, field arguments, directive-definition arguments)
is handed, on every path, to a loop whose every iteration calls record_type_ref on the element's
inner named type.  C16.RESTORE: after the prune, on every path, a loop over used_and_undefined
inserts all[name] (as ExtendedType::Scalar) into schema.types for each element.  C16.PURE: the
only mutable borrows of the schema inside validate_schema are those two; the callees get &Schema
(and executable validation gets & references), and the only interior-mutable state reachable from
Schema / ExecutableDocument is reference counts and the lazily built ariadne::Source cache.
Decides these necessary conditions, not equality of the schema before and after.
"""

SCHEMA_FN = r"^apollo_compiler::schema::validation::validate_schema$"
RECORD = r"^apollo_compiler::schema::validation::BuiltInScalars::record_type_ref$"


def _loop_headers(fn):
    """blocks calling Iterator::next, with the (some_target, none_target) of the switch on the result"""
    from ..flow import branch_on_enum_call

    out = {}
    for c in fn.live_calls():
        if re.search(r"Iterator>::next$|Iterator::next$", c.name):
            r = branch_on_enum_call(fn, c)
            if r is None:
                continue
            info, sb = r
            e = info["edges"]
            if "Some" in e:
                out[c.block] = (e["Some"], e.get("None", info.get("rest")), c)
    return out


def _enclosing_loop(fn, b, headers):
    """innermost loop header whose body (Some edge .. back to header) contains b"""
    best = None
    for h, (some, none, c) in headers.items():
        body = fn.reachable_blocks([some], avoid=[h])
        if b in body and h in _succ_closure(fn, b, h):
            if best is None or len(body) < best[1]:
                best = (h, len(body))
    return best[0] if best else None


def _succ_closure(fn, b, stop):
    return fn.reachable_blocks([b]) | {stop} if stop in fn.reachable_blocks([b]) else set()


def rule_prune(prog, rep):
    fn = prog.fn(SCHEMA_FN)
    ret = [c for c in fn.live_calls() if re.search(r"IndexMap::<K, V, S>::retain$", c.name)]
    if len(ret) != 1:
        raise AnchorError("validate_schema: expected exactly one IndexMap::retain call, found %d" % len(ret))
    c = ret[0]
    recv = derives(fn, c.args[0])[0]
    if recv != {"arg2.types"}:
        rep.finding("C16.PRUNE", fn.name, "retain-receiver", "retain runs on %s, not on schema.types" % sorted(recv), c.loc())
    clo_uid, caps = closure_captures(fn, c.args[1])
    if clo_uid is None:
        raise AnchorError("validate_schema: retain argument is not a local closure")
    clo = prog.fns[clo_uid]
    capname = {}
    for i, p in enumerate(caps):
        capname["arg1.%d" % i] = (p or "").split(".")[-1]
    rows = {}

    def classify(f):
        if f[0] != "callbool":
            raise Undecided("retain closure branches on something other than a boolean call: %s" % (f,))
        name, args, val = f[1], f[2], f[3]
        if re.search(r"ExtendedType::is_built_in$", name) and args[0] == "arg3":
            return "built_in", val
        if re.search(r"HashMap::<.*>::contains_key$", name) and capname.get(args[0]) == "all" and args[1] == "arg2":
            return "is_scalar", val
        if re.search(r"HashSet::<.*>::contains$", name) and capname.get(args[0]) == "used_and_defined" and args[1] == "arg2":
            return "used", val
        raise Undecided("retain closure: unrecognised atom %s(%s)" % (name, args))

    def add_row(known, leaf):
        unknown = [a for a in ("built_in", "is_scalar", "used") if a not in known]
        for bits in range(1 << len(unknown)):
            a = dict(known)
            for i, x in enumerate(unknown):
                a[x] = bool(bits >> i & 1)
            key = (a["built_in"], a["is_scalar"], a["used"])
            if key in rows and rows[key] != leaf:
                raise Undecided("retain closure: two paths for row %s" % (key,))
            rows[key] = leaf

    from ..flow import _bool_facts
    from ..core import op_local
    for atoms, rb, path in enum_paths(clo):
        known = {}
        for f in _strip(atoms):
            k, v = classify(f)
            known[k] = v
        leaf = return_value_on_path(clo, path)
        if leaf in ("const:true", "const:false"):
            add_row(known, leaf)
            continue
        # the returned value is itself one of the atoms (`a || !b || c` ends in `c`): split the row
        rl = None
        for b in path:
            for st in clo.stmts(b):
                if st[0] == "=" and st[1][0] == 0 and not st[1][1] and st[2][0] == "use":
                    rl = op_local(st[2][1])
            t = clo.term(b)
            if t[0] == "call" and t[3][0] == 0 and not t[3][1]:
                rl = 0
        fs = _strip(_bool_facts(clo, rl, True, 0)) if rl is not None else []
        if len(fs) != 1:
            raise Undecided("retain closure returns %s" % leaf)
        k, v = classify(fs[0])
        for val in (True, False):
            # returned value is true exactly when atom k has value v
            atom_val = v if val else (not v)
            if k in known and known[k] != atom_val:
                continue
            kk = dict(known)
            kk[k] = atom_val
            add_row(kk, "const:true" if val else "const:false")
    if len(rows) != 8:
        raise Undecided("retain closure: %d of 8 rows covered" % len(rows))
    for (bi, sc, used), leaf in sorted(rows.items()):
        want = "const:false" if (bi and sc and not used) else "const:true"
        ok = leaf == want
        rep.obligation(ok)
        rep.instance("C16.PRUNE", "row built_in=%s builtin_scalar=%s used=%s -> keep=%s" % (bi, sc, used, leaf == "const:true"))
        if not ok:
            rep.finding("C16.PRUNE", clo.name, "row:%s,%s,%s" % (bi, sc, used),
                        "the prune closure %s an entry with built_in=%s, built-in-scalar-name=%s, used=%s; only unused built-in scalar definitions may go" % (
                            "removes" if leaf == "const:false" else "keeps", bi, sc, used), clo.loc())
    # the guard: retain is skipped only on all_used() == true
    from ..flow import facts_at
    fs = _strip(facts_at(fn, c.block))
    guards = [f for f in fs if f[0] == "callbool" and re.search(r"BuiltInScalars::all_used$", f[1])]
    other = [f for f in fs if f not in guards and f[0] in ("callbool", "cmp", "place") and not re.search(r"Iterator", str(f[1]))]
    if other:
        rep.finding("C16.PRUNE", fn.name, "extra-guard", "the prune is additionally guarded by %s" % (other,), c.loc())
    if guards:
        if any(g[3] is not False for g in guards):
            rep.finding("C16.PRUNE", fn.name, "guard-polarity", "the prune runs when all_used() is true", c.loc())
        au = prog.fn(r"^apollo_compiler::schema::validation::BuiltInScalars::all_used$")
        leaves = set(return_value_on_path(au, p) for _a, _r, p in enum_paths(au))
        want = r"^Eq\(Add\((HashSet|IndexSet)::len\(&arg1\.used_and_(un)?defined\), (HashSet|IndexSet)::len\(&arg1\.used_and_(un)?defined\)\)\.0, HashMap::len\(&arg1\.all\)\)$"
        ok = len(leaves) == 1 and all(re.match(want, x or "") for x in leaves) and "used_and_defined" in list(leaves)[0] and "used_and_undefined" in list(leaves)[0]
        rep.obligation(ok)
        if not ok:
            rep.finding("C16.PRUNE", au.name, "all-used", "all_used() is not `|used_and_defined| + |used_and_undefined| == |all|` (it is %s), so the prune may be skipped while an unused built-in scalar is defined" % sorted(leaves), au.loc())
        rep.instance("C16.PRUNE", "prune guarded by !all_used(); all_used = %s" % sorted(leaves))
    else:
        rep.instance("C16.PRUNE", "prune is unconditional")


def rule_record(prog, rep):
    fn = prog.fn(RECORD)
    n = 0
    for atoms, rb, path in enum_paths(fn):
        known = {}
        for f in _strip(atoms):
            if f[0] == "callbool" and re.search(r"HashMap::<.*>::contains_key$", f[1]) and f[2] == ("arg1.all", "arg3"):
                known["scalar"] = f[3]
            elif f[0] == "callbool" and re.search(r"IndexMap::<.*>::contains_key$", f[1]) and f[2] == ("arg2.types", "arg3"):
                known["defined"] = f[3]
            else:
                raise Undecided("record_type_ref: unrecognised atom %s" % (f,))
        inserts = []
        for b in path:
            c = fn.call_at(b)
            if c is None:
                continue
            if re.search(r"(HashSet|IndexSet)::<.*>::insert$", c.name):
                tgt = norm_path(fn.apath(op_place(c.args[0])))
                val = derives(fn, c.args[1])[0]
                inserts.append((tgt, "arg3" in val))
            elif re.search(r"::(insert|remove|clear|extend|swap_remove|shift_remove|retain)\w*$", c.name):
                raise Undecided("record_type_ref: unexpected mutation %s" % c.name)
        if "scalar" not in known:
            raise Undecided("record_type_ref: a path does not test membership in `all`")
        if not known["scalar"]:
            want = []
        else:
            if "defined" not in known:
                raise Undecided("record_type_ref: a built-in scalar path does not test schema.types")
            want = [("arg1.used_and_defined" if known["defined"] else "arg1.used_and_undefined", True)]
        ok = inserts == want
        rep.obligation(ok)
        n += 1
        rep.instance("C16.RECORD", "path %s -> inserts %s" % (sorted(known.items()), inserts))
        if not ok:
            rep.finding("C16.RECORD", fn.name, "row:%s" % ",".join("%s=%s" % kv for kv in sorted(known.items())),
                        "for %s record_type_ref performs %s, expected %s" % (sorted(known.items()), inserts, want), fn.loc())
        leaf = return_value_on_path(fn, path)
        if not re.match(r"^HashMap::contains_key\(&arg1\.all, &arg3\)$", leaf or ""):
            rep.finding("C16.RECORD", fn.name, "return", "record_type_ref returns %s, not `all.contains_key(name)`" % leaf, fn.loc())
    return n


# containers of type references: (ADT, field) -> element type
CONTAINERS = [
    (r"^apollo_compiler::schema::ObjectType$", "fields", "FieldDefinition"),
    (r"^apollo_compiler::schema::InterfaceType$", "fields", "FieldDefinition"),
    (r"^apollo_compiler::schema::InputObjectType$", "fields", "InputValueDefinition"),
    (r"^apollo_compiler::ast::FieldDefinition$", "arguments", "InputValueDefinition"),
    (r"^apollo_compiler::ast::DirectiveDefinition$", "arguments", "InputValueDefinition"),
]


def _recorders(prog, rep):
    """functions with a loop whose every iteration calls record_type_ref on
    `<element>.ty.inner_named_type()`; -> {uid: container-arg-index}"""
    out = {}
    for caller in prog.fns.values():
        if caller.crate != "apollo_compiler":
            continue
        sites = [c for c in caller.live_calls() if re.search(RECORD, c.name)]
        if not sites:
            continue
        headers = _loop_headers(caller)
        for c in sites:
            h = _enclosing_loop(caller, c.block, headers)
            if h is None:
                rep.finding("C16.RECORD", caller.name, "record-outside-loop", "record_type_ref is called outside a loop over definitions", c.loc())
                continue
            some, none, nxt = headers[h]
            if not always_reaches(caller, some, [c.block], [h] + list(caller.return_blocks())):
                rep.finding("C16.RECORD", caller.name, "record-skipped", "an iteration of the loop over definitions can finish without calling record_type_ref", c.loc())
                continue
            # the recorded name is the inner named type of the loop element's `ty`
            paths, calls = derives(caller, c.args[2])
            if not any(re.search(r"\binner_named_type$", x.name) and "Type" in x.name for x in calls) or not any(re.search(r"\.ty$", p) for p in paths):
                rep.finding("C16.RECORD", caller.name, "record-other-name", "record_type_ref is not given `<element>.ty.inner_named_type()` (derives from %s)" % sorted(paths), c.loc())
                continue
            if not any(x.block == h for x in calls):
                rep.finding("C16.RECORD", caller.name, "record-not-element", "the recorded name does not come from the loop element", c.loc())
                continue
            # which argument is iterated
            it_paths, _ = derives(caller, nxt.args[0])
            args = sorted(set(int(m.group(1)) for p in it_paths for m in [re.match(r"^arg(\d+)\b", p)] if m))
            args = [a for a in args if re.search(r"FieldDefinition|InputValueDefinition", caller.local_ty(a))]
            if len(args) != 1:
                raise Undecided("%s: cannot identify the iterated container argument (%s)" % (caller.name, it_paths))
            out[caller.uid] = args[0]
            rep.instance("C16.RECORD", "recorder %s: every iteration over arg%d calls record_type_ref(elem.ty.inner_named_type()) at %s" % (caller.name, args[0], c.loc()))
    return out


def _forwarders(prog, rep, recorders):
    """close recorders over functions that pass one of their own container arguments, on every
    path, to a recorder (e.g. validate_argument_definitions)"""
    changed = True
    while changed:
        changed = False
        for f in prog.fns.values():
            if f.crate != "apollo_compiler" or f.uid in recorders:
                continue
            for c in f.live_calls():
                if c.uid in recorders:
                    idx = recorders[c.uid] - 1
                    if idx >= len(c.args):
                        continue
                    pl = op_place(c.args[idx])
                    if pl is None:
                        continue
                    ap = norm_path(f.apath(pl))
                    m = re.match(r"^arg(\d+)$", ap)
                    if m and always_reaches(f, 0, [c.block], f.return_blocks()):
                        recorders[f.uid] = int(m.group(1))
                        rep.instance("C16.RECORD", "forwarder %s passes arg%s to %s on every path" % (f.name, m.group(1), c.name))
                        changed = True
                        break
    return recorders


def _has_ty(ty, short):
    return re.search(r"(?<![A-Za-z0-9_])%s(?![A-Za-z0-9_])" % re.escape(short), ty) is not None


def rule_cover(prog, rep):
    recorders = _forwarders(prog, rep, _recorders(prog, rep))
    entry = prog.fn(SCHEMA_FN)
    reach = prog.reachable([entry.uid])
    for adt_pat, field, elem in CONTAINERS:
        adt = prog.adt(adt_pat)
        fty = None
        for fl in (adt.get("variants") or [{}])[0].get("fields", []):
            if fl[0] == field:
                fty = fl[1]
        if fty is None or elem not in fty:
            raise AnchorError("%s.%s: field of %s not found (%s)" % (adt["name"], field, elem, fty))
        short = adt["name"].split("::")[-1]
        hits = []
        for uid in reach:
            f = prog.fns.get(uid)
            if f is None:
                continue
            for c in f.live_calls():
                if c.uid not in recorders:
                    continue
                idx = recorders[c.uid] - 1
                if not _has_ty(prog.fns[c.uid].local_ty(idx + 1), elem):
                    continue
                paths, calls = derives(f, c.args[idx])
                roots =[p for p in paths if re.search(r"\.%s$" % field, p)]
                ok_root = False
                for p in roots:
                    root = p.split(".")[0]
                    m = re.match(r"^arg(\d+)$", root)
                    if m and _has_ty(f.local_ty(int(m.group(1))), short):
                        ok_root = True
                    if root.startswith("call:") and "deref" in root.lower():
                        # Node<T>::deref(argN)
                        for x in calls:
                            if "@%d" % x.block in root and x.args:
                                l = op_local(x.args[0])
                                ap = norm_path(f.apath(op_place(x.args[0]))) if l is not None else ""
                                mm = re.match(r"^arg(\d+)$", ap)
                                if mm and _has_ty(f.local_ty(int(mm.group(1))), short):
                                    ok_root = True
                if not ok_root:
                    continue
                if always_reaches(f, 0, [c.block], f.return_blocks()):
                    hits.append((f, c))
        ok = bool(hits)
        rep.obligation(ok)
        if ok:
            f, c = hits[0]
            rep.instance("C16.COVER", "%s.%s -> %s in %s (on every path) at %s" % (short, field, c.name.split("::")[-1], f.name, c.loc()))
        else:
            rep.finding("C16.COVER", adt["name"], "container:" + field,
                        "type references in %s.%s are not handed (on every path of a validator reachable from validate_schema) to a loop that records built-in scalar use: a scalar referenced only there is pruned, or never restored, on re-validation" % (short, field), entry.loc())
    # the chain validate_schema -> per-kind validators: each match arm / loop body calls its validator on every path
    fn = entry
    need = {
        "Object": r"validation::object::validate_object_type_definition$",
        "Interface": r"validation::interface::validate_interface_definition$",
        "InputObject": r"validation::input_object::validate_input_object_definition$",
    }
    sw = [b for b in fn.live_blocks() if (fn.switch_info(b) or {}).get("kind") == "enum" and fn.switch_info(b)["adt"].endswith("schema::ExtendedType")]
    if len(sw) != 1:
        raise AnchorError("validate_schema: expected one match over ExtendedType, found %d" % len(sw))
    info = fn.switch_info(sw[0])
    headers = _loop_headers(fn)
    h = _enclosing_loop(fn, sw[0], headers)
    if h is None:
        raise AnchorError("validate_schema: the match over ExtendedType is not inside a loop")
    it_paths, _ = derives(fn, headers[h][2].args[0])
    if "arg2.types" not in it_paths:
        rep.finding("C16.COVER", fn.name, "types-loop", "the definition loop iterates %s, not schema.types" % sorted(it_paths), fn.loc())
    if not always_reaches(fn, headers[h][0], [sw[0]], [h] + list(fn.return_blocks())):
        rep.finding("C16.COVER", fn.name, "types-loop-skip", "an iteration over schema.types can skip the per-kind validator", fn.loc())
    if not always_reaches(fn, 0, [h], fn.return_blocks()):
        rep.finding("C16.COVER", fn.name, "types-loop-conditional", "the loop over schema.types is not on every path", fn.loc())
    for variant, pat in sorted(need.items()):
        start = info["edges"].get(variant)
        blocks = [c.block for c in fn.live_calls() if re.search(pat, c.name)]
        ok = start is not None and blocks and always_reaches(fn, start, blocks, [h] + list(fn.return_blocks()))
        rep.obligation(bool(ok))
        if ok:
            rep.instance("C16.COVER", "validate_schema: ExtendedType::%s arm always calls %s" % (variant, pat.split("::")[-1].rstrip("$")))
        else:
            rep.finding("C16.COVER", fn.name, "arm:" + variant, "the %s arm of the definition loop does not always call its validator" % variant, fn.loc())
    # directive definitions: loop over schema.directive_definitions
    dd = [c for c in fn.live_calls() if re.search(r"validation::directive::validate_directive_definitions$", c.name)]
    ok = bool(dd) and always_reaches(fn, 0, [c.block for c in dd], fn.return_blocks())
    rep.obligation(ok)
    if not ok:
        rep.finding("C16.COVER", fn.name, "directive-definitions", "validate_directive_definitions is not called on every path", fn.loc())
    vdd = prog.fn(r"^apollo_compiler::validation::directive::validate_directive_definitions$")
    hs = _loop_headers(vdd)
    okl = False
    for hh, (some, none, nxt) in hs.items():
        p, _ = derives(vdd, nxt.args[0])
        blocks = [c.block for c in vdd.live_calls() if re.search(r"validate_directive_definition$", c.name)]
        if "arg2.directive_definitions" in p and blocks and always_reaches(vdd, some, blocks, [hh] + list(vdd.return_blocks())) and always_reaches(vdd, 0, [hh], vdd.return_blocks()):
            okl = True
    rep.obligation(okl)
    if okl:
        rep.instance("C16.COVER", "validate_directive_definitions: every element of schema.directive_definitions is validated")
    else:
        rep.finding("C16.COVER", vdd.name, "loop", "not every directive definition reaches validate_directive_definition", vdd.loc())
    # field definitions -> arguments: validate_field_definitions calls validate_field_definition each iteration
    vfd = prog.fn(r"^apollo_compiler::validation::field::validate_field_definitions$")
    hs = _loop_headers(vfd)
    okf = False
    for hh, (some, none, nxt) in hs.items():
        blocks = [c.block for c in vfd.live_calls() if re.search(r"validate_field_definition$", c.name)]
        if blocks and always_reaches(vfd, some, blocks, [hh] + list(vfd.return_blocks())):
            okf = True
    rep.obligation(okf)
    if okf:
        rep.instance("C16.COVER", "validate_field_definitions: every field goes to validate_field_definition (arguments)")
    else:
        rep.finding("C16.COVER", vfd.name, "loop", "not every field definition reaches validate_field_definition (its arguments' types are then not recorded)", vfd.loc())


def rule_restore(prog, rep):
    fn = prog.fn(SCHEMA_FN)
    ret = [c for c in fn.live_calls() if re.search(r"IndexMap::<K, V, S>::retain$", c.name)]
    headers = _loop_headers(fn)
    found = None
    for h, (some, none, nxt) in headers.items():
        p, _ = derives(fn, nxt.args[0])
        if any(x.endswith(".used_and_undefined") for x in p):
            found = (h, some, none, nxt)
    if not found:
        rep.finding("C16.RESTORE", fn.name, "no-loop", "no loop over used_and_undefined: referenced built-in scalars that are missing are never restored", fn.loc())
        return
    h, some, none, nxt = found
    if not always_reaches(fn, 0, [h], fn.return_blocks()):
        rep.finding("C16.RESTORE", fn.name, "conditional", "the restore loop is not on every path", fn.loc())
    for r in ret:
        if h not in fn.reachable_blocks([r.block]):
            rep.finding("C16.RESTORE", fn.name, "order", "the restore loop does not come after the prune", fn.loc())
    ins = [c for c in fn.live_calls() if re.search(r"IndexMap::<K, V, S>::insert$", c.name) and derives(fn, c.args[0])[0] == {"arg2.types"}]
    ins = [c for c in ins if c.block in fn.reachable_blocks([some], avoid=[h])]
    if not ins or not always_reaches(fn, some, [c.block for c in ins], [h] + list(fn.return_blocks())):
        rep.finding("C16.RESTORE", fn.name, "skip", "an iteration over used_and_undefined can finish without inserting into schema.types", fn.loc())
        return
    for c in ins:
        kpaths, kcalls = derives(fn, c.args[1])
        vpaths, vcalls = derives(fn, c.args[2])
        idx = [x for x in vcalls if re.search(r"ops::Index<.*>>::index$", x.name)]
        ok = bool(idx) and all(any(p.endswith(".all") for p in derives(fn, x.args[0])[0]) and any(y.block == h for y in derives(fn, x.args[1])[1]) for x in idx)
        # the value is wrapped as ExtendedType::Scalar
        l = op_local(c.args[2])
        sd = fn.single_def(l) if l is not None else None
        wrapped = bool(sd and sd[2][0] == "agg" and isinstance(sd[2][1], list) and sd[2][1][1].endswith("ExtendedType") and sd[2][1][2] == "Scalar")
        kok = any(y.block == h for y in kcalls)
        rep.obligation(ok and wrapped and kok)
        if ok and wrapped and kok:
            rep.instance("C16.RESTORE", "each name in used_and_undefined: schema.types.insert(all[name].name, Scalar(all[name])) at %s" % c.loc())
        else:
            rep.finding("C16.RESTORE", fn.name, "value", "the restored entry is not ExtendedType::Scalar(all[name]) keyed by the loop element (value from all[name]: %s, Scalar: %s, key from element: %s)" % (ok, wrapped, kok), c.loc())


ALLOWED_CELLS = {
    r"Atomic<usize>$": "Arc reference counts (strong/count): not part of the value",
    r"OnceLock<ariadne::Source>$": "lazily built line index of an immutable source text; a pure function of the text",
}


def rule_pure(prog, rep):
    fn = prog.fn(SCHEMA_FN)
    # every mutable borrow rooted at the schema argument
    muts = []
    for b in sorted(fn.live_blocks()):
        for s in fn.stmts(b):
            if s[0] == "=" and s[2][0] in ("ref", "raw") and (s[2][1] == "mut" or "Mut" in str(s[2][1])):
                ap = fn.apath(s[2][2])
                if ap[0] == "arg2":
                    muts.append((b, s[1][0], norm_path(ap), s[3][0]))
        t = fn.term(b)
        if t[0] == "call":
            c = fn.call_at(b)
            for a in c.args:
                if a[0] == "m" and op_place(a) == [2, []]:
                    muts.append((b, None, "arg2(moved)", 0))
    uses = {}
    for b, l, path, line in muts:
        users = [c for c in fn.live_calls() if l is not None and any(op_local(a) == l for a in c.args)]
        # follow one reborrow
        if not users and l is not None:
            for bb in fn.live_blocks():
                for s in fn.stmts(bb):
                    if s[0] == "=" and s[2][0] in ("ref", "use") and ((s[2][0] == "ref" and s[2][2][0] == l) or (s[2][0] == "use" and op_local(s[2][1]) == l)):
                        users += [c for c in fn.live_calls() if any(op_local(a) == s[1][0] for a in c.args)]
        names = sorted(set(c.name for c in users))
        ok = path == "arg2.types" and names and all(re.search(r"IndexMap::<K, V, S>::(retain|insert)$", n) for n in names)
        rep.obligation(bool(ok))
        rep.instance("C16.PURE", "&mut %s used by %s" % (path, names))
        if not ok:
            rep.finding("C16.PURE", fn.name, "mut:%s:%s" % (path, ",".join(n.split("::")[-1] for n in names) or "?"),
                        "validate_schema mutates the schema through `&mut %s` passed to %s; only the prune (retain) and restore (insert) on schema.types may write" % (path, names or "an unresolved use"), fn.loc(line))
    if len(muts) < 1:
        raise AnchorError("validate_schema: no mutable borrow of the schema found (prune/restore moved?)")
    # callee signatures
    for pat, want in [
        (r"^apollo_compiler::executable::validation::validate_executable_document$", None),
        (r"^apollo_compiler::executable::validation::validate_field_set$", None),
    ]:
        for f in prog.fns_matching(pat):
            bad = [t for t in f.d.get("sig_in", []) if re.search(r"&mut .*(Schema|ExecutableDocument|FieldSet)\b", t)]
            rep.obligation(not bad)
            rep.instance("C16.PURE", "%s takes %s" % (f.name, [t for t in f.d.get("sig_in", []) if "Schema" in t or "Document" in t or "FieldSet" in t]))
            if bad:
                rep.finding("C16.PURE", f.name, "sig", "executable validation takes %s" % bad, f.loc())
    for pat in [r"^apollo_compiler::schema::Schema$", r"^apollo_compiler::executable::ExecutableDocument$"]:
        a = prog.adt(pat)
        for path, ty in a["cells"]:
            why = [w for rx, w in ALLOWED_CELLS.items() if re.search(rx, ty)]
            rep.obligation(bool(why))
            if why:
                rep.instance("C16.PURE", "%s: interior-mutable %s allowed: %s" % (a["name"].split("::")[-1], ty, why[0]))
            else:
                rep.finding("C16.PURE", a["name"], "cell:" + ty, "interior-mutable state %s (at %s) is reachable through a shared reference; validation could change the value it is given" % (ty, path), None)


def run(prog, rep):
    rep.floor("C16.PRUNE", 9)
    rep.floor("C16.RECORD", 5)
    rep.floor("C16.COVER", 10)
    rep.floor("C16.RESTORE", 1)
    rep.floor("C16.PURE", 4)
    rule_prune(prog, rep)
    rule_record(prog, rep)
    rule_cover(prog, rep)
    rule_restore(prog, rep)
    rule_pure(prog, rep)
    # while a schema is being re-validated a built-in scalar that was pruned is not in
    # schema.types until the restore loop has run: a validator that decides by looking the name up
    # (instead of `same name or is_subtype`) rejects the field that references it.  The type
    # compatibility table of C29.IMPL has `name == name` first in every named cell; shared.
    from .C29 import rule_impl
    rule_impl(prog, rep)
