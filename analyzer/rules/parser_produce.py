"""C05.REQUIRED - every syntax node the parser opens gets the constituents the grammar requires,
or an error is reported.

graphql.ungram gives, per node kind N, the elements that appear in every alternative of N's rule
outside `?` / `*` (Argument = Name ':' Value -> {Name, ':', Value}).  The grammar functions are
interpreted abstractly over (set of possible kinds of the current token, set of syntax kinds
produced so far): branches on peek()/at()/current() refine the token-kind set (only while the
peeked token is still current), bump / start_node / wrap_node / expect add the kind they attach
(expect adds it because it reports an error otherwise), a call of another grammar function is
replaced by its summary for each possible current kind, callbacks of peek_while /
peek_while_kind run zero or more times and therefore guarantee nothing, and every path that
reports an error (err, err_and_pop, limit_err ...) is dropped - a document with an error is
rejected, which is all the property asks.  On every remaining (error-free) path through a function,
each node kind it opened must have all its required elements among the produced kinds; otherwise
the parser accepts text outside the grammar without any error."""
import os
import re

from .. import facts as F
from ..core import AnchorError, op_const, op_local
from .parser_kinds import IGNORED, KindAnalysis, P

ERR_CALL = re.compile(P + r"(err|err_and_pop|limit_err|err_at_token|push_err)$")
PEEKISH = re.compile(P + r"(peek|peek_token|peek_data|current|at)$")

PUNCT_SYNTAX = {"{": "L_CURLY", "}": "R_CURLY", "(": "L_PAREN", ")": "R_PAREN", "[": "L_BRACK", "]": "R_BRACK", ":": "COLON",
                "=": "EQ", "!": "BANG", "$": "DOLLAR", "@": "AT", "&": "AMP", "|": "PIPE", "...": "SPREAD",
                "ident": "IDENT", "string": "STRING", "int": "INT", "float": "FLOAT"}


def camel_to_kind(name):
    return re.sub(r"(?<=[a-z0-9])(?=[A-Z])", "_", name).upper()


# ---------------------------------------------------------------------------- ungrammar


def parse_ungram(text):
    """-> {rule: expr}; expr = ('seq', [..]) | ('alt', [..]) | ('opt', e) | ('tok', s) | ('nt', s)"""
    text = re.sub(r"//[^\n]*", "", text)
    toks = re.findall(r"'[^']*'|[A-Za-z_][A-Za-z_0-9]*|[=|*?():]", text)
    # split into rules: NAME '=' ...
    rules = {}
    i = 0
    starts = [k for k in range(len(toks) - 1) if re.match(r"^[A-Za-z_]", toks[k]) and toks[k + 1] == "="]
    for si, s in enumerate(starts):
        e = starts[si + 1] if si + 1 < len(starts) else len(toks)
        rules[toks[s]] = _parse_alt(toks[s + 2:e])
    return rules


def _parse_alt(ts):
    parts, cur, depth = [], [], 0
    for t in ts:
        if t == "(":
            depth += 1
        if t == ")":
            depth -= 1
        if t == "|" and depth == 0:
            parts.append(cur)
            cur = []
        else:
            cur.append(t)
    parts.append(cur)
    alts = [_parse_seq(p) for p in parts if p]
    return alts[0] if len(alts) == 1 else ("alt", alts)


def _parse_seq(ts):
    out = []
    i = 0
    while i < len(ts):
        t = ts[i]
        if t == "(":
            depth, j = 1, i + 1
            while depth:
                depth += ts[j] == "("
                depth -= ts[j] == ")"
                j += 1
            e = _parse_alt(ts[i + 1:j - 1])
            i = j
        elif i + 1 < len(ts) and ts[i + 1] == ":" and re.match(r"^[a-z_]", t):
            i += 2  # label:
            continue
        elif t.startswith("'"):
            e = ("tok", t[1:-1])
            i += 1
        else:
            e = ("nt", t)
            i += 1
        while i < len(ts) and ts[i] in ("?", "*"):
            e = ("opt", e)
            i += 1
        out.append(e)
    return ("seq", out)


def required(e):
    k = e[0]
    if k == "seq":
        out = set()
        for x in e[1]:
            out |= required(x)
        return out
    if k == "alt":
        sets = [required(x) for x in e[1]]
        out = sets[0]
        for s in sets[1:]:
            out = out & s
        return out
    if k == "opt":
        return set()
    return {e}


class Grammar:
    def __init__(self, repo):
        path = os.path.join(repo, "graphql.ungram")
        if not os.path.exists(path):
            raise AnchorError("graphql.ungram not found")
        self.rules = parse_ungram(open(path).read())
        self.kind_rule = {camel_to_kind(n): n for n in self.rules}

    def tok_kind(self, lit):
        if lit in PUNCT_SYNTAX:
            return PUNCT_SYNTAX[lit]
        return lit + "_KW"

    def required_of_kind(self, kind):
        r = self.kind_rule.get(kind)
        return required(self.rules[r]) if r else set()

    def alternatives(self, nt, depth=0):
        """syntax kinds whose presence shows that non-terminal `nt` was produced"""
        out = {camel_to_kind(nt)}
        e = self.rules.get(nt)
        if e is None or depth > 4:
            return out
        alts = e[1] if e[0] == "alt" else [e]
        # pure alternation of single elements: any alternative counts
        if all(a[0] == "seq" and len(a[1]) == 1 and a[1][0][0] in ("nt", "tok") for a in alts) and len(alts) > 1:
            for a in alts:
                x = a[1][0]
                if x[0] == "nt":
                    out |= self.alternatives(x[1], depth + 1)
                else:
                    out.add(self.tok_kind(x[1]))
        return out

    def closure(self, kind):
        """kind plus the alternation non-terminals it is an alternative of (INT_VALUE -> VALUE)"""
        if not hasattr(self, "_clo"):
            self._clo = {}
            for nt in self.rules:
                alts = self.alternatives(nt)
                if len(alts) > 1:
                    for a in alts:
                        self._clo.setdefault(a, set()).add(camel_to_kind(nt))
        return {kind} | self._clo.get(kind, set())

    def satisfied(self, elem, produced):
        if elem[0] == "tok":
            return self.tok_kind(elem[1]) in produced
        return bool(self.alternatives(elem[1]) & produced)

    def show(self, elem):
        return "'%s'" % elem[1] if elem[0] == "tok" else elem[1]


# ---------------------------------------------------------------------------- analysis


class _Work:
    """worklist over state keys; the produced set of a key is the intersection over arrivals"""

    def __init__(self, best):
        self.best = best
        self.items = []
        self.queued = set()
        self.pred = {}
        self.cur = None

    def append(self, st):
        b, kset, produced, opened, fresh, envt = st
        key = (b, kset, opened, fresh, envt)
        old = self.best.get(key)
        new = produced if old is None else (old & produced)
        if old is None or new != old:
            self.best[key] = new
            self.pred[key] = self.cur
            if key not in self.queued:
                self.queued.add(key)
                self.items.append(key)


class ProduceAnalysis(KindAnalysis):
    def __init__(self, prog):
        super().__init__(prog)
        self.kinds = [k for k in self.kinds if k not in IGNORED]
        self.ALL = frozenset(self.kinds)
        self.gram = Grammar(F.repo_dir())
        self.smemo = {}
        self.sdone = set()
        self.sinprog = set()
        self.missing = {}  # (fn uid, node kind, elem) -> (fn, K, kset-at-return)
        self.nodes_checked = {}
        self.traces = {}

    def _syntax_kind_of(self, fn, op):
        s = fn.sym(op)
        m = re.search(r"SyntaxKind::(\w+)", s)
        return m.group(1) if m else None

    def _add(self, produced, sk):
        return produced | (self.gram.closure(sk) if sk else set())

    def _variant_of_rvalue(self, fn, rv, depth=0):
        """enum variant of an aggregate (or of the single definition of a moved local)"""
        if rv[0] == "agg" and isinstance(rv[1], list) and rv[1][0] == "adt" and re.search(r"(result::Result|option::Option|ops::ControlFlow)$", rv[1][1]):
            return rv[1][2]
        if rv[0] == "use" and depth < 4:
            l = op_local(rv[1])
            if l is not None:
                ds = [d for d in fn.defs().get(l, []) if not d[3]]
                vs = set(self._variant_of_rvalue(fn, d[2], depth + 1) for d in ds if d[2][0] != "callret")
                if len(ds) == len([d for d in ds if d[2][0] != "callret"]) and len(vs) == 1:
                    return next(iter(vs))
        return None

    def summary(self, fn, K, bargs=()):
        """set of (produced frozenset, after frozenset) over the error-free return paths of fn
        entered with current token kind K"""
        key = (fn.uid, K, bargs)
        if key in self.sdone:
            return self.smemo[key]
        if key in self.sinprog:
            return self.smemo.get(key, set())
        self.sinprog.add(key)
        self.smemo.setdefault(key, set())
        res = self._walk(fn, K, bargs) | self.smemo[key]
        self.sinprog.discard(key)
        if res != self.smemo[key]:
            self.smemo[key] = res
            self.changed = True
        self.sdone.add(key)
        return res

    def _targets_by_kind(self, fn, b, kset, fresh):
        """{target: kinds} for a switch; refinement only if the test reads the current token"""
        info = fn.switch_info(b)
        succs = list(dict.fromkeys(fn.succs()[b]))
        succs = [s for s in succs if fn.term(s)[0] != "unreachable"] or succs
        if info is None:
            return {s: kset for s in succs}
        src_block = None
        if info.get("kind") == "enum":
            from ..core import norm_path
            path = norm_path(fn.apath(info["place"]))
            m = re.search(r"@(\d+)", path)
            src_block = int(m.group(1)) if m and path.startswith("call:") else None
            if src_block is None and not (fn.kind == "closure" and re.match(r"^arg\d+$", path)):
                return {s: kset for s in succs}
            if src_block is not None and src_block not in fresh:
                return {s: kset for s in succs}
        elif info.get("kind") == "bool":
            l = info["local"]
            sd = fn.single_def(l) if l is not None else None
            d = 0
            while sd is not None and sd[2][0] in ("use", "un") and d < 6:
                l2 = op_local(sd[2][1] if sd[2][0] == "use" else sd[2][2])
                sd = fn.single_def(l2) if l2 is not None else None
                d += 1
            if sd is not None and sd[2][0] == "callret":
                src_block = sd[2][1].block
                if src_block not in fresh:
                    return {s: kset for s in succs}
                if fn.kind == "closure" and -1 not in fresh and any(re.match(r"^&?\*?arg%d$" % fn.argc, fn.sym(a)) for a in sd[2][1].args):
                    return {s: kset for s in succs}
        out = {}
        for K in kset:
            for t in self._switch_targets(fn, b, K):
                if fn.term(t)[0] == "unreachable":
                    continue
                out.setdefault(t, set()).add(K)
        return {t: frozenset(v) for t, v in out.items()}

    def _walk(self, fn, K0, bargs):
        prog = self.prog
        text_params = set(k for k, v in bargs if v == "TEXT")
        self._ctx_stack = getattr(self, "_ctx_stack", [])
        self._ctx_stack.append(text_params)
        # private helpers are folded into their user (see KindAnalysis._explore)
        fn = prog.inline(fn, keep=r"parser::Parser::<'input>::", private_only=True)
        try:
            return self._walk_inner(fn, K0, bargs)
        finally:
            self._ctx_stack.pop()

    def _walk_inner(self, fn, K0, bargs):
        prog = self.prog
        res = set()
        rets = {}
        env0 = tuple(sorted((k, v) for k, v in bargs if v != "TEXT"))
        # closures called by peek_while get the kind as their last argument: fresh by construction
        # states are keyed by (block, token kinds, opened nodes, fresh peeks, bool env); the
        # produced set of a key is the intersection over all paths reaching it (must-analysis)
        best = {}
        work = _Work(best)
        work.append((0, frozenset([K0]), frozenset(), frozenset(), frozenset([-1]), env0))
        steps = 0
        while work.items:
            key = work.items.pop()
            work.queued.discard(key)
            work.cur = key
            produced = best[key]
            steps += 1
            if steps > 60000:
                from ..core import Undecided
                raise Undecided("C05.REQUIRED: state explosion in %s" % fn.name)
            b, kset, opened, fresh, envt = key
            env = dict(envt)
            for s in fn.stmts(b):
                if s[0] != "=" or s[1][1]:
                    continue
                l = s[1][0]
                r = s[2]
                val = None
                if r[0] == "use":
                    c = op_const(r[1])
                    if c is not None and c[0] == "bool":
                        val = c[2].get("int") == "1"
                    else:
                        sl = op_local(r[1])
                        if sl is not None and sl in env:
                            val = env[sl]
                elif r[0] == "un" and r[1] == "Not":
                    sl = op_local(r[2])
                    if sl is not None and isinstance(env.get(sl), bool):
                        val = not env[sl]
                elif r[0] == "agg" and l != 0 and isinstance(r[1], list) and r[1][0] == "adt" and re.search(r"(result::Result|option::Option|ops::ControlFlow)$", r[1][1]):
                    # a variant built on this path in a temporary (the return slot of an inlined
                    # helper, the value of a `match` expression)
                    val = "V:" + r[1][2]
                if val is None:
                    env.pop(l, None)
                else:
                    env[l] = val
            for s_ in fn.stmts(b):
                if s_[0] == "=" and s_[1][0] == 0 and not s_[1][1]:
                    v_ = None
                    if s_[2][0] == "use" and op_local(s_[2][1]) is not None and isinstance(env.get(op_local(s_[2][1])), str) and env[op_local(s_[2][1])].startswith("V:"):
                        v_ = env[op_local(s_[2][1])][2:]
                    if v_ is None:
                        v_ = self._variant_of_rvalue(fn, s_[2])
                    if v_ is not None:
                        env[-9] = v_
                    else:
                        env.pop(-9, None)
            envt = tuple(sorted(env.items(), key=lambda kv: kv[0]))
            t = fn.term(b)
            k = t[0]
            if k == "ret":
                rets[key] = (produced, env.get(-9))
                continue
            if k == "call":
                c = fn.call_at(b)
                if c.target is None:
                    continue
                self._cur_env = env
                n = c.name
                nxt = []  # (kset, produced, opened, fresh)
                if ERR_CALL.search(n):
                    continue
                if re.search(P + r"(bump|eat)$", n):
                    sk = self._syntax_kind_of(fn, c.args[1])
                    nxt.append((self.ALL, self._add(produced, sk), opened, frozenset()))
                elif re.search(P + r"push_token$", n):
                    sk = self._syntax_kind_of(fn, c.args[1])
                    nxt.append((kset, self._add(produced, sk), opened, fresh | {b}))
                elif re.search(P + r"pop$", n):
                    nxt.append((self.ALL, produced, opened, frozenset()))
                elif c.uid == self.expect:
                    sk = self._syntax_kind_of(fn, c.args[2])
                    want = self._kind_of_const(fn, c.args[1])
                    # the token is there (consumed, attached as `sk`) or an error is reported
                    if want is None or want in kset:
                        nxt.append((self.ALL, self._add(produced, sk), opened, frozenset()))
                elif re.search(P + r"start_node$", n) or re.search(r"parser::Checkpoint::wrap_node$", n):
                    sk = self._syntax_kind_of(fn, c.args[1])
                    add = {sk} if sk else set()
                    nxt.append((kset, self._add(produced, sk), opened | add, fresh | {b}))
                elif PEEKISH.search(n):
                    nxt.append((kset, produced, opened, fresh | {b}))
                elif c.uid == self.pw:
                    cal = self._callable_of(fn, c.args[1])
                    if cal is None:
                        nxt.append((self.ALL, produced, opened, frozenset()))
                    else:
                        reach, todo, exits = set(), list(kset), {}
                        while todo:
                            K = todo.pop()
                            if K in reach:
                                continue
                            reach.add(K)
                            for (p2, after) in self.summary(cal, K):
                                rvs = [x[1] for x in p2 if isinstance(x, tuple) and x[0] == "rv"]
                                debts = frozenset(x for x in p2 if isinstance(x, tuple) and x[0] == "debt")
                                plain = frozenset(x for x in p2 if not isinstance(x, tuple))
                                if rvs and rvs[0] == "Continue":
                                    todo.extend(k2 for k2 in after if k2 not in reach)
                                    continue
                                # Break (or unknown): the loop ends after this iteration
                                exits.setdefault((plain, debts, after == frozenset([K])), set()).update(after)
                        for (plain, debts, same), after in exits.items():
                            nxt.append((frozenset(after), produced | plain, opened | debts, fresh if (same and after <= kset) else frozenset()))
                elif c.uid == self.pwk:
                    want = self._kind_of_const(fn, c.args[1])
                    cal = self._callable_of(fn, c.args[2])
                    if want in kset or want is None:
                        if cal is not None and want is not None:
                            self.summary(cal, want)
                        nxt.append((self.ALL - {want}, produced, opened, frozenset()))
                        if want is not None and kset - {want}:
                            nxt.append((kset - {want}, produced, opened, fresh))
                    else:
                        nxt.append((kset, produced, opened, fresh))
                elif c.uid == self.psl:
                    sepk = self._syntax_kind_of(fn, c.args[2])
                    cal = self._callable_of(fn, c.args[3]) if len(c.args) > 3 else None
                    sep = self._kind_of_const(fn, c.args[1])
                    if cal is None:
                        nxt.append((self.ALL, produced, opened, frozenset()))
                    else:
                        # optional leading separator, then one mandatory item
                        first = set(kset)
                        if sep in first:
                            first = set(self.ALL)
                        groups = {}
                        for K in first:
                            for (p2, after) in self.summary(cal, K):
                                groups.setdefault(p2, set()).update(after)
                        for p2, after in groups.items():
                            debts = frozenset(x for x in p2 if isinstance(x, tuple) and x[0] == "debt")
                            plain = frozenset(x for x in p2 if not isinstance(x, tuple))
                            nxt.append((self.ALL, produced | plain, opened | debts, frozenset()))
                elif c.uid in prog.fns and prog.fns[c.uid].crate == "apollo_parser" and re.search(r"parser::grammar::", prog.fns[c.uid].name):
                    g = prog.fns[c.uid]
                    ba = self._bool_args(fn, c)
                    groups = {}
                    for K in kset:
                        for (p2, after) in self.summary(g, K, ba):
                            consumed = after != frozenset([K])
                            groups.setdefault((p2, consumed), set()).update(after)
                    for (p2, consumed), after in groups.items():
                        debts = frozenset(x for x in p2 if isinstance(x, tuple) and x[0] == "debt")
                        rvs = [x[1] for x in p2 if isinstance(x, tuple) and x[0] == "rv"]
                        plain = frozenset(x for x in p2 if not isinstance(x, tuple))
                        nxt.append((frozenset(after), produced | plain, opened | debts, frozenset() if consumed else fresh, rvs[0] if rvs else None))
                else:
                    # other Parser helpers and foreign calls: no effect on tokens
                    if c.dest and not c.dest[1]:
                        env.pop(c.dest[0], None)
                    nxt.append((kset, produced, opened, fresh | {b}))
                if not c.dest[1]:
                    env.pop(c.dest[0], None)
                    if fn.local_ty(c.dest[0]) == "bool" and b in (fresh | {b}) and PEEKISH.search(n) and len(kset) == 1:
                        v = self._bool_from_callret(fn, c, next(iter(kset)))
                        if v is not None:
                            env[c.dest[0]] = v
                for item in nxt:
                    ks, pr, op_, fr = item[:4]
                    e3 = dict(env)
                    if len(item) > 4 and item[4] is not None and not c.dest[1]:
                        e3[-(5000 + c.dest[0])] = item[4]
                    elif not c.dest[1]:
                        e3.pop(-(5000 + c.dest[0]), None)
                    envt2 = tuple(sorted(e3.items(), key=lambda kv: kv[0]))
                    if ks:
                        work.append((c.target, frozenset(ks), frozenset(pr), frozenset(op_), frozenset(fr), envt2))
                continue
            if k == "switch":
                info = fn.switch_info(b)
                if info and info.get("kind") == "bool" and info["local"] in env and isinstance(env[info["local"]], bool):
                    work.append((info["edges"][env[info["local"]]], kset, produced, opened, fresh, envt))
                    continue
                if info and info.get("kind") == "enum" and not info["place"][1] and -(5000 + info["place"][0]) in env:
                    v_ = env[-(5000 + info["place"][0])]
                    tgt = info["edges"].get(v_, info.get("otherwise"))
                    if tgt is not None:
                        work.append((tgt, kset, produced, opened, fresh, envt))
                        continue
                for tgt, ks in self._targets_by_kind(fn, b, kset, fresh).items():
                    work.append((tgt, ks, produced, opened, fresh, envt))
                continue
            if k in ("drop", "goto", "assert"):
                for s2 in fn.succs()[b]:
                    work.append((s2, kset, produced, opened, fresh, envt))
                continue
            for s2 in fn.succs()[b]:
                work.append((s2, kset, produced, opened, fresh, envt))
        EOF = frozenset(["Eof"])
        for (b, kset, opened, fresh, envt), (produced, rvv) in rets.items():
            debts = set(x for x in opened if isinstance(x, tuple))
            for N in opened:
                if isinstance(N, tuple):
                    continue
                for elem in self.gram.required_of_kind(N):
                    if elem[0] == "tok" and self.gram.tok_kind(elem[1]).endswith("_KW"):
                        continue  # keyword text is not visible to this analysis
                    self.nodes_checked[(fn.uid, N)] = self.nodes_checked.get((fn.uid, N), 0) + 1
                    if not self.gram.satisfied(elem, produced):
                        if kset == EOF:
                            # input ended inside the node: an enclosing production still has to
                            # report the missing closer; the obligation travels with the path
                            debts.add(("debt", fn.uid, N, elem, K0))
                        else:
                            trace, kk = [], (b, kset, opened, fresh, envt)
                            while kk is not None and len(trace) < 200:
                                cc = fn.call_at(kk[0])
                                trace.append("bb%d%s[%s]" % (kk[0], (":" + cc.name.split("::")[-1]) if cc else "", ",".join(sorted(kk[1])) if len(kk[1]) < 4 else "*"))
                                kk = work.pred.get(kk)
                            self.traces[(fn.uid, N, elem)] = list(reversed(trace))
                            self.missing.setdefault((fn.uid, N, elem), (fn, K0, kset))
            res.add((frozenset(produced | debts | ({("rv", rvv)} if rvv else set())), kset))
        # one outcome per `after` set: what every such path produced
        if len(res) <= 16:
            return res
        merged = {}
        for produced, kset in res:
            merged[kset] = produced if kset not in merged else (merged[kset] & produced)
        return set((p_, k_) for k_, p_ in merged.items())


def run(prog, rep):
    from . import parser_common as PC

    pa = ProduceAnalysis(prog)
    ents = [prog.fn(e, "apollo_parser") for e, _ in PC.ENTRY_GRAMMAR]
    rep.floor("C05.REQUIRED", 40)
    for _round in range(10):
        pa.changed = False
        pa.sdone = set()
        pa.missing = {}
        pa.nodes_checked = {}
        for e in ents:
            for K in pa.kinds:
                for produced, after in pa.summary(e, K):
                    for x in produced:
                        if isinstance(x, tuple):
                            _d, uid, N, elem, K0 = x
                            pa.missing.setdefault((uid, N, elem), (prog.fns[uid], K0, frozenset(["Eof"])))
        if not pa.changed:
            break
    kinds_checked = {}
    for (uid, N), n in pa.nodes_checked.items():
        kinds_checked.setdefault(N, set()).add(prog.fns[uid].name.split("grammar::")[-1])
    for N in sorted(kinds_checked):
        req = pa.gram.required_of_kind(N)
        rep.instance("C05.REQUIRED", "%s (opened in %s): requires %s on every error-free path" % (N, ", ".join(sorted(kinds_checked[N])), " ".join(sorted(pa.gram.show(e) for e in req)) or "(nothing)"))
    # a node opened in a private helper that was folded into its caller is reported against the
    # helper (the function whose text opens the node), so that the finding does not move when a
    # helper is extracted or inlined
    attributed = {}
    for (uid, N, elem), (fn, K0, kset) in pa.missing.items():
        g = prog.inline(fn, keep=r"parser::Parser::<'input>::", private_only=True)
        org = g.d.get("origin")
        owner = fn
        if org:
            where = set(org[c.block] for c in g.live_calls() if re.search(P + r"start_node$", c.name) and pa._syntax_kind_of(g, c.args[1]) == N)
            if len(where) == 1 and next(iter(where)) in prog.fns:
                owner = prog.fns[next(iter(where))]
        attributed.setdefault((owner.uid, N, elem), (owner, K0, kset))
    for (uid, N, elem), (fn, K0, kset) in sorted(attributed.items(), key=lambda kv: (kv[1][0].name, kv[0][1], str(kv[0][2]))):
        rep.finding("C05.REQUIRED", fn.name, "%s:missing:%s" % (N, pa.gram.show(elem)),
                    "%s opens a %s node but on some path that reports no error (entered with a `%s` token current%s) the required %s is never produced: text outside the grammar is accepted without a syntax error" % (
                        fn.name.split("grammar::")[-1], N, K0,
                        "" if len(kset) > 6 else ", ending at one of %s" % sorted(kset), pa.gram.show(elem)), fn.loc())
    rep.extra["produce_summaries"] = len(pa.smemo)
