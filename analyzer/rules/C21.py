"""C21 — The compiler never panics on adversarial input (DESIGN.md C21)."""
import re

from ..core import AnchorError, norm_path, op_local, op_place
from ..flow import branch_on_call, facts_at, must_pass

CRATES = ["apollo_parser", "apollo_compiler"]
LEVEL = "other"
EXPLANATION = """
C21.CUT: every recursive cycle of apollo-compiler's call graph is classified.  (A) depth-counted:
removing the call edges that carry (or are dominated by the success edge of) a counting guard -
DepthGuard::increment, RecursionGuard::push, LimitTracker::check_and_increment - leaves the cycle
acyclic, so recursion depth is bounded by the guard's limit.  (B) single-definition: the cycle
never follows a name to another definition (no fragments/types/directive_definitions lookup inside
it), so it only descends one AST/CST/Type/Value built under the parser's recursion limit.  (C)
validated-input: execution / introspection cycles that only run on Valid<ExecutableDocument>, whose
total nesting validation has already bounded.  A cycle that crosses definitions (its depth is the
sum over a chain of definitions, not one AST's depth) without a counting guard is reported: a
visited set only bounds how many definitions are entered, not how deep the stack gets.
C21.LIMIT: those guards bound depth only if their limit is a compile-time constant within the
confirmed envelope (<= 1000; the tree's maximum is 500): every construction of DepthCounter /
RecursionStack, the only writer of `limit` (with_limit), every with_limit / LimitTracker::new call
site, and the refusal test `count > limit -> Err` in increment / push are checked.
C21.SORT: a DiagnosticList leaves the crate only through into_result / into_result_with /
into_valid_result / merge, each of which sorts the non-empty list; sort is a stable sort_by_key on
(file id, offset).  C21.INV (thorough): reviewed inventory of panic-capable sites.
"""

COUNTING_GUARD = r"validation::DepthGuard::<'_>::increment$|validation::RecursionGuard::<'_>::push$|limit::LimitTracker::check_and_increment$"
CROSS_DEF_FIELDS = r"\.(fragments|types|directive_definitions|operations)\b"
CROSS_DEF_CALLS = r"schema::Schema::(get_\w+|type_field|root_operation)$|executable::ExecutableDocument::(get_\w+)$"

# SCC (identified by a member) -> (class, reason) for cycles that cannot be classified mechanically
ALLOW = [
    (r"^apollo_compiler::validation::value::value_of_correct_type$", "B", "descends one ast::Value (bounded by the parser's recursion limit); the schema.types lookups only select the expected type at each level and are not descended into"),
    (r"^apollo_compiler::executable::from_ast::<impl apollo_compiler::executable::SelectionSet>::extend_from_ast$", "B", "descends one ast selection set (bounded by the parser's recursion limit); schema lookups only fetch field definitions; fragment spreads are stored by name, not followed"),
    (r"^apollo_compiler::resolvers::", "C", "execution runs on Valid<ExecutableDocument> / Valid<Schema>: total nesting was bounded by validation"),
    (r"^apollo_compiler::introspection::", "C", "introspection runs on Valid<ExecutableDocument>: total nesting was bounded by validation"),
    (r"^apollo_compiler::ast::impls::<impl apollo_compiler::ast::Type>::inner_named_type$", "B", "descends one Type value"),
]


def _guarded_blocks(prog, fn):
    """blocks of fn whose calls run under a successful counting guard"""
    out = set()
    for c in fn.live_calls():
        if any(re.search(r"DepthGuard::increment\(|RecursionGuard::push\(", fn.sym(a)) for a in c.args):
            out.add(c.block)
    for b in fn.live_blocks():
        for f in facts_at(fn, b):
            if f[0] == "variant" and f[2] in ("Continue", "Ok") and re.search(r"call:.*(DepthGuard::<'_>::increment|RecursionGuard::<'_>::push)@", f[1]):
                out.add(b)
            if f[0] == "variant" and f[2] in ("Continue",) and re.search(r"call:.*Try>?::branch@(\d+)", f[1]):
                m = re.search(r"branch@(\d+)", f[1])
                bc = fn.call_at(int(m.group(1)))
                if bc is not None and bc.args and re.search(r"DepthGuard::increment\(|RecursionGuard::push\(", fn.sym(bc.args[0])):
                    out.add(b)
            if f[0] == "callbool" and re.search(r"LimitTracker::check_and_increment$", f[1]) and f[3] is False:
                out.add(b)
            if f[0] == "callbool" and re.search(r"::is_built_in$", f[1]) and f[3] is True:
                # edge taken only for definitions of the fixed built-in file: bounded, fixed data
                out.add(b)
    return out


def _crosses_definitions(prog, scc):
    """does any function of the cycle look a definition up by name?"""
    hits = []
    for u in scc:
        fn = prog.fns[u]
        for c in fn.live_calls():
            if re.search(r"IndexMap::<K, V, S>::(get|get_full|get_key_value|get_index_of)$|IndexMap<K, V, S>>::index$", c.name) and c.args:
                s = fn.sym(c.args[0])
                if re.search(CROSS_DEF_FIELDS, s):
                    hits.append("%s: %s" % (fn.name.split("::")[-1], re.search(CROSS_DEF_FIELDS, s).group(0)))
            if re.search(CROSS_DEF_CALLS, c.name):
                hits.append("%s: %s" % (fn.name.split("::")[-1], c.name.split("::")[-1]))
    return hits


def rule_cut(prog, rep):
    rep.floor("C21.CUT", 24)
    cg = prog.callgraph()
    nodes = set(u for u, f in prog.fns.items() if f.crate == "apollo_compiler")
    sccs = prog.sccs(nodes)
    gb = {}
    for scc in sccs:
        names = [prog.fns[u].name for u in scc]
        short = sorted(n.replace("apollo_compiler::", "").split("::")[-1] if "{closure" not in n else n.split("::")[-2] + "::{closure}" for n in names)
        label = "{%s}" % ", ".join(sorted(set(short))[:6])
        key = sorted(names)[0]
        for u in scc:
            if u not in gb:
                gb[u] = _guarded_blocks(prog, prog.fns[u])
        sset = set(scc)

        def keep(u, v, sites):
            return any(b not in gb.get(u, ()) for (_k, b) in sites)

        rest = prog.sccs(sset, edge_filter=keep)
        has_guard = any(re.search(COUNTING_GUARD, c.name) for u in scc for c in prog.fns[u].live_calls())
        if has_guard and not rest:
            rep.instance("C21.CUT", "A depth-counted: %s - every cycle passes a counting guard" % label)
            continue
        cross = _crosses_definitions(prog, scc)
        allow = [a for a in ALLOW if any(re.search(a[0], n) for n in names)]
        if allow:
            rep.instance("C21.CUT", "%s allow-listed: %s - %s" % (allow[0][1], label, allow[0][2]))
            continue
        if not cross:
            rep.instance("C21.CUT", "B single-definition: %s - no lookup of another definition inside the cycle; depth bounded by the parser's recursion limit" % label)
            continue
        if has_guard and rest:
            cyc = sorted(set(prog.fns[u].name.split("::")[-1] for r in rest for u in r))
            rep.finding("C21.CUT", key, "partially-guarded:" + "+".join(cyc)[:80],
                        "recursive cycle %s follows names to other definitions (%s) and its counting guard does not cut every cycle: the edges through %s recurse without being counted, so stack depth grows with chain length x nesting depth (stack overflow on crafted input)" % (label, ", ".join(sorted(set(cross))[:3]), cyc), prog.fns[scc[0]].loc())
        else:
            rep.finding("C21.CUT", key, "uncounted-cross-definition",
                        "recursive cycle %s follows names to other definitions (%s) with no counting depth guard: a visited set only bounds how many definitions are entered, the stack depth is the sum of their nesting depths (stack overflow on crafted input)" % (label, ", ".join(sorted(set(cross))[:3])), prog.fns[scc[0]].loc())
    rep.extra["recursive_sccs"] = len(sccs)


def rule_sort(prog, rep):
    rep.floor("C21.SORT", 5)
    sort = prog.fn(r"^apollo_compiler::validation::DiagnosticList::sort$")
    calls = [c for c in sort.live_calls() if re.search(r"slice::<impl \[T\]>::sort", c.name)]
    if len(calls) == 1 and re.search(r"::sort_by_key$|::sort_by_cached_key$|::sort_by$", calls[0].name) and ".diagnostics_data" in sort.sym(calls[0].args[0]):
        rep.instance("C21.SORT", "DiagnosticList::sort = diagnostics_data.%s (stable)" % calls[0].name.split("::")[-1])
    else:
        rep.finding("C21.SORT", sort.name, "stable-sort", "DiagnosticList::sort is not a single stable sort of diagnostics_data (%s)" % [c.name.split("::")[-1] for c in calls], sort.loc())
    # key closure: (file_id, offset) of the location
    clos = [f for f in prog.fns.values() if f.root == sort.uid]
    key_ok = False
    for f in clos:
        names = " ".join(c.name for c in f.live_calls()) + " " + " ".join(c.name for g in prog.fns.values() if g.root == sort.uid for c in g.live_calls())
        if re.search(r"SourceSpan::file_id", names) and re.search(r"SourceSpan::offset", names):
            key_ok = True
    if key_ok:
        rep.instance("C21.SORT", "sort key = location.map(|loc| (loc.file_id(), loc.offset()))")
    else:
        rep.finding("C21.SORT", sort.name, "sort-key", "the sort key is not (file id, offset) of the diagnostic's location", sort.loc())
    # exits: into_result (sorts on the Err side), merge (sorts)
    ir = prog.fn(r"^apollo_compiler::validation::DiagnosticList::into_result$")
    sorts = [c.block for c in ir.live_calls() if c.uid == sort.uid]
    errs = [b for b in ir.live_blocks() for s in ir.stmts(b)
            if s[0] == "=" and s[1][0] == 0 and s[2][0] == "agg" and isinstance(s[2][1], list) and s[2][1][2] == "Err"]
    if errs and sorts and must_pass(ir, [0], errs, sorts)[0]:
        rep.instance("C21.SORT", "into_result: sort() precedes every Err(self)")
    else:
        rep.finding("C21.SORT", ir.name, "unsorted-err", "into_result can return Err(list) without sorting it", ir.loc())
    mg = prog.fn(r"^apollo_compiler::validation::DiagnosticList::merge$")
    sorts = [c.block for c in mg.live_calls() if c.uid == sort.uid]
    if sorts and must_pass(mg, [0], mg.return_blocks(), sorts)[0]:
        rep.instance("C21.SORT", "merge: sort() on every path")
    else:
        rep.finding("C21.SORT", mg.name, "unsorted-merge", "merge can return without sorting", mg.loc())
    for nm in ("into_result_with", "into_valid_result"):
        f = prog.fn(r"^apollo_compiler::validation::DiagnosticList::%s$" % nm)
        if any(c.uid == ir.uid for c in f.live_calls()):
            rep.instance("C21.SORT", "%s delegates to into_result" % nm)
        else:
            rep.finding("C21.SORT", f.name, "not-delegating", "%s does not go through into_result" % nm, f.loc())
    # who hands a DiagnosticList (or its data) to callers: pub fns returning DiagnosticList / WithErrors
    # must obtain it from into_result* / merge.  Public functions whose return type mentions
    # DiagnosticList or WithErrors:
    n = 0
    for fn in sorted(prog.fns.values(), key=lambda f: f.name):
        if fn.kind not in ("fn", "assoc_fn") or not fn.d.get("pub"):
            continue
        if fn.impl and fn.impl.get("trait"):
            continue  # Clone / Default / From impls do not create diagnostics
        so = fn.d.get("sig_out", "")
        if not re.search(r"validation::(DiagnosticList|WithErrors)", so):
            continue
        if re.search(r"validation::DiagnosticList::(new|into_result|into_result_with|into_valid_result)$|WithErrors", fn.name):
            continue
        n += 1
        # every Err aggregate / returned list must derive from into_result*, map_err of it, or `?`
        good = any(re.search(r"DiagnosticList::(into_result|into_result_with|into_valid_result)$", c.name) for c in fn.live_calls())
        via = [c.name.split("::")[-1] for c in fn.live_calls() if c.uid in prog.fns and re.search(r"validation::(DiagnosticList|WithErrors)", prog.fns[c.uid].d.get("sig_out", "") or "")]
        if good or via:
            rep.instance("C21.SORT", "%s returns its diagnostics through %s" % (fn.name.replace("apollo_compiler::", ""), "into_result*" if good else via[0]))
        else:
            rep.finding("C21.SORT", fn.name, "unsorted-exit", "public function returns a DiagnosticList/WithErrors that does not come from into_result*/merge (unsorted diagnostics can escape)", fn.loc())


# the largest recursion limit confirmed on the pinned tree is 500 (DepthCounter in operation /
# variable validation, exercised by the repository's own deep-nesting tests); a limit that is not
# a compile-time constant, or a constant far outside that envelope, bounds nothing
LIMIT_BOUND = 1000
GUARD_ADTS = ("DepthCounter", "RecursionStack")


def _const_int(fn, op):
    from ..core import op_const

    c = op_const(op)
    if c is None:
        l = op_local(op)
        sd = fn.single_def(l) if l is not None else None
        if sd and sd[2][0] == "use":
            return _const_int(fn, sd[2][1])
        return None
    ex = c[2] if len(c) > 2 else {}
    if "int" in ex:
        try:
            return int(ex["int"])
        except ValueError:
            return None
    m = re.match(r"^(\d+)_?usize$", str(c[1]))
    return int(m.group(1)) if m else None


def rule_limit(prog, rep):
    """C21.LIMIT: the counting guards of C21.CUT bound depth only if their limit is a small
    compile-time constant and the guard refuses at `count > limit`."""
    rep.floor("C21.LIMIT", 13)
    from ..tables import enum_paths, return_value_on_path
    from ..flow import _strip

    # (1) every write of a `limit` field of a guard ADT
    writers = {}
    for fn in prog.fns.values():
        if fn.crate != "apollo_compiler":
            continue
        for b in fn.live_blocks():
            for s in fn.stmts(b):
                if s[0] != "=":
                    continue
                # field assignment `x.limit = v`
                proj = s[1][1]
                if proj and isinstance(proj[-1], list) and proj[-1][0] == "f" and proj[-1][2] == "limit":
                    base_ty = fn.local_ty(s[1][0])
                    if any(g in base_ty for g in GUARD_ADTS):
                        writers.setdefault(fn.uid, []).append(("assign", s, b))
                if s[2][0] == "agg" and isinstance(s[2][1], list) and s[2][1][0] == "adt" and s[2][1][1].split("::")[-1] in GUARD_ADTS:
                    writers.setdefault(fn.uid, []).append(("agg", s, b))
    for uid, ws in sorted(writers.items()):
        fn = prog.fns[uid]
        for kind, s, b in ws:
            if kind == "agg":
                ops = s[2][2]
                v = None
                for nm, op in zip(s[2][1][3], ops):
                    if nm == "limit":
                        v = _const_int(fn, op)
                ok = v is not None and 0 < v <= LIMIT_BOUND
                rep.obligation(ok)
                if ok:
                    rep.instance("C21.LIMIT", "%s constructs %s with constant limit %d" % (fn.name.replace("apollo_compiler::", ""), s[2][1][1].split("::")[-1], v))
                else:
                    rep.finding("C21.LIMIT", fn.name, "ctor-limit", "a recursion guard is constructed with a limit that is not a compile-time constant <= %d (%s): recursion depth is then not bounded" % (LIMIT_BOUND, v), fn.loc(s[3][0]))
            else:
                ok = re.search(r"::(DepthCounter|RecursionStack)::with_limit$", fn.name) and fn.sym(s[2][1] if s[2][0] == "use" else s[2]) == "arg2"
                rep.obligation(bool(ok))
                if ok:
                    rep.instance("C21.LIMIT", "%s is the only field writer (limit = its argument)" % fn.name.replace("apollo_compiler::", ""))
                else:
                    rep.finding("C21.LIMIT", fn.name, "limit-writer", "the limit of a recursion guard is written outside with_limit()", fn.loc(s[3][0]))
    # (2) every call of with_limit / LimitTracker::new in the crate passes a small constant
    n = 0
    for fn in sorted(prog.fns.values(), key=lambda f: f.name):
        if fn.crate != "apollo_compiler":
            continue
        for c in fn.live_calls():
            if re.search(r"validation::(DepthCounter|RecursionStack)::with_limit$", c.name):
                arg = c.args[1]
            elif re.search(r"apollo_parser::LimitTracker::new$|limit::LimitTracker::new$", c.name):
                arg = c.args[0]
            else:
                continue
            v = _const_int(fn, arg)
            ok = v is not None and 0 < v <= LIMIT_BOUND
            rep.obligation(ok)
            n += 1
            if ok:
                rep.instance("C21.LIMIT", "%s: %s(%d)" % (fn.name.replace("apollo_compiler::", ""), "::".join(c.name.split("::")[-2:]), v))
            else:
                rep.finding("C21.LIMIT", fn.name, "call-limit:" + "::".join(c.name.split("::")[-2:]),
                            "recursion limit %s is %s: a limit computed at run time (or far above the confirmed maximum of 500) does not bound stack depth, so a long enough chain of definitions overflows the stack instead of producing a recursion-limit diagnostic" % (
                                fn.sym(arg), "not a compile-time constant" if v is None else "the constant %d > %d" % (v, LIMIT_BOUND)), c.loc())
    # (3) the guards refuse when count > limit
    for pat, count_re in [
        (r"^apollo_compiler::validation::DepthGuard::<'_>::increment$", r"^arg1\.0\.value$"),
        (r"^apollo_compiler::validation::RecursionGuard::<'_>::push$", r"^call:indexmap::IndexSet::<T, S>::len@\d+$"),
    ]:
        fn = prog.fn(pat)
        rows = 0
        for atoms, rb, path in enum_paths(fn):
            cm = [f for f in _strip(atoms) if f[0] == "cmp"]
            leaf = return_value_on_path(fn, path) or ""
            if len(cm) != 1:
                rep.finding("C21.LIMIT", fn.name, "no-compare", "a path through the guard does not compare the count with the limit (returns %s)" % leaf, fn.loc())
                continue
            _k, op, a, b, val = cm[0]
            if not (re.search(count_re, a) and b == "arg1.0.limit" and op in ("Gt", "Ge")):
                rep.fail("UNDECIDED rule=C21.LIMIT %s compares `%s %s %s` (idiom not recognised)" % (fn.name, a, op, b))
                continue
            want = "Err" if val else "Ok"
            ok = leaf.startswith("Result::%s{" % want)
            rep.obligation(ok)
            rows += 1
            if not ok:
                rep.finding("C21.LIMIT", fn.name, "refuse:%s" % val, "with count %s limit = %s the guard returns %s" % (op, val, leaf), fn.loc())
        if rows == 2:
            rep.instance("C21.LIMIT", "%s: Err iff count > limit" % fn.name.replace("apollo_compiler::", ""))


def rule_search(prog, rep):
    """C21.SEARCH: the validators that guarantee acyclicity (their verdict is what lets later
    unguarded recursions - introspection depth, execution - terminate) are depth-first searches
    returning Result<(), CycleError<_>>.  A search is complete only if, inside a loop over the
    children of a node, nothing but an error leaves the function: an `Ok` return from inside the
    loop abandons the remaining siblings, a cycle through one of them goes unreported, and the
    document is wrongly `Valid`."""
    rep.floor("C21.SEARCH", 8)
    from ..flow import loop_headers
    from ..tables import enum_paths, return_value_on_path
    from ..core import Undecided
    n = 0
    for f in sorted(prog.fns.values(), key=lambda g: g.name):
        out = f.d.get("sig_out") or ""
        if f.crate != "apollo_compiler" or "CycleError<" not in out or not out.startswith("std::result::Result<()"):
            continue
        for h, (some, _none, _c) in sorted(loop_headers(f).items()):
            try:
                ps = enum_paths(f, start=some, stops={h}, inner_loops="cut")
            except Undecided as e:
                rep.fail("UNDECIDED rule=C21.SEARCH %s: %s" % (f.name, e))
                continue
            bad = []
            for _a, end, path in ps:
                if f.term(end)[0] != "ret":
                    continue
                rv = return_value_on_path(f, path) or ""
                if "from_residual(" in rv or rv.startswith("Result::Err{"):
                    continue
                bad.append(rv[:80])
            n += 1
            if bad:
                rep.finding("C21.SEARCH", f.name, "early-ok",
                            "the cycle search returns `%s` from inside its loop over sibling nodes: the remaining siblings are never visited, so a cycle through them is not reported and later unguarded recursions over the `Valid` document do not terminate" % bad[0], f.loc())
            else:
                rep.instance("C21.SEARCH", "%s: loop at bb%d is left early only with an error" % ("::".join(f.name.split("::")[-2:]), h))
    if not n:
        raise AnchorError("no Result<(), CycleError<_>> search function with a loop found")
    # the `already traversed, no cycle found then` memo of such a search is only valid for the root
    # it was started from (the search reports cycles *through its root* only): every call from
    # outside the recursion must hand it a set created empty for that call
    cg = prog.callgraph()
    for f in sorted(prog.fns.values(), key=lambda g: g.name):
        out = f.d.get("sig_out") or ""
        if f.crate != "apollo_compiler" or "CycleError<" not in out or not out.startswith("std::result::Result<()"):
            continue
        memo_params = [i for i, t in enumerate(f.d.get("sig_in") or []) if re.search(r"^&mut .*(HashSet|IndexSet|BTreeSet)<", t or "")]
        if not memo_params:
            continue
        same_scc = prog.reachable([f])
        for g in prog.fns.values():
            if g.crate != "apollo_compiler" or g.uid == f.uid:
                continue
            for c in g.live_calls():
                if c.uid != f.uid:
                    continue
                if g.uid in same_scc and f.uid in prog.reachable([g]):
                    continue  # a recursive call passes the memo on
                for i in memo_params:
                    a = g.sym(c.args[i])
                    fresh = re.match(r"^&(mut )?(<[^()]*>::default|[\w:<>, ]*(HashSet|IndexSet|BTreeSet)[\w:<>, ]*::(new|default|with_hasher|with_capacity_and_hasher))\(", a) is not None
                    if fresh:
                        rep.instance("C21.SEARCH", "%s: the visited-set of %s starts empty for every root" % (g.name.split("::")[-1], f.name.split("::")[-1]))
                    else:
                        rep.finding("C21.SEARCH", g.name, "stale-memo:" + f.name.split("::")[-1],
                                    "%s is started with the visited-set `%s`, which outlives the call: fragments marked `traversed, no cycle` for an earlier root are skipped for this root, but the search only reports cycles through its own root - a cycle first reached through an acyclic entry is never reported" % (f.name.split("::")[-1], a[:80]), c.loc())


def rule_pushguard(prog, rep):
    """C21.PUSHGUARD: the recursive validators bound their depth with a RecursionGuard: a set of
    the names on the current path plus a limit.  `push` only counts a name that is not yet in the
    set, so a walk that pushes a name already on its path neither reaches the limit nor stops: a
    `lasso` (A -> B -> B) recurses until the stack overflows.  Every push is dominated by
    `guard.contains(name) == false` on the same guard."""
    from ..flow import facts_at
    rep.floor("C21.PUSHGUARD", 4)
    for f in sorted(prog.fns.values(), key=lambda g: g.name):
        if f.crate != "apollo_compiler":
            continue
        for c in f.live_calls():
            if not re.search(r"RecursionGuard(::<'_>|<'_>)?::push$", c.name):
                continue
            guard = f.sym(c.args[0])
            ok = any(x[0] == "callbool" and re.search(r"RecursionGuard(::<'_>|<'_>)?::contains$", x[1]) and x[3] is False and f.sym(x[4].args[0]) == guard
                     for x in facts_at(f, c.block))
            rep.obligation(ok)
            short = f.name.split("validation::")[-1]
            if ok:
                rep.instance("C21.PUSHGUARD", "%s: push only under !contains(name) on the same guard" % short)
            else:
                rep.finding("C21.PUSHGUARD", f.name, "push-seen",
                            "%s pushes a name onto its RecursionGuard without having tested that the name is not already on the path: re-pushing a seen name is not counted against the limit, so a reference chain that leads into a cycle it is not part of recurses without bound (stack overflow)" % short, c.loc())


def run(prog, rep):
    rule_cut(prog, rep)
    rule_limit(prog, rep)
    rule_sort(prog, rep)
    rule_search(prog, rep)
    rule_pushguard(prog, rep)
    # serialization must not panic either: the quoted-string writer slices one byte per escaped
    # character, so the set of characters it selects for escaping has to be ASCII (C09.ESCINV)
    from .C09 import rule_escinv
    rule_escinv(prog, rep)
    # the compiler's parse entry points decode every string token (unwraps that rely on the lexer)
    from . import lexer_dfa
    lexer_dfa.run(prog, rep)
    if rep.tier == "thorough":
        from . import inv_compiler
        inv_compiler.run(prog, rep)
    rep.assume("ariadne's rendering code and drop glue of deep trees are outside the analysis")
