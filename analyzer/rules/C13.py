"""C13 — Building from several sources is compositional (DESIGN.md C13)."""
import re

from ..core import AnchorError, norm_path, op_place
from ..flow import branch_on_enum_call, must_pass

CRATES = ["apollo_compiler"]
LEVEL = "other"
EXPLANATION = """
C13.MISMATCH: the three places that discriminate an extension's kind against a definition's kind
(the type_extension! arms of add_ast_document, adopt_type_extensions, and the orphan-replay loop of
each <XType>::from_ast) must all report TypeExtensionKindMismatch on the non-matching branch - a
sibling that silently skips makes `extension before definition` differ from `definition before
extension`.  C13.STICKY: extend_sticky / extend_sticky_set insert only on the None edge of the
lookup and call the duplicate callback on the Some edge (first definition wins regardless of how
sources are split).  C13.ORPHAN: orphan extensions are queued in an insertion-ordered map with
push (source order) and consumed with shift_remove.  C13.FILEID: each parse entry allocates
exactly one FileId::new() per source text.  C13.CARRY: the per-source methods of both builders
(add_ast_document_not_adding_sources) keep no history of their own: no named local that is
reassigned or mutably borrowed inside the definitions loop feeds a branch of that loop (such a flag
forgets, at every new source, what earlier sources contributed), and no field of the builder is
written outside the definitions loop (a per-call reset).  State that decides a diagnostic must live
in the builder and survive from one source to the next.  Does not decide equality of diagnostics between
sequential and concatenated builds.
"""

KINDS = ["Scalar", "Object", "Interface", "Union", "Enum", "InputObject"]
MISMATCH = r"BuildError::TypeExtensionKindMismatch"


def _mismatch_push_blocks(fn, prog=None, depth=0):
    """blocks that report TypeExtensionKindMismatch: a direct DiagnosticList::push of that
    variant, or a call to a local helper that contains such a push (wrapper idiom, one level)"""
    out = []
    for c in fn.live_calls():
        if re.search(r"DiagnosticList::push$", c.name) and len(c.args) > 2 and re.search(MISMATCH, fn.sym(c.args[2])):
            out.append(c.block)
        elif prog is not None and depth == 0 and c.uid in prog.fns and prog.fns[c.uid].crate == "apollo_compiler" and c.uid != fn.uid:
            g = prog.fns[c.uid]
            if g.name.startswith("apollo_compiler::schema::from_ast::") and _mismatch_push_blocks(g, prog, 1):
                out.append(c.block)
    return out


def rule_mismatch(prog, rep):
    rep.floor("C13.MISMATCH", 18)
    # (1) <XType>::from_ast orphan replay loops
    for k in KINDS:
        fn = prog.fn(r"^apollo_compiler::schema::from_ast::<impl apollo_compiler::schema::%sType>::from_ast$" % k)
        sw = []
        for b in sorted(fn.live_blocks()):
            info = fn.switch_info(b)
            if info and info.get("kind") == "enum" and info["adt"].endswith("ast::Definition"):
                sw.append((b, info))
        if len(sw) != 1:
            rep.fail("UNDECIDED rule=C13.MISMATCH %s: expected one match on ast::Definition in the orphan replay loop (found %d)" % (fn.name, len(sw)))
            continue
        b, info = sw[0]
        want = "%sTypeExtension" % k
        good_t = info["edges"].get(want)
        if good_t is None:
            rep.finding("C13.MISMATCH", fn.name, "replay-arm", "the orphan replay loop of %sType::from_ast does not match %s" % (k, want), fn.loc())
            continue
        others = set(fn.succs()[b]) - {good_t}
        others = [o for o in others if fn.term(o)[0] != "unreachable"]
        pushes = _mismatch_push_blocks(fn, prog)
        # loop header = the iterator next() call block; an `other` edge must report before looping
        nxt = [c.block for c in fn.live_calls() if re.search(r"Iterator>::next$|Iterator::next$", c.name) and b in fn.reachable_blocks([c.block])]
        targets = nxt + fn.return_blocks()
        ok = bool(others) and all(must_pass(fn, [o], targets, pushes)[0] for o in others)
        if ok:
            rep.instance("C13.MISMATCH", "%sType::from_ast: an orphan extension of another kind reports TypeExtensionKindMismatch" % k)
        else:
            rep.finding("C13.MISMATCH", fn.name, "replay-silent-skip",
                        "an orphan extension of a different kind than the %s definition is silently dropped when the extension precedes the definition (the same pair in the other order reports TypeExtensionKindMismatch)" % k.lower(), fn.loc())
    # (2) type_extension! arms in add_ast_document
    add = prog.fn(r"^apollo_compiler::schema::from_ast::SchemaBuilder::add_ast_document_not_adding_sources$")
    pushes = _mismatch_push_blocks(add)
    n = 0
    for b in sorted(add.live_blocks()):
        info = add.switch_info(b)
        if info and info.get("kind") == "enum" and info["adt"].endswith("schema::ExtendedType"):
            p = norm_path(add.apath(info["place"]))
            if "get_mut" not in p:
                continue
            n += 1
            # exactly one kind is accepted; every other edge reports
            acc = [v for v, t in info["edges"].items() if not (add.reachable_blocks([t]) & set(pushes)) or False]
            others = [t for t in set(add.succs()[b]) if add.term(t)[0] != "unreachable"]
            reporting = [t for t in others if t in pushes or must_pass(add, [t], add.return_blocks() + [x for x in add.live_blocks() if add.dominates(x, b) and x != b and False], pushes)[0]]
            silent = [t for t in others if t not in reporting]
            # the accepting edge is the single one that reaches extend_ast
            ext_blocks = [c.block for c in add.live_calls() if re.search(r"::extend_ast$", c.name)]
            accepting = [t for t in others if any(e in add.reachable_blocks([t], avoid=[x for x in others if x != t]) for e in ext_blocks) and t not in reporting]
            bad = [t for t in silent if t not in accepting]
            if len(accepting) == 1 and not bad:
                rep.instance("C13.MISMATCH", "add_ast_document type_extension! arm at bb%d: one accepted kind, every other kind reports TypeExtensionKindMismatch" % b)
            else:
                rep.finding("C13.MISMATCH", add.name, "extension-arm#%d" % (n - 1),
                            "a type_extension! arm lets an extension of a mismatched kind through without TypeExtensionKindMismatch", add.loc())
    if n != 6:
        rep.fail("UNDECIDED rule=C13.MISMATCH add_ast_document: expected 6 type_extension! kind tests, found %d" % n)
    # (3) adopt_type_extensions
    ad = prog.fn(r"^apollo_compiler::schema::from_ast::adopt_type_extensions$")
    pushes = _mismatch_push_blocks(ad)
    m = 0
    for b in sorted(ad.live_blocks()):
        info = ad.switch_info(b)
        if info and info.get("kind") == "enum" and info["adt"].endswith("ast::Definition"):
            p = norm_path(ad.apath(info["place"]))
            # the inner per-extension test (inside the loops), not the outer match on extensions[0]
            inloop = any(re.search(r"Iterator>::next$|Iterator::next$", c.name) and b in ad.reachable_blocks([c.target]) and c.block in ad.reachable_blocks([b]) for c in ad.live_calls())
            if not inloop:
                continue
            m += 1
            exts = [c.block for c in ad.live_calls() if re.search(r"::extend_ast$", c.name)]
            others = [t for t in set(ad.succs()[b]) if ad.term(t)[0] != "unreachable"]
            ok_edges = [t for t in others if t in exts or any(e in ad.reachable_blocks([t], avoid=pushes) and e not in ad.reachable_blocks([x for x in others if x != t], avoid=pushes + [b]) for e in exts)]
            rest = [t for t in others if t not in ok_edges]
            if len(ok_edges) >= 1 and rest and all(t in pushes or must_pass(ad, [t], [b] + ad.return_blocks(), pushes)[0] for t in rest):
                rep.instance("C13.MISMATCH", "adopt_type_extensions loop at bb%d: other kinds report TypeExtensionKindMismatch" % b)
            else:
                rep.finding("C13.MISMATCH", ad.name, "adopt-arm#%d" % (m - 1), "adopt_type_extensions lets a mismatched extension through silently", ad.loc())
    if m != 6:
        rep.fail("UNDECIDED rule=C13.MISMATCH adopt_type_extensions: expected 6 per-kind loops, found %d" % m)


def rule_sticky(prog, rep):
    rep.floor("C13.STICKY", 2)
    for nm, lookup, ins in (("extend_sticky", r"IndexMap::<K, V, S>::get_key_value$|IndexMap<K, V, S>>::get_key_value$", r"IndexMap::<K, V, S>::insert$"),
                            ("extend_sticky_set", r"IndexSet::<T, S>::get$", r"IndexSet::<T, S>::insert$")):
        fn = prog.fn(r"^apollo_compiler::schema::from_ast::%s$" % nm)
        lk = [c for c in fn.live_calls() if re.search(lookup, c.name)]
        inserts = [c.block for c in fn.live_calls() if re.search(ins, c.name)]
        dups = [c.block for c in fn.live_calls() if re.search(r"FnMut::call_mut$|FnMut<.*>>::call_mut$", c.name + " " + c.orig_name)]
        if len(lk) != 1 or not inserts or not dups:
            rep.fail("UNDECIDED rule=C13.STICKY %s: lookup/insert/duplicate-callback shape not recognised" % nm)
            continue
        r = branch_on_enum_call(fn, lk[0])
        if r is None:
            rep.fail("UNDECIDED rule=C13.STICKY %s: lookup result not matched directly" % nm)
            continue
        info, _ = r
        none_t = info["edges"].get("None", info["otherwise"])
        some_t = info["edges"].get("Some", info["otherwise"])
        rn, rs = fn.reachable_blocks([none_t], avoid=[lk[0].block]), fn.reachable_blocks([some_t], avoid=[lk[0].block])
        ok = all(b in rn for b in inserts) and not any(b in rs for b in inserts) and all(b in rs for b in dups) and not any(b in rn for b in dups)
        # the map argument is the function's own map parameter
        if ok:
            rep.instance("C13.STICKY", "%s: insert only on the None edge of the lookup, duplicate callback only on the Some edge" % nm)
        else:
            rep.finding("C13.STICKY", fn.name, "first-wins", "%s no longer keeps the first definition and reports the later one (insert on the Some edge or callback on the None edge)" % nm, fn.loc())


def rule_orphan(prog, rep):
    rep.floor("C13.ORPHAN", 3)
    sb = prog.adt(r"^apollo_compiler::schema::from_ast::SchemaBuilder$")
    fl = {f[0]: f[1] for v in sb["variants"] for f in v["fields"]}
    t = fl.get("orphan_type_extensions", "")
    if re.match(r"^indexmap::IndexMap<apollo_compiler::name::Name, std::vec::Vec<", t):
        rep.instance("C13.ORPHAN", "SchemaBuilder.orphan_type_extensions: IndexMap<Name, Vec<Definition>> (insertion-ordered)")
    else:
        rep.finding("C13.ORPHAN", sb["name"], "orphan-map-type", "orphan_type_extensions is %s: orphan extensions would not be replayed in source order" % t, None)
    add = prog.fn(r"^apollo_compiler::schema::from_ast::SchemaBuilder::add_ast_document_not_adding_sources$")
    q = 0
    for c in add.live_calls():
        s0 = add.sym(c.args[0]) if c.args else ""
        if "orphan_type_extensions" not in s0:
            continue
        nm = c.name.split("::")[-1]
        if nm in ("entry", "or_default", "push", "shift_remove", "unwrap_or_default"):
            q += 1
        elif nm in ("swap_remove", "remove", "pop", "insert", "sort_keys", "reverse", "swap_remove_entry"):
            rep.finding("C13.ORPHAN", add.name, "orphan-op:" + nm, "orphan_type_extensions.%s perturbs the order in which orphan extensions are replayed" % nm, c.loc())
    pushes = [c for c in add.live_calls() if re.search(r"vec::Vec::<T, A>::push$", c.name) and "orphan_type_extensions" in add.sym(c.args[0])]
    removes = [c for c in add.live_calls() if re.search(r"IndexMap::<K, V, S>::shift_remove$", c.name) and "orphan_type_extensions" in add.sym(c.args[0])]
    if len(pushes) == 6 and len(removes) == 6:
        rep.instance("C13.ORPHAN", "add_ast_document: 6 x entry(name).or_default().push(ext) and 6 x shift_remove(name)")
    else:
        rep.finding("C13.ORPHAN", add.name, "orphan-queue", "expected 6 pushes and 6 shift_removes on orphan_type_extensions, found %d / %d" % (len(pushes), len(removes)), add.loc())
    # schema extension orphans: Vec push
    sd = [c for c in add.live_calls() if re.search(r"vec::Vec::<T, A>::push$", c.name) and "orphan_extensions" in add.sym(c.args[0])]
    if sd:
        rep.instance("C13.ORPHAN", "schema extensions before the schema definition are queued with Vec::push (source order)")
    else:
        rep.finding("C13.ORPHAN", add.name, "schema-orphans", "orphan schema extensions are no longer queued with Vec::push", add.loc())


def rule_fileid(prog, rep):
    rep.floor("C13.FILEID", 7)
    new = prog.fn(r"^apollo_compiler::parser::FileId::new$")
    entries = [
        r"parser::Parser::parse_ast$", r"parser::Parser::parse_into_schema_builder$", r"parser::Parser::parse_into_executable_builder$",
        r"parser::Parser::parse_executable_inner$", r"parser::Parser::parse_mixed_validate$", r"parser::Parser::parse_field_set_inner$",
        r"parser::Parser::parse_type$",
    ]
    for e in entries:
        ms = [f for f in prog.fns_matching("^apollo_compiler::" + e) if f.kind in ("fn", "assoc_fn")]
        if len(ms) != 1:
            raise AnchorError("parse entry not found or ambiguous: %s" % e)
        fn = ms[0]
        cs = [c for c in fn.live_calls() if c.uid == new.uid]
        inloop = any(c.block in fn.reachable_blocks([c.target]) for c in cs if c.target is not None)
        if len(cs) == 1 and not inloop:
            rep.instance("C13.FILEID", "%s: one FileId::new() per source text" % fn.name.split("::")[-1])
        else:
            rep.finding("C13.FILEID", fn.name, "file-id-count", "%d FileId::new() calls (in a loop: %s): two sources could share an id or one source get two" % (len(cs), inloop), fn.loc())
    # nobody else mints ids
    others = set()
    for fn in prog.fns.values():
        for c in fn.live_calls():
            if c.uid == new.uid and not any(re.search(e, fn.name) for e in entries):
                others.add(fn.name)
    allowed = {"apollo_compiler::schema::from_ast::SchemaBuilder::add_ast", "apollo_compiler::executable::from_ast::ExecutableDocumentBuilder::add_ast_document"}
    for o in sorted(others):
        rep.instance("C13.FILEID", "other FileId::new() caller: %s" % o)


CARRY_EXEMPT_TY = [
    (r"^std::slice::Iter<|::Iter<|::IntoIter<", "the loop iterator itself"),
    (r"(^|::)Entry<", "a map entry of the builder's own map (borrow of builder state, not a copy)"),
    (r"from_ast::BuildErrors<", "wrapper around the builder's DiagnosticList plus a path stack that is empty between definitions"),
    (r"^&", "a reference (the state it points to lives elsewhere)"),
]


def rule_carry(prog, rep):
    rep.floor("C13.CARRY", 2)
    from ..flow import derives, loop_body, loop_headers
    for pat in (r"^apollo_compiler::executable::from_ast::ExecutableDocumentBuilder::<.*>::add_ast_document_not_adding_sources$",
                r"^apollo_compiler::schema::from_ast::SchemaBuilder::add_ast_document_not_adding_sources$"):
        fn = prog.inline(prog.fn(pat))
        hs = loop_headers(fn)
        # the definitions loop: the outermost for-loop over `document.definitions`
        outer = [h for h in hs if "arg2.definitions" in fn.sym(hs[h][2].args[0]) and "Iterator>::next" not in fn.sym(hs[h][2].args[0])]
        if len(outer) != 1:
            raise AnchorError("%s: loop over document.definitions not found" % fn.name)
        body = set(loop_body(fn, outer[0], hs))
        ok = True
        # (1) loop-carried named locals that feed a branch
        cand = {}
        for l, ds in fn.defs().items():
            nm = fn.local_name(l)
            if not nm or l <= fn.argc:
                continue
            whole = [d for d in ds if not d[3]]
            in_body = [d for d in whole if d[0] in body]
            before = [d for d in whole if d[0] not in body]
            carried = (in_body and before) or (l in fn.mut_borrowed() and before and not in_body)
            if not carried:
                continue
            ty = fn.local_ty(l)
            if any(re.search(r, ty) for r, _why in CARRY_EXEMPT_TY):
                continue
            cand[l] = nm
        flagged = {}
        if cand:
            names = set("var:%s" % n for n in cand.values())
            for b in sorted(body):
                t = fn.term(b)
                if t[0] != "switch":
                    continue
                roots = derives(fn, t[1])[0]
                hit = [r for r in roots if any(r == n or r.startswith(n + ".") for n in names)]
                for r in hit:
                    flagged.setdefault(r.split(".")[0][4:], b)
        for nm, b in sorted(flagged.items()):
            ok = False
            rep.finding("C13.CARRY", fn.name, "local-state:" + nm,
                        "the local `%s` is state carried from one definition to the next and decides a branch of the definitions loop, but it is created anew for every source added to the builder: what earlier sources contributed is forgotten, so adding sources one by one differs from adding their concatenation" % nm, fn.loc())
        # (2) builder fields written outside the definitions loop
        for b in sorted(fn.live_blocks()):
            if b in body:
                continue
            for st in fn.stmts(b):
                if st[0] == "=" and st[1][1]:
                    d = fn.dest_s(st[1])
                    if re.match(r"^arg1\.", d):
                        ok = False
                        rep.finding("C13.CARRY", fn.name, "reset:" + d,
                                    "builder state `%s` is written on every call, outside the loop over definitions: it is reset each time a source is added" % d.replace("arg1.", "self."), fn.loc())
        if ok:
            rep.instance("C13.CARRY", "%s: no loop-carried named local decides a branch (%d loop-carried locals of non-exempt type looked at), no builder field is written outside the definitions loop" % (fn.name.split("::")[-3] if "::<" in fn.name else fn.name.split("::")[-2], len(cand)))


def rule_deffirst(prog, rep):
    """C13.DEFFIRST: an extension that comes before its definition is queued and handed to
    `<X>::from_ast(errors, definition, extensions)`.  For the built schema not to depend on where
    the extension stood, the constructor must add the definition's own components first and apply
    the queued extensions afterwards (as `extend_ast` does for extensions that come later): no
    component of `definition` (any field except its name, used in messages) is read on a path
    that has already applied an extension."""
    rep.floor("C13.DEFFIRST", 7)
    fs = [f for f in prog.fns.values()
          if re.search(r"^apollo_compiler::schema::from_ast::<impl apollo_compiler::schema::\w+>::from_ast$", f.name)]
    for f in sorted(fs, key=lambda g: g.name):
        names = [n for (_, n) in f.d["locals"][:f.d["argc"] + 1]]
        if "definition" in names and "extensions" in names:
            di = names.index("definition")
        else:
            # by type: the Node<ast::..Definition> parameter next to a Vec / slice of extensions
            di = None
            for i, (t, _) in enumerate(f.d["locals"][:f.d["argc"] + 1]):
                if i and re.search(r"Node<apollo_compiler::ast::\w+Definition>", t):
                    di = i
            if di is None or f.d["argc"] < 3:
                continue
        kind = f.name.split("schema::")[-1].split(">")[0]
        ext = [c for c in f.live_calls() if re.search(r"::extend_ast$", c.name)]
        # `extensions.iter().for_each(|ext| ty.extend_ast(errors, ext))`: the combinator call whose
        # closure applies the extensions stands for the loop
        for c in f.live_calls():
            for a in c.args:
                m = re.search(r"closure:.*?(\{closure#\d+\})", f.sym(a))
                if not m:
                    continue
                for h in prog.fns.values():
                    if h.kind == "closure" and h.parent == f.uid and h.name.endswith(m.group(1)) and any(re.search(r"::extend_ast$", k.name) for k in h.live_calls()):
                        ext.append(c)
        if not ext:
            rep.finding("C13.DEFFIRST", f.name, "no-extend", "%s::from_ast does not apply the queued extensions" % kind, f.loc())
            continue
        succs = f.succs()
        after, work = set(), [c.target for c in ext if c.target is not None]
        while work:
            b = work.pop()
            if b in after:
                continue
            after.add(b)
            work.extend(succs[b])
        late = []
        # a direct read: the operand itself is `definition.<field>` (the symbolic value of an
        # operand computed earlier also mentions the fields it was built from - not a read here)
        pat = re.compile(r"^[&*( ]*<Node<T> as Deref>::deref\(&\*?arg%d\)\)?\.(\w+)" % di)
        for c in f.live_calls():
            if c.block not in after:
                continue
            for a in c.args:
                m = pat.match(f.sym(a))
                if m and m.group(1) != "name":
                    late.append((m.group(1), c))
        for b in sorted(after):
            for st in f.stmts(b):
                if st[0] == "=" and st[2][0] in ("use", "ref"):
                    try:
                        v = f.sym(st[2][1]) if st[2][0] == "use" else f.sym(["c", st[2][2]])
                    except Exception:
                        continue
                    m = pat.match(v)
                    if m and m.group(1) != "name":
                        late.append((m.group(1), ext[0]))
        rep.obligation(not late)
        if late:
            fld, c = late[0]
            rep.finding("C13.DEFFIRST", f.name, "late:" + fld,
                        "%s::from_ast reads the definition's `%s` after queued extensions have been applied: an `extend` that stands before the definition now takes precedence over (or is ordered before) the definition's own %s, while the same extension after the definition does not - the built schema depends on the position of the extension" % (kind, fld, fld), c.loc())
        else:
            rep.instance("C13.DEFFIRST", "%s::from_ast: all components of the definition are added before the first queued extension is applied" % kind)


def run(prog, rep):
    rule_mismatch(prog, rep)
    rule_sticky(prog, rep)
    rule_orphan(prog, rep)
    rule_fileid(prog, rep)
    rule_carry(prog, rep)
    rule_deffirst(prog, rep)
