"""Shared slots for the apollo-parser rules (C01, C02, C04, C07)."""
import re

from ..flow import arg_path_s, branch_on_call

ENTRY_GRAMMAR = [
    (r"parser::Parser::<'input>::parse$", r"grammar::document::document$"),
    (r"parser::Parser::<'input>::parse_selection_set$", r"grammar::selection::field_set$"),
    (r"parser::Parser::<'input>::parse_type$", r"grammar::ty::ty$"),
]

ACQ = r"limit::LimitTracker::check_and_increment$"
REL = r"limit::LimitTracker::decrement$"

_cache = {}


def entries(prog):
    es = [prog.fn(e, "apollo_parser") for e, _ in ENTRY_GRAMMAR]
    es.append(prog.fn(r"<apollo_parser::lexer::Lexer<'a> as std::iter::Iterator>::next$"))
    es.append(prog.fn(r"apollo_parser::lexer::Lexer::<'a>::lex$"))
    return es


def is_reclimit_call(fn, call, pat):
    if not re.search(pat, call.name):
        return False
    p = arg_path_s(fn, call, 0)
    return p is not None and p.endswith(".recursion_limit")


def guarded_call_blocks(prog):
    """fn uid -> set of blocks lying between the not-reached edge of a recursion-limit check
    and the matching decrement (calls there run one level deeper, under the limit)"""
    if "guarded" in _cache and _cache["guarded"][0] is prog:
        return _cache["guarded"][1]
    out = {}
    for fn in prog.fns.values():
        if fn.crate != "apollo_parser":
            continue
        acqs = [c for c in fn.live_calls() if is_reclimit_call(fn, c, ACQ)]
        if not acqs:
            continue
        decs = set(c.block for c in fn.live_calls() if is_reclimit_call(fn, c, REL))
        g = set()
        for c in acqs:
            br = branch_on_call(fn, c)
            if br is None:
                continue
            _t_reached, t_ok, _ = br
            g |= fn.reachable_blocks([t_ok], avoid=decs)
        out[fn.uid] = g
    _cache["guarded"] = (prog, out)
    return out


def may_consume(prog):
    """uids of apollo-parser functions from which Parser::pop is reachable in the call graph
    without going through skip_ignored (which only ever consumes ignored tokens) or the
    cloning look-ahead peek_n_inner."""
    if "mc" in _cache and _cache["mc"][0] is prog:
        return _cache["mc"][1]
    pop = prog.fn(r"parser::Parser::<'input>::pop$")
    skip = prog.fn(r"parser::Parser::<'input>::skip_ignored$")
    peekn = prog.fn(r"parser::Parser::<'input>::peek_n_inner$")
    cg = prog.callgraph()
    rev = {}
    for u, es in cg.items():
        if u in (skip.uid, peekn.uid):
            continue
        for v in es:
            rev.setdefault(v, set()).add(u)
    seen = set()
    st = [pop.uid]
    while st:
        x = st.pop()
        if x in seen:
            continue
        seen.add(x)
        for p in rev.get(x, ()):
            if p not in seen:
                st.append(p)
    _cache["mc"] = (prog, seen)
    return seen


def is_consuming_call(prog, c, mc):
    return c.uid in mc


def progress_kind(prog, c, mc):
    """classify a call as making progress for loop-termination purposes"""
    n = c.name
    if c.uid in mc:
        return "consume:" + n.split("::")[-1]
    if re.search(r"lexer::cursor::Cursor::<'a>::bump$", n):
        return "cursor-bump"
    if re.search(r"Lexer<'a> as std::iter::Iterator>::next$", n) or (
        re.search(r"iter::Iterator::next$|iter::traits::iterator::Iterator::next$", c.orig_name)
        and "lexer::Lexer" in (c.callee.get("self_ty") or c.callee.get("impl_self") or "")
    ):
        return "lexer-next"
    if re.search(r"Iterator>::next$|iter::Iterator::next$|iterator::Iterator::next$", n) or re.search(
        r"iterator::Iterator::next$", c.orig_name
    ):
        st = c.callee.get("self_ty") or c.callee.get("impl_self") or ""
        if re.search(r"vec::IntoIter|slice::Iter|str::Chars|str::CharIndices|option::", st):
            return "finite-iterator"
        return None
    if c.fn.name.endswith(("::peek_while", "::peek_while_kind")) and re.search(r"ops::function::FnMut::call_mut$|ops::FnMut::call_mut$", c.orig_name):
        return "callback(checked by C01.PROGRESS.peek_while*)"
    return None


def may_emit_token(prog):
    """uids of functions that can queue a pending token or write a token to the tree builder:
    anything reaching next_token (lexer errors are queued as ERROR tokens) or
    SyntaxTreeBuilder::token."""
    if "emit" in _cache and _cache["emit"][0] is prog:
        return _cache["emit"][1]
    targets = [prog.fn(r"parser::Parser::<'input>::next_token$").uid,
               prog.fn(r"syntax_tree::SyntaxTreeBuilder::token$").uid]
    cg = prog.callgraph()
    rev = {}
    for u, es in cg.items():
        for v in es:
            rev.setdefault(v, set()).add(u)
    seen = set()
    st = list(targets)
    while st:
        x = st.pop()
        if x in seen:
            continue
        seen.add(x)
        for p in rev.get(x, ()):
            if p not in seen:
                st.append(p)
    _cache["emit"] = (prog, seen)
    return seen
