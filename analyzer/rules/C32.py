"""C32 — apollo-smith generates valid documents deterministically (DESIGN.md C32).

Validity of every generated document is a statement about runtime values and is NOT decided.
Decided: the determinism sentence and four structural conditions the validity argument rests on."""
import re

from ..core import AnchorError, Undecided
from ..flow import derives, facts_at, loop_headers
from ..patset import Evaluator

CRATES = ["apollo_smith"]
LEVEL = "other"
EXPLANATION = """
C32.DET: the library code of apollo-smith has no entropy source of its own (no rand::rng /
thread_rng / random, clock, environment, thread id) - randomness comes only from the caller's
Unstructured / RandomProvider - and no std HashMap / HashSet is iterated into generated output
(the single allow-listed site is the cyclic-graph fallback of topo_order_parents_first, which
add_edge's callers exclude).  Hence the same bytes give the same document.  C32.BACKFILL: the pass
that copies inherited interface fields reads only an interface's *direct* parents, so it must
visit parents before children: its loop iterates topo_order_parents_first(), which is a
topological sort of the reversed implements graph.  C32.UNIQUE: type_name() returns a name only
after the loop `while used_type_names.contains(name)` has exited and records it in
used_type_names.  C32.CHARSET: generated names use a head alphabet of letters and a body alphabet
within [_0-9A-Za-z], and names that are empty or reserved keywords are rejected.  C32.PRUNE:
unused fragments are dropped by retaining exactly the fragments reachable from operations.
C32.EXTREQ: reader/writer agreement on input object fields: input_value_for_type builds a value
from the first definition of the type only, so input_object_type_definition must, under `extend`,
give every NonNull field without default value its inner type (no further condition).
C32.ROOTS: between two root operation type picks of schema_definition every candidate equal to
the chosen type is removed (the candidate list repeats a type once per extension).
"""

S = "apollo_smith::"
ENTROPY = r"^rand::(rng|random|thread_rng|rngs::ThreadRng|rngs::OsRng|rngs::SysRng)|::thread_rng$|^rand::random|std::time::(SystemTime|Instant)::now$|^std::env::|std::thread::current$|std::process::id$|RandomState::new$|getrandom"
HASH_ITER = r"std::collections::(hash::map::|hash::set::)?Hash(Map|Set)::<[^>]*>::(iter|iter_mut|keys|values|values_mut|into_keys|into_values|drain|retain|extract_if|difference|intersection|union|symmetric_difference)$|IntoIterator for (&'a |&'a mut )?std::collections::Hash(Map|Set)<"
ALLOWED_HASH_ITER = {"apollo_smith::implements_graph::ImplementsGraph::topo_order_parents_first"}


def rule_det(prog, rep):
    rep.floor("C32.DET", 2)
    n_fns = 0
    ent = []
    hit = []
    for fn in prog.fns.values():
        if fn.crate != "apollo_smith":
            continue
        n_fns += 1
        if re.search(r" as std::fmt::Debug>::fmt$", fn.name):
            continue
        for c in fn.live_calls():
            full = c.callee.get("full") or c.name
            if re.search(ENTROPY, c.name) or re.search(ENTROPY, full):
                ent.append((fn, c))
            if re.search(HASH_ITER, c.name) or re.search(HASH_ITER, full):
                hit.append((fn, c))
    if n_fns < 300:
        raise AnchorError("apollo_smith: only %d functions in the facts" % n_fns)
    rep.obligation(not ent)
    if ent:
        for fn, c in ent:
            rep.finding("C32.DET", fn.name, "entropy:" + c.name.split("::")[-1], "library code draws entropy from %s instead of the caller's Unstructured / RandomProvider: the same input bytes no longer give the same document" % c.name, c.loc())
    else:
        rep.instance("C32.DET", "no entropy source (rng constructors, clocks, environment, thread/process ids) is called in %d library functions" % n_fns)
    bad = [(fn, c) for fn, c in hit if fn.name not in ALLOWED_HASH_ITER and (fn.root is None or prog.fns.get(fn.root) is None or prog.fns[fn.root].name not in ALLOWED_HASH_ITER)]
    rep.obligation(not bad)
    for fn, c in bad:
        rep.finding("C32.DET", fn.name, "hash-iteration:" + c.name.split("::")[-1], "a std HashMap/HashSet is iterated (%s): its order depends on the per-process hash seed and can reach the generated document" % c.name.split("::")[-1], c.loc())
    for fn, c in hit:
        if (fn, c) not in bad:
            rep.instance("C32.DET", "allow-listed hash iteration: %s (cyclic-graph fallback, excluded by add_edge's callers)" % fn.name.split("::")[-1])
    if not hit:
        rep.instance("C32.DET", "no std HashMap/HashSet iteration at all")
    # DocumentBuilder's only random source is its Unstructured
    adt = prog.adt(r"^apollo_smith::DocumentBuilder$")
    fl = {f[0]: f[1] for v in adt["variants"] for f in v["fields"]}
    ok = "Unstructured" in fl.get("u", "")
    rep.obligation(ok)
    if ok:
        rep.instance("C32.DET", "DocumentBuilder.u: %s (the caller's bytes)" % fl["u"][:60])
    else:
        rep.finding("C32.DET", adt["name"], "source", "DocumentBuilder no longer draws from an arbitrary::Unstructured field `u`", None)


def rule_backfill(prog, rep):
    rep.floor("C32.BACKFILL", 3)
    f = prog.fn(r"^apollo_smith::interface::<impl apollo_smith::DocumentBuilder<'_>>::backfill_inherited_interface_fields$")
    hs = loop_headers(f)
    topo = [c for c in f.live_calls() if c.name.endswith("ImplementsGraph::topo_order_parents_first")]
    dp = [c for c in f.live_calls() if c.name.endswith("ImplementsGraph::direct_parents")]
    pf = [c for c in f.live_calls() if c.name.endswith("interface::parent_fields_from_defs")]
    outer = None
    for h, (_some, _none, nxt) in hs.items():
        paths, calls = derives(f, nxt.args[0])
        if any(c.name.endswith("topo_order_parents_first") for c in calls) and not any(re.search(r"Iterator>?::next$", c.name) for c in calls):
            outer = h
    reads_direct = len(dp) == 1 and len(pf) == 1 and "direct_parents(" in f.sym(pf[0].args[0])
    if reads_direct and outer is not None and f.sym(topo[0].args[0]) == "&arg1.implements_graph":
        body = f.reachable_blocks([hs[outer][0]], avoid=[outer])
        ok = dp[0].block in body and pf[0].block in body
    else:
        ok = False
    rep.obligation(ok)
    if ok:
        rep.instance("C32.BACKFILL", "backfill_inherited_interface_fields: `for name in implements_graph.topo_order_parents_first()` and the body reads direct_parents(name) only")
    elif reads_direct:
        src = [f.sym(nxt.args[0])[:90] for h, (_s, _n, nxt) in hs.items()]
        rep.finding("C32.BACKFILL", f.name, "order",
                    "the backfill pass reads only each interface's direct parents but does not iterate in topological (parents-first) order (loop sources: %s): with X implements Y implements Z, X can be processed before Y has inherited Z's fields, and the generated schema fails `type X does not satisfy interface Z`" % src, f.loc())
    else:
        rep.fail("UNDECIDED rule=C32.BACKFILL: the backfill pass no longer has the shape `read direct parents, copy their fields`")
    g = prog.fn(r"^apollo_smith::implements_graph::ImplementsGraph::topo_order_parents_first$")
    ts = [c for c in g.live_calls() if re.search(r"petgraph::algo::toposort$", c.name)]
    ok = len(ts) == 1 and re.search(r"Reversed", g.sym(ts[0].args[0]) + g.local_ty(ts[0].args[0][1][0]) if ts[0].args[0][0] in ("c", "m") else "") is not None
    rev = [c for c in g.live_calls() if re.search(r"::rev$|::reverse$", c.name)]
    ok = ok and not rev
    rep.obligation(ok)
    if ok:
        rep.instance("C32.BACKFILL", "topo_order_parents_first = toposort(Reversed(graph)) with edges child -> parent, not reversed again")
    else:
        rep.finding("C32.BACKFILL", g.name, "toposort", "topo_order_parents_first is no longer a topological sort of the reversed implements graph", g.loc())
    ae = prog.fn(r"^apollo_smith::implements_graph::ImplementsGraph::add_edge$")
    addc = [c for c in ae.live_calls() if re.search(r"Graph::<N, E, Ty, Ix>::add_edge$", c.name)]
    ok = len(addc) == 1 and "node_for(&arg1, &arg2)" in ae.sym(addc[0].args[1]).replace("ImplementsGraph::", "") and "node_for(&arg1, &arg3)" in ae.sym(addc[0].args[2]).replace("ImplementsGraph::", "")
    rep.obligation(ok)
    if ok:
        rep.instance("C32.BACKFILL", "add_edge(from, to): graph edge from -> to (child -> parent)")
    else:
        rep.finding("C32.BACKFILL", ae.name, "direction", "add_edge no longer records the edge from the implementer to the implemented interface", ae.loc())


def rule_unique(prog, rep):
    rep.floor("C32.UNIQUE", 1)
    f = prog.fn(r"^apollo_smith::name::<impl apollo_smith::DocumentBuilder<'_>>::type_name$")
    con = [c for c in f.live_calls() if re.search(r"Hash(Set|Map)::<[^>]*>::contains(_key)?$|IndexSet::<[^>]*>::contains$", c.name) and "used_type_names" in f.sym(c.args[0])]
    ins = [c for c in f.live_calls() if re.search(r"(HashSet|IndexSet)::<[^>]*>::insert$", c.name) and "used_type_names" in f.sym(c.args[0])]
    ok = len(con) == 1 and len(ins) == 1
    if ok:
        fs = facts_at(f, ins[0].block)
        ok = any(x[0] == "callbool" and x[4] is con[0] and x[3] is False for x in fs) or any(x[0] == "callbool" and x[1] == con[0].name and x[3] is False for x in fs)
        # the loop: the contains test is re-evaluated after each rename
        ok = ok and con[0].block in f.reachable_blocks([con[0].target])
        # what is inserted and returned is the tested string
        m = re.search(r"String::as_str\(&(.*)\)$", f.sym(con[0].args[1]))
        ok = ok and m is not None and m.group(1) in f.sym(ins[0].args[1])
    rep.obligation(ok)
    if ok:
        rep.instance("C32.UNIQUE", "type_name: loops while used_type_names.contains(name), then inserts and returns that name")
    else:
        rep.finding("C32.UNIQUE", f.name, "loop", "type_name can return a name that is already used (the insert/return is not under `!used_type_names.contains(name)` in a retry loop)", f.loc())


def rule_charset(prog, rep):
    rep.floor("C32.CHARSET", 2)
    head = prog.const(r"^apollo_smith::name::CHARSET_NAME_HEAD$")
    body = prog.const(r"^apollo_smith::name::CHARSET_NAME_BODY$")

    def letters(c):
        v = c.get("value") or ""
        m = re.search(r'b"((?:[^"\\]|\\.)*)"', v) or re.search(r'"((?:[^"\\]|\\.)*)"', v)
        if m:
            return set(m.group(1).encode().decode("unicode_escape"))
        nums = re.findall(r"(\d+)_u8", v)
        if nums:
            return set(chr(int(n)) for n in nums)
        raise Undecided("cannot read the value of %s (%s)" % (c["name"], v[:60]))

    H, B = letters(head), letters(body)
    L = set("ABCDEFGHIJKLMNOPQRSTUVWXYZabcdefghijklmnopqrstuvwxyz")
    ok = H and H <= L
    rep.obligation(bool(ok))
    if ok:
        rep.instance("C32.CHARSET", "CHARSET_NAME_HEAD (%d chars) is a subset of [A-Za-z]" % len(H))
    else:
        rep.finding("C32.CHARSET", head["name"], "head", "names can start with %s" % sorted(H - L), None)
    ok = B and B <= (L | set("0123456789_"))
    rep.obligation(bool(ok))
    if ok:
        rep.instance("C32.CHARSET", "CHARSET_NAME_BODY (%d chars) is a subset of [_0-9A-Za-z]" % len(B))
    else:
        rep.finding("C32.CHARSET", body["name"], "body", "names can contain %s" % sorted(B - L - set("0123456789_")), None)


def rule_prune(prog, rep):
    rep.floor("C32.PRUNE", 1)
    f = prog.fn(r"^apollo_smith::DocumentBuilder::<'a>::prune_unused_fragments$")
    rf = [c for c in f.live_calls() if c.name.endswith("fragment::reachable_fragment_names")]
    rt = [c for c in f.live_calls() if c.name.endswith("Vec::<T, A>::retain")]
    ok = len(rf) == 1 and len(rt) == 1 and [f.sym(a) for a in rf[0].args] == ["&*<Vec<T, A> as Deref>::deref(&arg1.operation_defs)", "&*<Vec<T, A> as Deref>::deref(&arg1.fragment_defs)"] or (len(rf) == 1 and len(rt) == 1 and "operation_defs" in f.sym(rf[0].args[0]) and "fragment_defs" in f.sym(rf[0].args[1]))
    ok = ok and "fragment_defs" in f.sym(rt[0].args[0])
    if ok:
        cl = [g for g in prog.fns.values() if g.parent == f.uid and g.kind == "closure"]
        ok = len(cl) == 1 and any(c.name.endswith("contains") and ".name" in cl[0].sym(c.args[1]) for c in cl[0].live_calls())
    rep.obligation(ok)
    if ok:
        rep.instance("C32.PRUNE", "prune_unused_fragments: fragment_defs.retain(|f| reachable_fragment_names(operations, fragments).contains(&f.name))")
    else:
        rep.finding("C32.PRUNE", f.name, "retain", "unused fragments are not pruned by reachability from operations", f.loc())


def rule_closure(prog, rep):
    """C32.CLOSURE: prune_unused_fragments keeps the fragments *reachable* from the operations; a
    fragment spread by a kept fragment must be kept too, whatever the order of definitions.  So
    reachable_fragment_names has to be a fixpoint: the loop that follows a fragment's nested spreads
    is driven by a worklist that grows inside that same loop (pop .. push on the same collection),
    or repeats while something changed.  A single pass over the fixed list of definitions follows a
    chain only as far as the definition order happens to allow."""
    rep.floor("C32.CLOSURE", 1)
    f = prog.fn(r"^apollo_smith::fragment::reachable_fragment_names$")
    succs = f.succs()

    def reach(b):
        return f.reachable_blocks([x for x in succs[b]])

    nested = [c for c in f.live_calls() if c.name.endswith("collect_fragment_spreads") and "arg1" not in f.sym(c.args[0])]
    if not nested:
        raise Undecided("reachable_fragment_names: no call that collects the spreads nested in a fragment definition")
    for c in nested:
        cyc = set(b for b in reach(c.block) if c.block in reach(b)) | {c.block}
        if c.block not in reach(c.block):
            rep.finding("C32.CLOSURE", f.name, "no-loop", "the spreads nested in a reachable fragment are collected outside any loop: only one level of nesting is followed", c.loc())
            continue
        calls = [x for x in f.live_calls() if x.block in cyc]
        pops = [x for x in calls if re.search(r"(Vec|VecDeque)::<T(, A)?>::(pop|pop_front|pop_back)$|IndexSet::<T, S>::pop$", x.name)]
        pushes = [x for x in calls if re.search(r"(Vec|VecDeque)::<T(, A)?>::(push|push_back|push_front|extend|append)$|Extend<.*>>::extend$", x.name)]
        worklist = any(f.sym(p.args[0]).lstrip("&") == f.sym(q.args[0]).lstrip("&") for p in pops for q in pushes)
        # `loop { changed = false; for .. { if insert(..) { changed = true } } if !changed { break } }`
        flags = set()
        for b in cyc:
            for st in f.stmts(b):
                if st[0] == "=" and not st[1][1] and f.local_ty(st[1][0]) == "bool" and st[2][0] == "use" and f.local_name(st[1][0]):
                    flags.add(st[1][0])
        repeat = False
        for b in cyc:
            t = f.term(b)
            if t[0] == "switch":
                roots = derives(f, t[1])[0]
                if any(("var:%s" % f.local_name(l)) in roots for l in flags):
                    repeat = True
        ok = worklist or repeat
        rep.obligation(ok)
        if ok:
            rep.instance("C32.CLOSURE", "reachable_fragment_names: nested spreads are followed to a fixpoint (%s)" % ("worklist: popped and pushed inside the same loop" if worklist else "repeat while changed"))
        else:
            drivers = sorted(set(x.name.split("::")[-1] + "(" + f.sym(x.args[0])[:40] + ")" for x in calls if re.search(r"Iterator>?::next$|::pop", x.name)))
            rep.finding("C32.CLOSURE", f.name, "single-pass",
                        "the loop that follows nested fragment spreads is driven by %s, which does not grow inside the loop, and nothing repeats it: reachability depends on the order of the fragment definitions, so a fragment spread by a kept fragment can be pruned and the document no longer validates" % (drivers or "a fixed sequence"), c.loc())


def rule_impldup(prog, rep):
    """C32.IMPLDUP: a type's `implements` entries are spread over its definition and its extensions,
    and validation rejects an interface listed twice.  `additional_implements(existing, self_name)`
    excludes what the type already implements only when it is told which type it is extending: every
    call that passes the existing field signatures of a type X (computed with
    field_signatures_for(.., &X), i.e. X may already have definitions) must also pass Some(&X).
    Sibling rule: interface_type_definition and object_type_definition are the two generators that
    can emit extensions."""
    rep.floor("C32.IMPLDUP", 2)
    n = 0
    for f in sorted(prog.fns.values(), key=lambda g: g.name):
        if f.crate != "apollo_smith":
            continue
        for c in f.live_calls():
            if not c.name.endswith("DocumentBuilder::<'_>::additional_implements") and not c.name.endswith("::additional_implements"):
                continue
            if len(c.args) != 3:
                continue
            sig, who = f.sym(c.args[1]), f.sym(c.args[2])
            m = re.search(r"field_signatures_for\(.*, &?(var:\w+|arg\d+[\w.]*)\)$", sig)
            if not m:
                rep.instance("C32.IMPLDUP", "%s: implements list for a fresh name (no existing signatures)" % f.name.split("::")[-1])
                continue
            n += 1
            x = m.group(1)
            ok = re.fullmatch(r"Option::Some\{&?%s\}" % re.escape(x), who) is not None
            rep.obligation(ok)
            if ok:
                rep.instance("C32.IMPLDUP", "%s: additional_implements is told it extends `%s`, so interfaces that type already implements are excluded" % (f.name.split("::")[-1], x))
            else:
                rep.finding("C32.IMPLDUP", f.name, "self-name",
                            "%s picks additional interfaces for `%s`, which may already have a definition, but passes `%s` as the type being extended: an interface the type already implements can be picked again, and validation rejects `implements I` listed twice" % (f.name.split("::")[-1], x, who), c.loc())
    if n < 2:
        raise AnchorError("expected the additional_implements calls of interface_type_definition and object_type_definition")


def rule_extreq(prog, rep):
    """agreement between the reader and the writer of input object fields: values of an input
    object type are generated from the fields of the FIRST definition with that name (the
    definition itself; its extensions come later in the list), so an `extend input` must not
    add a field that is required (non-null without a default value) - otherwise every generated
    value of that type is rejected with `the required field T.f is not provided`"""
    rep.floor("C32.EXTREQ", 2)
    from ..core import op_local
    from ..flow import _bool_facts
    g = prog.fn(r"^apollo_smith::input_value::<impl apollo_smith::DocumentBuilder<'_>>::input_value_for_type$")
    first_only = all_defs = False
    # the lookup sits in a closure of input_value_for_type, or in a private method it was moved to
    scope = {g.uid}
    for _ in range(2):
        for u in list(scope):
            for c in prog.fns[u].live_calls():
                h = prog.fns.get(c.uid)
                if h is not None and h.crate == g.crate and not h.d.get("pub") and re.search(r"::input_value::", h.name):
                    scope.add(h.uid)
    names = tuple(prog.fns[u].name for u in scope)
    for h in prog.fns.values():
        if h.uid in scope or (h.kind == "closure" and h.name.startswith(tuple(n + "::" for n in names))):
            for c in h.live_calls():
                if "input_object_type_defs" not in " ".join(h.sym(a) for a in c.args[:1]):
                    continue
                if re.search(r"Iterator>?::(find|find_map|next|nth)$|::(first|get)$", c.name):
                    first_only = True
                if re.search(r"Iterator>?::(filter|flat_map|filter_map|for_each|fold)$", c.name):
                    all_defs = True
    if not first_only and not all_defs:
        raise Undecided("input_value_for_type: how the input object definition is looked up was not recognised")
    if all_defs and not first_only:
        rep.instance("C32.EXTREQ", "input_value_for_type builds an object value from the fields of the definition and of every extension")
        rep.instance("C32.EXTREQ", "(no restriction on extension fields is needed)")
        return
    rep.instance("C32.EXTREQ", "input_value_for_type builds an object value from the first definition of that name only (find)")
    f = prog.inline(prog.fn(r"^apollo_smith::input_object::<impl apollo_smith::DocumentBuilder<'_>>::input_object_type_definition$"),
                    keep=r"::(input_values_def|directives|type_name|description)$")
    l_ext, agg_fields = None, ""
    for b in sorted(f.live_blocks()):
        for st in f.stmts(b):
            if st[0] == "=" and st[2][0] == "agg" and isinstance(st[2][1], list) and st[2][1][0] == "adt" and st[2][1][1].endswith("::InputObjectTypeDef"):
                l_ext = op_local(st[2][2][st[2][1][3].index("extend")])
                agg_fields = f.sym(st[2][2][st[2][1][3].index("fields")])
    if l_ext is None:
        raise Undecided("input_object_type_definition: the InputObjectTypeDef it returns was not found")
    ext_facts = {x[:4] for x in _bool_facts(f, l_ext, True, 0)}
    ok = False
    why = "no statement makes the required fields of an extension nullable"
    for b in sorted(f.live_blocks()):
        for st in f.stmts(b):
            if not (st[0] == "=" and st[1][1] and isinstance(st[1][1][-1], list) and st[1][1][-1][0] == "f" and st[1][1][-1][2] == "ty"):
                continue
            fs = facts_at(f, b)
            elem = None
            for x in fs:
                if x[0] == "variant" and x[2] == "NonNull" and x[3] is True and x[1].endswith(".ty") and "IterMut" in x[1]:
                    elem = x[1][:-3]
            if elem is None:
                why = "the field type is rewritten without testing that it is NonNull"
                continue
            nodef = any(x[0] == "callbool" and x[1].endswith("Option::<T>::is_none") and x[3] is True and x[2] and x[2][0] == elem + ".default_value" for x in fs) or \
                any(x[0] == "callbool" and x[1].endswith("Option::<T>::is_some") and x[3] is False and x[2] and x[2][0] == elem + ".default_value" for x in fs) or \
                any(x[0] == "variant" and x[1] == elem + ".default_value" and x[2] == "None" and x[3] is True for x in fs)
            anydef = not any(x[1].endswith(".default_value") or (x[0] == "callbool" and x[2] and str(x[2][0]).endswith(".default_value")) for x in fs)
            rest = []
            for x in fs:
                k = x[:4]
                if k in ext_facts:
                    continue
                if x[0] == "variant" and ("Try>::branch" in x[1] or x[1].startswith("call:<std::slice::IterMut") and not x[1].endswith(".default_value")):
                    continue
                if x[0] == "callbool" and x[2] and str(x[2][0]).endswith(".default_value"):
                    continue
                if x[0] == "variant" and re.search(r"Iterator>::next@\d+$", x[1]):
                    continue  # an earlier loop has finished / this loop has an element
                if x[0] == "variant" and x[1].endswith(".default_value"):
                    continue
                rest.append(k)
            val = f.sym(st[2][1]) if st[2][0] == "use" else ""
            from_payload = ".ty.as:NonNull.0" in val or "as:NonNull.0" in val
            m = re.search(r"@(\d+)", elem)
            nxt = [c for c in f.live_calls() if m and c.block == int(m.group(1))]
            loopvar = bool(nxt) and "input_values_def(" in f.sym(nxt[0].args[0]) and "input_values_def(" in agg_fields
            if not (nodef or anydef):
                why = "the NonNull marker is removed only from fields that HAVE a default value"
            elif rest:
                why = "the required fields of an extension are made nullable only under a further condition %s" % (rest[:2],)
            elif not from_payload:
                why = "the type written back is `%s`, not the inner type of the NonNull" % val[:80]
            elif not loopvar:
                why = "the rewritten fields are not the ones given to the InputObjectTypeDef"
            else:
                ok = True
    rep.obligation(ok)
    if ok:
        rep.instance("C32.EXTREQ", "input_object_type_definition: under `extend`, every field that is NonNull and has no default value is given its inner (nullable) type")
    else:
        rep.finding("C32.EXTREQ", f.name, "extension-required-field",
                    "values of an input object type are generated from the fields of its definition only, but an `extend input` can add a required field (%s): every value of that type generated afterwards (and every default value generated before) is rejected with `the required field T.f is not provided`" % why, f.loc())


def rule_roots(prog, rep):
    """C32.ROOTS: the root operation types of the generated `schema { }` are distinct.  The
    candidate list has one entry per object type definition AND per extension (duplicates), so
    after a root is chosen every entry equal to it must be removed (`retain(|t| t != chosen)`)
    before the next root is chosen; removing the chosen *index* leaves the duplicates in."""
    from ..flow import must_pass
    rep.floor("C32.ROOTS", 2)
    f = prog.fn(r"^apollo_smith::schema::<impl apollo_smith::DocumentBuilder<'_>>::schema_definition$")
    def base(x):
        """the candidate list an operand is a view of: strips borrows, Deref to slice and len()"""
        x = x.strip()
        while True:
            y = x
            x = x.lstrip("&*").strip()
            m = re.fullmatch(r"\((.*)\)", x) or re.fullmatch(r"<Vec<T, A> as Deref>::deref\((.*)\)", x) or \
                re.fullmatch(r"(?:Vec|slice)::(?:len|as_slice|iter)\((.*)\)", x) or re.fullmatch(r"Vec::<T, A>::(?:len|as_slice)\((.*)\)", x)
            if m:
                x = m.group(1)
            if x == y:
                return x

    cands = {}
    for c in f.live_calls():
        if re.search(r"Unstructured(::<'a>)?::(choose|choose_index|choose_iter|int_in_range)$", c.name) and len(c.args) > 1:
            cands.setdefault(base(f.sym(c.args[1])), []).append(c)
    lists = {k: v for k, v in cands.items() if len(v) >= 2 and not re.fullmatch(r"(const:.*|arg\d+.*)", k)}
    if len(lists) != 1:
        raise Undecided("schema_definition: the candidate list of the root operation types was not recognised (%s)" % sorted(cands)[:4])
    src, picks = next(iter(lists.items()))

    def on_list(x):
        return base(x) == src

    dom = sorted(picks, key=lambda c: sum(1 for d in picks if f.dominates(d.block, c.block)))
    dedup = re.search(r"dedup|IndexSet|BTreeSet|HashSet|unique", src) is not None
    good = []
    for c in f.live_calls():
        if c.name.endswith("Vec::<T, A>::retain") and on_list(f.sym(c.args[0])):
            m = re.search(r"closure:.*?(\{closure#\d+\})", f.sym(c.args[1]))
            cl = [h for h in prog.fns.values() if h.parent == f.uid and h.kind == "closure" and m and h.name.endswith(m.group(1))]
            ne = False
            for h in cl:
                for k in h.live_calls():
                    if re.search(r"PartialEq(<[^>]*>)?::ne$", k.name):
                        sy = [h.sym(x) for x in k.args]
                        if any("arg2" in y for y in sy) and any("arg1" in y for y in sy):
                            ne = True
            if ne:
                good.append(c.block)
    for a, b in zip(dom, dom[1:]):
        starts = [a.target] if a.target is not None else []
        ok = bool(good) and must_pass(f, starts, [b.block], set(good))[0]
        byidx = [c for c in f.live_calls() if re.search(r"Vec::<T, A>::(remove|swap_remove)$", c.name) and on_list(f.sym(c.args[0]))]
        if not ok and dedup and byidx:
            ok = must_pass(f, starts, [b.block], {c.block for c in byidx})[0]
        rep.obligation(ok)
        if ok:
            rep.instance("C32.ROOTS", "schema_definition: between the root pick at line %d and the one at line %d every entry equal to the chosen type is removed from the candidates" % (a.line, b.line))
        else:
            rep.finding("C32.ROOTS", f.name, "duplicate-root",
                        "between two root operation type picks the chosen type is %s: the candidate list holds one entry per definition and per extension of an object type, so the same type can be chosen for two roots (`the same type must not be used for multiple root operation types`)" % ("removed by index only" if byidx else "not removed from the candidates"), b.loc())


def run(prog, rep):
    rule_det(prog, rep)
    rule_backfill(prog, rep)
    rule_unique(prog, rep)
    rule_charset(prog, rep)
    rule_prune(prog, rep)
    rule_closure(prog, rep)
    rule_impldup(prog, rep)
    rule_extreq(prog, rep)
    rule_roots(prog, rep)
    rep.assume("arbitrary::Unstructured is a deterministic function of its bytes; petgraph::algo::toposort returns a topological order of the graph it is given")
    rep.note("that every generated document parses and validates is not decided as a whole; the clauses above are necessary conditions of it")
