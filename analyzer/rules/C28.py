"""C28 — Variable coercion follows the specification (DESIGN.md C28)."""
import re

from ..core import AnchorError, Undecided
from ..hirq import callee_path, walk
from ..tables import first_match, local_of, pat_matches_variant, strip_expr

CRATES = ["apollo_compiler"]
LEVEL = "other"
EXPLANATION = """
C28.SCALARS: the string match over built-in scalar names in coerce_variable_value has exactly the
five built-in names plus a default arm; per arm the set of JSON predicates consulted on the value
is Int {as_i64 bounded by i32::try_from}, Float {is_f64 or as_f64 bounded by MAX_SAFE_INT}, String
{is_string}, Boolean {is_boolean}, ID {is_string or is_i64}; every `return Ok(value.clone())` of a
built-in arm sits inside the `if` that consults them; no arm parses a string into a number.
C28.SHAPE: null -> error for non-null types / Null otherwise, before anything else; list types wrap
a non-array in a one-element slice and recurse on the item type; input objects reject a key that
is not a declared field before coercing, then for each declared field: provided -> recurse,
default -> insert, non-null -> error; coerce_variable_values inserts exactly the provided or
defaulted variables and errors on a missing non-null one.  C28.DEFAULTS: graphql_value_to_json,
which turns a default value into JSON (defaults are not coerced again), is faithful per literal
kind; Int / Float literals go through the parser of their own text, never a narrowing conversion.
Does not decide numeric edge values.
"""

WANT = {
    "Int": {"as_i64"},
    "Float": {"is_f64", "as_f64"},
    "String": {"is_string"},
    "Boolean": {"is_boolean"},
    "ID": {"is_string", "is_i64"},
}
JSON_PRED = re.compile(r"^(is_|as_)\w+$")


ROLE = {}


def _roles(prog, fn):
    """names of the parameters by their role (type), so that renaming a parameter or a local does
    not change what the rules read: value = the JSON value, ty = the ast::Type being coerced to"""
    out = {}
    for p in prog.hir_body(fn)["params"]:
        if p.get("k") != "bind":
            continue
        t = p.get("ty") or ""
        if re.search(r"serde_json_bytes::Value$", t):
            out["value"] = p["name"]
        elif re.search(r"ast::Type$", t):
            out["ty"] = p["name"]
    if "value" not in out or "ty" not in out:
        raise Undecided("%s: parameters of type &serde_json_bytes::Value / &ast::Type not found" % fn.name)
    return out


def _pat_bindings(p):
    return [q["name"] for q in walk(p) if q.get("k") == "bind"]


def _is_err(n):
    c = n.get("callee")
    return bool(c) and c[0] == "def" and (c[2].endswith("::Err") or "Result::Err" in str(c[3]))


def _value_preds(node):
    out = set()
    for n in walk(node):
        if n.get("k") == "mcall" and JSON_PRED.match(n["m"]) and local_of(n["recv"]) == ROLE.get("value", "value"):
            out.add(n["m"])
    return out


def rule_scalars(prog, rep):
    rep.floor("C28.SCALARS", 6)
    fn = prog.fn(r"^apollo_compiler::resolvers::input_coercion::coerce_variable_value$")
    ROLE.update(_roles(prog, fn))
    body = prog.hir_body(fn)["body"]
    ms = []
    for n in walk(body):
        if n.get("k") == "match" and n.get("src") == "normal":
            lits = [q["v"] for arm in n["arms"] for q in walk(arm["pat"]) if q.get("k") == "lit" and q.get("t") == "str"]
            if "Int" in lits:
                ms.append(n)
    if len(ms) != 1:
        raise Undecided("coerce_variable_value: expected one string match over scalar names (found %d)" % len(ms))
    m = ms[0]
    seen = {}
    default = None
    for arm in m["arms"]:
        lits = [q["v"] for q in walk(arm["pat"]) if q.get("k") == "lit" and q.get("t") == "str"]
        if not lits:
            default = arm
            continue
        for l in lits:
            seen[l] = arm
    extra = set(seen) - set(WANT)
    missing = set(WANT) - set(seen)
    if extra or missing:
        rep.finding("C28.SCALARS", fn.name, "names", "built-in scalar arms: extra %s, missing %s" % (sorted(extra), sorted(missing)), fn.loc())
    for name, want in WANT.items():
        arm = seen.get(name)
        if arm is None:
            continue
        got = _value_preds(arm["body"])
        # every `return Ok(..)` in the arm must be inside an `if` whose condition consults the predicates
        rets = [n for n in walk(arm["body"]) if n.get("k") == "ret"]
        guarded = True
        ifs = [n for n in walk(arm["body"]) if n.get("k") == "if"]
        for r in rets:
            inside = [i for i in ifs if any(x is r for x in walk(i["then"]))]
            if not inside or not (_value_preds(inside[0]["cond"]) == want):
                guarded = False
        ok = got == want and guarded and rets
        extra_checks = []
        if name == "Int":
            tf = [n for n in walk(arm["body"]) if n.get("k") == "call" and (callee_path(n) or "").endswith("TryFrom::try_from") or (n.get("k") == "call" and "try_from" in str(n.get("callee")))]
            i32 = any("i32" in str(n.get("callee")) or "i32" in str(n) for n in tf)
            if not tf:
                ok = False
                extra_checks.append("no i32::try_from bound")
        if name == "Float":
            bound = [n for n in walk(arm["body"]) if n.get("k") == "path" and n.get("res") and n["res"][0] == "def" and n["res"][2].endswith("MAX_SAFE_INT")]
            if not bound:
                ok = False
                extra_checks.append("no MAX_SAFE_INT bound on integers taken as floats")
        strnum = [n for n in walk(arm["body"]) if n.get("k") == "mcall" and n["m"] in ("parse", "as_str") and name != "String"]
        if strnum:
            ok = False
            extra_checks.append("reads the value as a string (%s)" % strnum[0]["m"])
        if ok:
            rep.instance("C28.SCALARS", "%s: accepts exactly under {%s}%s" % (name, ", ".join(sorted(got)), " with the i32 bound" if name == "Int" else (" with the safe-integer bound" if name == "Float" else "")))
        else:
            rep.finding("C28.SCALARS", fn.name, "scalar:" + name,
                        "coercion of %s consults {%s} (guarding every accept: %s%s); the documented rule consults exactly {%s}" % (name, ", ".join(sorted(got)), guarded, "; " + "; ".join(extra_checks) if extra_checks else "", ", ".join(sorted(want))), fn.loc(arm.get("l")))
    if default is not None and any(n.get("k") == "ret" for n in walk(default["body"])) and not _value_preds(default["body"]):
        rep.instance("C28.SCALARS", "custom scalars: accepted as is (documented choice)")
    else:
        rep.finding("C28.SCALARS", fn.name, "custom", "the default (custom scalar) arm no longer accepts the value as is", fn.loc())
    mx = prog.const(r"^apollo_compiler::resolvers::input_coercion::MAX_SAFE_INT$")
    if mx.get("int") == str((1 << 53) - 1):
        rep.instance("C28.SCALARS", "MAX_SAFE_INT = 2^53 - 1 (const-evaluated)")
    else:
        rep.finding("C28.SCALARS", mx["name"], "max-safe-int", "MAX_SAFE_INT is %s" % mx.get("int"), None)


def rule_shape(prog, rep):
    rep.floor("C28.SHAPE", 5)
    fn = prog.fn(r"^apollo_compiler::resolvers::input_coercion::coerce_variable_value$")
    ROLE.update(_roles(prog, fn))
    body = prog.hir_body(fn)["body"]
    stmts = body.get("stmts", []) if body.get("k") == "block" else []
    # (1) the first statement is the null test
    first = stmts[0] if stmts else {}
    if first.get("k") == "semi":
        first = first["e"]
    ok = False
    if first.get("k") == "if":
        c = strip_expr(first["cond"])
        if c.get("k") == "mcall" and c["m"] == "is_null" and local_of(c["recv"]) == ROLE["value"]:
            inner = [n for n in walk(first["then"]) if n.get("k") == "if"]
            if inner:
                ic = strip_expr(inner[0]["cond"])
                then_err = any(n.get("k") == "call" and _is_err(n) for n in walk(inner[0]["then"]))
                else_null = any(n.get("k") == "path" and n.get("res") and n["res"][0] == "def" and n["res"][2].endswith("Value::Null") for n in walk(inner[0].get("else") or {}))
                if ic.get("k") == "mcall" and ic["m"] == "is_non_null" and local_of(ic["recv"]) == ROLE["ty"] and then_err and else_null:
                    ok = True
    if ok:
        rep.instance("C28.SHAPE", "null first: error for non-null types, JSON null otherwise")
    else:
        rep.finding("C28.SHAPE", fn.name, "null", "coerce_variable_value does not start with `null -> error if non-null type else Null`", fn.loc())
    # (2) list arm
    tm = [n for n in walk(body) if n.get("k") == "match" and n.get("src") == "normal" and local_of(n["scrut"]) == ROLE["ty"]]
    ok = False
    if tm:
        i = first_match(tm[0]["arms"], lambda p: pat_matches_variant(p, "List"))
        j = first_match(tm[0]["arms"], lambda p: pat_matches_variant(p, "NonNullList"))
        if i is not None and i == j:
            ab = tm[0]["arms"][i]["body"]
            ms = [n["m"] for n in walk(ab) if n.get("k") == "mcall"]
            fr = [n for n in walk(ab) if n.get("k") == "call" and (callee_path(n) or "").endswith("slice::from_ref") and local_of(n["args"][0]) == ROLE["value"]]
            rec = [n for n in walk(ab) if n.get("k") == "call" and (callee_path(n) or "").endswith("coerce_variable_value") and local_of(n["args"][2]) in _pat_bindings(tm[0]["arms"][i]["pat"]) and local_of(n["args"][3]) not in (None, ROLE["value"], ROLE["ty"])]
            if "as_array" in ms and "unwrap_or" in ms and fr and rec and "collect" in ms:
                ok = True
    if ok:
        rep.instance("C28.SHAPE", "list types: value.as_array() or a one-element slice of the value, each item coerced to the item type")
    else:
        rep.finding("C28.SHAPE", fn.name, "list", "list coercion no longer wraps a non-array in a one-element list and recurses on the item type", fn.loc())
    # (3) input objects
    # the match over the kind of the named type: the one whose arms are ExtendedType variants
    em = [n for n in walk(body) if n.get("k") == "match" and n.get("src") == "normal" and local_of(n["scrut"])
          and sum(1 for arm in n["arms"] if any("schema::ExtendedType::" in str(q.get("res")) for q in walk(arm["pat"]))) >= 2]
    ok_unknown = ok_fields = False
    if em:
        i = first_match(em[0]["arms"], lambda p: pat_matches_variant(p, "InputObject"))
        ab = em[0]["arms"][i]["body"]
        # unknown key -> Err, located before the per-field loop
        nodes = list(walk(ab))
        find = [k for k, n in enumerate(nodes) if n.get("k") == "mcall" and n["m"] == "find" and any(x.get("k") == "mcall" and x["m"] == "contains_key" for x in walk(n["args"][0]))]
        loop = [k for k, n in enumerate(nodes) if n.get("k") == "match" and n.get("src") == "for"]
        if find and loop and find[0] < loop[0]:
            # the `if let Some(key) = ..find(..)` returns Err
            for n in nodes:
                if n.get("k") == "if" and n["cond"].get("k") == "let" and any(x.get("k") == "mcall" and x["m"] == "find" for x in walk(n["cond"]["init"])):
                    if any(x.get("k") == "ret" and any(y.get("k") == "call" and _is_err(y) for y in walk(x)) for x in walk(n["then"])):
                        ok_unknown = True
        # per field chain: get_mut -> recurse ; default_value -> insert ; is_non_null -> Err
        for n in nodes:
            if n.get("k") == "if" and n["cond"].get("k") == "let" and any(x.get("k") == "mcall" and x["m"] == "get_mut" for x in walk(n["cond"]["init"])):
                rec = any(x.get("k") == "call" and (callee_path(x) or "").endswith("coerce_variable_value") for x in walk(n["then"]))
                e1 = n.get("else") or {}
                e1s = strip_expr(e1)
                dflt = e1s.get("k") == "if" and e1s["cond"].get("k") == "let" and any(x.get("k") == "field" and x.get("name") == "default_value" for x in walk(e1s["cond"]["init"])) and any(x.get("k") == "mcall" and x["m"] == "insert" for x in walk(e1s["then"]))
                e2s = strip_expr(e1s.get("else") or {}) if dflt else {}
                nn = e2s.get("k") == "if" and any(x.get("k") == "mcall" and x["m"] == "is_non_null" for x in walk(e2s["cond"])) and any(x.get("k") == "ret" for x in walk(e2s["then"]))
                if rec and dflt and nn:
                    ok_fields = True
    if ok_unknown:
        rep.instance("C28.SHAPE", "input objects: a key that is not a declared field is rejected before any field is coerced")
    else:
        rep.finding("C28.SHAPE", fn.name, "unknown-field", "unknown input-object keys are no longer rejected before coercion", fn.loc())
    if ok_fields:
        rep.instance("C28.SHAPE", "input objects: per declared field provided -> recurse, default -> insert, non-null -> error")
    else:
        rep.finding("C28.SHAPE", fn.name, "fields", "the per-field chain (provided / default / missing non-null) of input-object coercion is not in the expected shape", fn.loc())
    # (4) coerce_variable_values
    cv = prog.fn(r"^apollo_compiler::resolvers::input_coercion::coerce_variable_values$")
    b2 = prog.hir_body(cv)["body"]
    maps = set(n["pat"]["name"] for n in walk(b2) if n.get("k") == "slet" and n["pat"].get("k") == "bind" and re.search(r"serde_json_bytes::Map<|JsonMap", n["pat"].get("ty") or ""))
    ok = False
    for n in walk(b2):
        if n.get("k") == "if" and n["cond"].get("k") == "let" and any(x.get("k") == "mcall" and x["m"] == "get_key_value" for x in walk(n["cond"]["init"])):
            t_ins = any(x.get("k") == "mcall" and x["m"] == "insert" and local_of(x["recv"]) in maps for x in walk(n["then"]))
            t_rec = any(x.get("k") == "call" and (callee_path(x) or "").endswith("coerce_variable_value") for x in walk(n["then"]))
            e1s = strip_expr(n.get("else") or {})
            dflt = e1s.get("k") == "if" and e1s["cond"].get("k") == "let" and any(x.get("k") == "field" and x.get("name") == "default_value" for x in walk(e1s["cond"]["init"])) and any(x.get("k") == "mcall" and x["m"] == "insert" and local_of(x["recv"]) in maps for x in walk(e1s["then"]))
            e2s = strip_expr(e1s.get("else") or {}) if dflt else {}
            nn = e2s.get("k") == "if" and any(x.get("k") == "mcall" and x["m"] == "is_non_null" for x in walk(e2s["cond"])) and any(x.get("k") == "ret" for x in walk(e2s["then"]))
            e3 = strip_expr(e2s.get("else") or {}) if nn else None
            no_insert_else = e3 is not None and not any(x.get("k") == "mcall" and x["m"] == "insert" for x in walk(e3))
            if t_ins and t_rec and dflt and nn and no_insert_else:
                ok = True
    inserts = [x for x in walk(b2) if x.get("k") == "mcall" and x["m"] == "insert" and local_of(x["recv"]) in maps]
    if ok and len(inserts) == 2:
        rep.instance("C28.SHAPE", "coerce_variable_values: inserts exactly provided (coerced) or defaulted variables; missing non-null -> error; missing nullable -> absent")
    else:
        rep.finding("C28.SHAPE", cv.name, "variables", "coerce_variable_values no longer inserts exactly the provided or defaulted variables (inserts: %d)" % len(inserts), cv.loc())


def rule_result(prog, rep):
    """C28.RESULT: what coerce_variable_value returns.  The caller's JSON value may be returned as it
    is (`Ok(value.clone())`) only for leaf types - a built-in or custom scalar, an enum - where
    coercion is a check.  For a list type the result is built from the coerced items, and for an
    input object from the coerced / defaulted fields: returning the input there skips the wrapping
    of single values into lists and the filling-in of input-object defaults."""
    rep.floor("C28.RESULT", 3)
    from ..flow import _strip, facts_at
    fn = prog.fn(r"^apollo_compiler::resolvers::input_coercion::coerce_variable_value$")
    roles = _roles(prog, fn)
    vparam = None
    for i, p in enumerate(prog.hir_body(fn)["params"]):
        if p.get("k") == "bind" and p["name"] == roles["value"]:
            vparam = "arg%d" % (i + 1)
    n = 0
    for b in sorted(fn.live_blocks()):
        for st in fn.stmts(b):
            if not (st[0] == "=" and st[1][0] == 0 and not st[1][1] and st[2][0] == "agg" and isinstance(st[2][1], list) and st[2][1][2] == "Ok"):
                continue
            val = fn.sym(st[2][2][0])
            fs = _strip(facts_at(fn, b))
            kinds = [x[2] for x in fs if x[0] == "variant" and re.search(r"::get@\d+\.as:Some\.0$", x[1]) and x[2] in ("Scalar", "Object", "Interface", "Union", "Enum", "InputObject")]
            tyv = [x for x in fs if x[0] in ("variant", "variant_in") and x[1].lstrip("&*") in ("arg3", vparam and "arg3")]
            is_input_clone = re.fullmatch(r"<Value as Clone>::clone\(&?\*?%s\)" % vparam, val) is not None if vparam else False
            n += 1
            if not is_input_clone:
                continue
            list_ty = any(x[0] == "variant" and x[2] in ("List", "NonNullList") or x[0] == "variant_in" and set(x[2]) <= {"List", "NonNullList"} for x in fs if "arg3" in x[1])
            ok = bool(kinds) and all(k in ("Scalar", "Enum") for k in kinds) and not list_ty
            rep.obligation(ok)
            if ok:
                rep.instance("C28.RESULT", "the input value is returned unchanged only for a %s type" % "/".join(sorted(set(kinds))))
            else:
                rep.finding("C28.RESULT", fn.name, "uncoerced:" + ("/".join(sorted(set(kinds))) or ("list" if list_ty else "unknown")),
                            "coerce_variable_value returns the caller's JSON value unchanged on a path where the type is %s: list wrapping of single values and input-object defaults are skipped, so the coerced variables do not conform to their declared types" % ("/".join(sorted(set(kinds))) or ("a list type" if list_ty else "not known to be a leaf type")), fn.loc(st[3][0] if len(st) > 3 else None))
    if n < 5:
        raise Undecided("coerce_variable_value: fewer Ok(..) results than expected (%d)" % n)


def rule_defaults(prog, rep):
    """C28.DEFAULTS: a default value (variable default, input-field default) is turned into JSON by
    graphql_value_to_json before anything else looks at it (input-field and argument defaults are
    used as converted; a variable default is then coerced, see C28.DEFCOERCE).  So the conversion
    must be faithful for every literal the validator
    accepts at that position: an integer literal is a valid Float / ID / custom-scalar default, so
    Int and Float literals go through the full-precision number parser of their own text
    (`as_str().parse()`), never through a narrowing conversion such as try_to_i32 / try_to_f64;
    strings, enums and booleans are copied; null is Null; lists and objects recurse; a variable is
    a validation bug."""
    rep.floor("C28.DEFAULTS", 7)
    from ..flow import _strip
    from ..tables import enum_paths, return_value_on_path
    g = prog.fn(r"^apollo_compiler::resolvers::input_coercion::graphql_value_to_json$")
    rows = {}
    for atoms, _rb, path in enum_paths(g):
        vs = [f for f in _strip(atoms) if f[0] in ("variant", "variant_in") and re.search(r"AsRef<T>>::as_ref@\d+$|^arg2", f[1])]
        if not vs:
            continue
        names = (vs[0][2],) if vs[0][0] == "variant" else tuple(vs[0][2])
        val = return_value_on_path(g, path) or ""
        for n in names:
            rows.setdefault(n, set()).add(val)
    WANT = {
        "Null": r"^Result::Ok\{Value::Null\{\}\}$",
        "Boolean": r"^Result::Ok\{.*\.as:Boolean\.0",
        "String": r"^Result::Ok\{.*\.as:String\.0",
        "Enum": r"^Result::Ok\{.*\.as:Enum\.0",
        "Int": r"^Result::Ok\{Value::Number\{.*str::parse\(&?\*?impls::as_str\(.*\.as:Int\.0\)\).*\}\}$",
        "Float": r"^Result::Ok\{Value::Number\{.*str::parse\(&?\*?impls::as_str\(.*\.as:Float\.0\)\).*\}\}$",
        "List": r"^Iterator::collect\(Iterator::map\(.*\.as:List\.0\)\), closure:.*graphql_value_to_json::\{closure#\d+\}\)\)$",
        "Object": r"^Iterator::collect\(Iterator::map\(.*\.as:Object\.0\)\), closure:.*graphql_value_to_json::\{closure#\d+\}\)\)$",
        "Variable": r"^Result::Err\{InputCoercionError::SuspectedValidationBug",
    }
    for v, pat in WANT.items():
        got = rows.get(v, set())
        oks = [x for x in got if re.search(pat, x)]
        others = [x for x in got if not re.search(pat, x) and "from_residual(" not in x]
        ok = bool(oks) and not others
        if v in ("Int", "Float") and any(re.search(r"try_to_|as_i32|as_f64|to_i32|to_f64", x) for x in got):
            ok = False
        rep.obligation(ok)
        if ok:
            rep.instance("C28.DEFAULTS", "graphql_value_to_json: %s -> %s" % (v, {"Int": "Number(parse of the literal's own text)", "Float": "Number(parse of the literal's own text)"}.get(v, "as specified")))
        else:
            rep.finding("C28.DEFAULTS", g.name, "default:" + v,
                        "a %s literal used as a default value is converted by `%s`; defaults are not coerced again, so the conversion must keep every value the validator accepts (an integer literal beyond 32 bits is a valid Float / ID / custom-scalar default)" % (v, (sorted(others) or sorted(got) or ["nothing"])[0][:160]), g.loc())


def rule_defcoerce(prog, rep):
    """C28.DEFCOERCE: a defaulted variable conforms to its declared type like a provided one: the
    value inserted for it is the result of the type-directed coercion (coerce_variable_value with
    the variable's declared type), not the literal converted to JSON as it is written
    (`$v: [Int] = 1` must give [1]; `$v: In = {r: 1}` must carry the defaults of In's fields)."""
    from ..flow import derives
    rep.floor("C28.DEFCOERCE", 1)
    f = prog.fn(r"^apollo_compiler::resolvers::input_coercion::coerce_variable_values$")
    ins = [c for c in f.live_calls() if re.search(r"Map<[^>]*>::insert$|JsonMap::insert$|::insert$", c.name) and len(c.args) == 3]
    seen = 0
    for c in ins:
        _, via = derives(f, c.args[2], maxn=1500)
        names = [x.name for x in via]
        if not any(n.endswith("::graphql_value_to_json") for n in names):
            continue  # the provided-value path
        seen += 1
        co = [x for x in via if x.name.endswith("::coerce_variable_value")]
        ok = any(re.search(r"\.ty\b", f.sym(x.args[2])) and "graphql_value_to_json(" in f.sym(x.args[3]) for x in co)
        rep.obligation(ok)
        if ok:
            rep.instance("C28.DEFCOERCE", "coerce_variable_values: a default value is converted to JSON and then coerced to the variable's declared type before it is inserted")
        else:
            rep.finding("C28.DEFCOERCE", f.name, "default-not-coerced",
                        "the default value of a variable is inserted as `%s`: it is not coerced to the declared type, so `$v: [Int] = 1` yields 1 instead of [1] and an input object default misses the default values of its fields" % f.sym(c.args[2])[:100], c.loc())
    if not seen:
        raise Undecided("coerce_variable_values: the insertion of a default value was not found")


def run(prog, rep):
    rule_scalars(prog, rep)
    rule_shape(prog, rep)
    rule_defaults(prog, rep)
    rule_defcoerce(prog, rep)
    rule_result(prog, rep)
