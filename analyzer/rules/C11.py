"""C11 — Source locations and line/column positions are correct (DESIGN.md C11)."""
import re

from ..core import AnchorError, Undecided, op_const, op_place
from ..flow import _strip, derives
from ..tables import enum_paths, return_value_on_path

CRATES = ["apollo_compiler"]
LEVEL = "other"
EXPLANATION = """
C11.LOC: the CST -> AST conversion (ast/from_cst.rs) builds nodes only through location-carrying
constructors (with_location = Node::new_parsed(node, SourceSpan::new(file_id, syntax_node)),
Node::new_str_parsed, Name::new(..).with_location(..)), never Node::new / Node::new_str /
new_opt_location; at every with_location site the syntax node and the converted value come from
the same CST node, and the file id is the conversion's own file_id; SourceSpan::new stores the
node's text_range.  C11.NAMELOC: Convert for cst::Name takes the span of the NAME node whose first
token is the text; Name::with_location stores text_range.start() and the file id with the tag
preserved, and Name::location rebuilds (file id, start, len).  C11.UNITS: LineColumn.column is
documented as a count of Unicode scalar values, so the value stored there must come from a
character count (chars().count() or equivalent), not from a byte offset difference.  C11.LINES:
the line number must follow the GraphQL LineTerminator rule (LF, CRLF, CR), so it must not come
from ariadne::Source's line table (ariadne 0.6 also breaks lines at VT, FF, NEL, LS and PS) and
the only characters the line counter compares against are LF and CR.  C11.JSON: GraphQLError::new
fills `locations` from SourceSpan::line_column of the error location.
"""

A = "apollo_compiler::"
BANNED = r"node::Node::<T>::new$|node::Node::<str>::new_str$|node::Node::<T>::new_opt_location$|schema::component::Component::<T>::new$"
ALLOWED = r"from_cst::with_location$|node::Node::<T>::new_parsed$|node::Node::<str>::new_str_parsed$|name::Name::with_location$"


def rule_loc(prog, rep):
    rep.floor("C11.LOC", 30)
    fns = [f for f in prog.fns.values() if f.file.endswith("ast/from_cst.rs")]
    if len(fns) < 50:
        raise AnchorError("ast/from_cst.rs: only %d functions found" % len(fns))
    for fn in sorted(fns, key=lambda f: f.name):
        short = fn.name.split("from_cst::")[-1][:70]
        for c in fn.live_calls():
            if re.search(BANNED, c.name):
                rep.finding("C11.LOC", fn.name, "no-location:" + c.name.split("::")[-1],
                            "the CST->AST conversion builds a node with %s, which carries no source location" % c.name.split("::", 1)[-1], c.loc())
            elif c.name.endswith("from_cst::with_location"):
                s0, s1, s2 = (fn.sym(a) for a in c.args)
                # the file id is the conversion's own parameter (closures: captured)
                ok_file = re.fullmatch(r"arg\d+(\.\d+)?", s0) is not None
                m = re.search(r"CstNode>?::syntax\(&(.*)\)$", s1)
                ok_same = False
                if m:
                    x = m.group(1)
                    ok_same = ("::convert(&%s, " % x) in s2 or ("convert(&%s," % x) in s2
                    if not ok_same and s2.startswith("tuple("):
                        # (OperationType, Name) pairs are located at their enclosing definition
                        ok_same = x in s2
                rep.obligation(ok_file and ok_same)
                if ok_file and ok_same:
                    rep.instance("C11.LOC", "%s: with_location(file_id, x.syntax(), x.convert(file_id)) for the same x" % short)
                else:
                    rep.finding("C11.LOC", fn.name, "mismatched-node",
                                "with_location is given the syntax node `%s` but the value `%s`: the node would carry another node's location" % (s1[:90], s2[:90]), c.loc())
            elif c.name.endswith("parser::SourceSpan::new"):
                s0 = fn.sym(c.args[0])
                ok = re.fullmatch(r"arg\d+(\.\d+)?", s0) is not None
                rep.obligation(ok)
                if ok:
                    rep.instance("C11.LOC", "%s: SourceSpan::new(file_id, %s)" % (short, fn.sym(c.args[1])[:60]))
                else:
                    rep.finding("C11.LOC", fn.name, "file-id", "a span is built with file id `%s`, not the conversion's file_id" % s0, c.loc())
    f = prog.fn(r"^%sparser::SourceSpan::new$" % A)
    rows = enum_paths(f)
    rv = return_value_on_path(f, rows[0][2]) if len(rows) == 1 else ""
    ok = rv == "SourceSpan::SourceSpan{arg1, SyntaxNode::text_range(&arg2)}"
    rep.obligation(ok)
    if ok:
        rep.instance("C11.LOC", "SourceSpan::new = {file_id, node.text_range()}")
    else:
        rep.finding("C11.LOC", f.name, "shape", "SourceSpan::new builds `%s`" % rv, f.loc())
    f = prog.fn(r"^%sast::from_cst::with_location$" % A)
    rows = enum_paths(f)
    rv = return_value_on_path(f, rows[0][2]) if len(rows) == 1 else ""
    ok = rv == "Node::new_parsed(arg3, SourceSpan::new(arg1, &arg2))"
    rep.obligation(ok)
    if ok:
        rep.instance("C11.LOC", "with_location = Node::new_parsed(node, SourceSpan::new(file_id, syntax_node))")
    else:
        rep.finding("C11.LOC", f.name, "shape", "with_location builds `%s`" % rv, f.loc())


def rule_nameloc(prog, rep):
    rep.floor("C11.NAMELOC", 4)
    cv = [f for f in prog.fns.values() if f.file.endswith("ast/from_cst.rs") and re.search(r"Convert for apollo_parser::cst::Name>::convert$|cst::Name as .*Convert>::convert$", f.name)]
    if len(cv) != 1:
        cv = [f for f in prog.fns.values() if f.file.endswith("ast/from_cst.rs") and any(c.name.endswith("name::Name::with_location") for c in f.live_calls())]
    if len(cv) != 1:
        raise AnchorError("Convert for cst::Name not found")
    f = cv[0]
    wl = [c for c in f.live_calls() if c.name.endswith("name::Name::with_location")]
    nn = [c for c in f.live_calls() if c.name.endswith("name::Name::new")]
    ok = len(wl) == 1 and len(nn) == 1
    if ok:
        loc = f.sym(wl[0].args[1])
        txt = f.sym(nn[0].args[0])
        ok = re.fullmatch(r"SourceSpan::new\(arg2, &\*<Name as CstNode>::syntax\(&arg1\)\)", loc) is not None
        ok = ok and re.search(r"SyntaxToken::text\(&.*SyntaxNode::first_token\(&\*<Name as CstNode>::syntax\(&arg1\)\)", txt) is not None
        ok = ok and "Name::new(" in f.sym(wl[0].args[0])
    rep.obligation(ok)
    if ok:
        rep.instance("C11.NAMELOC", "Convert for cst::Name: Name::new(first token text of self.syntax()).with_location(SourceSpan::new(file_id, self.syntax()))")
    else:
        rep.finding("C11.NAMELOC", f.name, "span", "a parsed Name is not located at the NAME node whose first token is its text", f.loc())
    f = prog.fn(r"^%sname::Name::with_location$" % A)
    writes = {}
    for b in f.live_blocks():
        for s in f.stmts(b):
            if s[0] == "=" and s[1][0] == 1 and s[1][1]:
                last = s[1][1][-1]
                if isinstance(last, list) and last[0] == "f":
                    rv = s[2]
                    writes[last[2]] = f.sym(rv[1]) if rv[0] == "use" else rv[0]
        t = f.term(b)
        if t[0] == "call" and t[3][0] == 1 and t[3][1]:
            last = t[3][1][-1]
            c = f.call_at(b)
            writes[last[2]] = "%s(%s)" % (c.name.split("::")[-1], ", ".join(f.sym(a) for a in c.args))
    ok = set(writes) == {"start_offset", "tagged_file_id"} and re.search(r"TextRange::start\(arg2\.text_range\)", writes.get("start_offset", "")) is not None
    ok = ok and re.fullmatch(r"(TaggedFileId::)?pack\(TaggedFileId::tag\(arg1\.tagged_file_id\), arg2\.file_id\)", writes.get("tagged_file_id", "")) is not None
    rep.obligation(ok)
    if ok:
        rep.instance("C11.NAMELOC", "Name::with_location: start_offset <- text_range.start(); tagged_file_id <- pack(own tag, location.file_id); nothing else written")
    else:
        rep.finding("C11.NAMELOC", f.name, "writes", "Name::with_location writes %s" % writes, f.loc())
    f = prog.fn(r"^%sname::Name::location$" % A)
    rows = [(a, return_value_on_path(f, p) or "") for a, _rb, p in enum_paths(f)]
    some = [rv for _a, rv in rows if rv.startswith("Option::Some")]
    ok = len(rows) == 2 and len(some) == 1 and some[0] == "Option::Some{SourceSpan::SourceSpan{TaggedFileId::file_id(arg1.tagged_file_id), TextRange::at(<T as Into<U>>::into(arg1.start_offset), <T as Into<U>>::into(arg1.len))}}"
    rep.obligation(ok)
    if ok:
        rep.instance("C11.NAMELOC", "Name::location = Some{file_id, TextRange::at(start_offset, len)} unless the file id is NONE")
    else:
        rep.finding("C11.NAMELOC", f.name, "shape", "Name::location rebuilds `%s`" % (some[:1] or rows), f.loc())
    f = prog.fn(r"^%sparser::SourceSpan::line_column$" % A)
    c = [x for x in f.live_calls() if x.name.endswith("SourceFile::get_line_column")]
    ok = len(c) == 1 and re.search(r"SourceSpan::offset\(&?arg1\)", f.sym(c[0].args[1])) is not None and re.search(r"IndexMap::get\(.*arg2.*, &arg1\.file_id\)", f.sym(c[0].args[0])) is not None
    rep.obligation(ok)
    if ok:
        rep.instance("C11.NAMELOC", "SourceSpan::line_column: sources[self.file_id].get_line_column(self.offset())")
    else:
        rep.finding("C11.NAMELOC", f.name, "lookup", "line_column does not look its own offset up in its own file", f.loc())


BYTE_SOURCES = r"ariadne::Source.*::get_byte_line$|core::str::<impl str>::len$|TextRange::|TextSize|SourceSpan::offset$|SourceSpan::end_offset$"
CHAR_COUNTS = r"core::str::<impl str>::chars$|core::str::<impl str>::char_indices$|ariadne::Source.*::get_offset_line$|Iterator::count$"
ARIADNE_LINES = r"ariadne::(source::)?Source.*::(get_byte_line|get_offset_line|get_line_range|line|lines)$|ariadne::.*Line"


def rule_units_lines(prog, rep):
    rep.floor("C11.UNITS", 1)
    rep.floor("C11.LINES", 1)
    f = prog.fn(r"^%sparser::SourceFile::get_line_column$" % A)
    aggs = []
    for b in sorted(f.live_blocks()):
        for s in f.stmts(b):
            if s[0] == "=" and s[2][0] == "agg" and isinstance(s[2][1], list) and s[2][1][0] == "adt" and s[2][1][1].endswith("parser::LineColumn"):
                aggs.append((b, s))
    if len(aggs) != 1:
        raise Undecided("get_line_column: expected one LineColumn aggregate (found %d)" % len(aggs))
    adt = prog.adt(r"^%sparser::LineColumn$" % A)
    names = [x[0] for v in adt["variants"] for x in v["fields"]]
    ops = dict(zip(names, aggs[0][1][2][2]))
    # --- column: unit
    cpaths, ccalls = derives(f, ops["column"])
    cnames = [c.name for c in ccalls]
    col_sym = f.sym(ops["column"])
    byte_component = re.search(r"get_byte_line\(.*\)\)?\.as:\w+\.0\.2|get_byte_line\(.*\)\.2", col_sym) is not None
    has_count = any(re.search(r"Iterator>?::count$", n) for n in cnames) and any(re.search(r"<impl str>::chars$|<impl str>::char_indices$", n) for n in cnames)
    has_offset_line = any(re.search(r"Source.*::get_offset_line$", n) for n in cnames)
    if byte_component and not has_count:
        rep.finding("C11.UNITS", f.name, "column-in-bytes",
                    "LineColumn.column is `%s`: the byte offset within the line (third component of ariadne's get_byte_line) plus one, but the field is documented to count Unicode scalar values - `\"é中\U0001F680\" x` reports x at column 13 instead of 7" % col_sym[:120], f.loc())
    elif has_count or has_offset_line:
        rep.instance("C11.UNITS", "LineColumn.column derives from a character count (%s)" % ("chars().count()" if has_count else "get_offset_line"))
    else:
        rep.fail("UNDECIDED rule=C11.UNITS get_line_column: cannot tell the unit of the column value `%s`" % col_sym[:160])
    # --- line: separator set
    lpaths, lcalls = derives(f, ops["line"])
    lnames = [c.name for c in lcalls]
    line_sym = f.sym(ops["line"])
    from_ariadne = any(re.search(ARIADNE_LINES, n) for n in lnames)
    if from_ariadne:
        rep.finding("C11.LINES", f.name, "ariadne-line-table",
                    "LineColumn.line is `%s`: taken from ariadne::Source's line table, which (ariadne 0.6.0, Source::from) also breaks lines at VT, FF, NEL, U+2028 and U+2029 - a form feed or U+2028 inside a comment or string shifts every later line number; GraphQL's LineTerminator is LF, CRLF or CR only" % line_sym[:110], f.loc())
    else:
        # own counter: the only constants characters/bytes are compared with are LF and CR
        consts = set()
        for b in f.live_blocks():
            for s in f.stmts(b):
                if s[0] == "=" and s[2][0] == "bin" and s[2][1] in ("Eq", "Ne"):
                    for o in (s[2][2], s[2][3]):
                        c = op_const(o)
                        if c is not None and c[0] in ("u8", "char") and "int" in c[2]:
                            consts.add(int(c[2]["int"]))
            t = f.term(b)
            if t[0] == "switch" and t[4] in ("u8", "char"):
                for v, _tb in t[2]:
                    consts.add(int(v))
        # closures of the function count too
        for g in prog.fns.values():
            if g.root == f.uid and g.uid != f.uid:
                for b in g.live_blocks():
                    for s in g.stmts(b):
                        if s[0] == "=" and s[2][0] == "bin" and s[2][1] in ("Eq", "Ne"):
                            for o in (s[2][2], s[2][3]):
                                c = op_const(o)
                                if c is not None and c[0] in ("u8", "char") and "int" in c[2]:
                                    consts.add(int(c[2]["int"]))
                    t = g.term(b)
                    if t[0] == "switch" and t[4] in ("u8", "char"):
                        for v, _tb in t[2]:
                            consts.add(int(v))
        if consts == {10, 13}:
            rep.instance("C11.LINES", "the line counter compares characters with LF and CR only and does not use ariadne's line table")
        elif not consts:
            rep.fail("UNDECIDED rule=C11.LINES get_line_column: the line value `%s` comes neither from ariadne nor from a recognisable LF/CR counter" % line_sym[:160])
        else:
            rep.finding("C11.LINES", f.name, "separator-set", "the line counter breaks lines at %s; GraphQL's LineTerminator is LF, CRLF or CR" % sorted("U+%04X" % c for c in consts), f.loc())
    # look-ahead past the prefix: whether a CR ends a line depends on the byte *after* it, and for
    # a CR that is the last byte before `offset` that byte is at `offset`, outside `before`.  So a
    # read at (index + k) must go to the whole text, not to the prefix cut at `offset`.
    looks = []
    for g in [f] + [h for h in prog.fns.values() if h.root == f.uid and h.uid != f.uid]:
        for c in g.live_calls():
            if re.search(r"slice::<impl \[T\]>::get$|ops::Index<.*>>::index$|traits::index$", c.name + " " + c.orig_name) and len(c.args) == 2:
                idx = g.sym(c.args[1])
                if re.match(r"^(&?\*?)?Add\(", idx) and re.search(r"Iterator>::next\(|\.0", idx):
                    looks.append((g, c, g.sym(c.args[0])))
    for g, c, recv in looks:
        if re.search(r"RangeTo::RangeTo\{arg2\}|RangeTo\{&?arg2\}", recv):
            rep.finding("C11.LINES", f.name, "lookahead-in-prefix",
                        "the look-ahead for `\\r\\n` reads index + 1 in the text *before* the offset (`%s`): for a `\\r` that is the last byte before the offset the `\\n` is not seen, so the position between `\\r` and `\\n` of a CRLF is reported on the next line" % recv[:90], c.loc())
        else:
            rep.instance("C11.LINES", "the CRLF look-ahead reads the whole source text, not the prefix cut at the offset")
    # range = two point lookups
    g = prog.fn(r"^%sparser::SourceFile::get_line_column_range$" % A)
    cs = [c for c in g.live_calls() if c.uid == f.uid]
    ok = len(cs) == 2 and sorted(g.sym(c.args[1]) for c in cs) == ["arg2.end", "arg2.start"]
    rep.obligation(ok)
    if ok:
        rep.instance("C11.UNITS", "get_line_column_range = get_line_column(start)..get_line_column(end)")
    else:
        rep.finding("C11.UNITS", g.name, "range", "get_line_column_range is not the pair of point lookups at range.start and range.end", g.loc())


def rule_json(prog, rep):
    rep.floor("C11.JSON", 1)
    f = prog.fn(r"^%sresponse::GraphQLError::new$" % A)
    cl = [g for g in prog.fns.values() if g.root == f.uid and g.uid != f.uid]
    lc = [(g, c) for g in cl + [f] for c in g.live_calls() if c.name.endswith("SourceSpan::line_column")]
    ok = len(lc) == 1
    if ok:
        g, c = lc[0]
        ok = re.fullmatch(r"&?arg2(\.\d+)?", g.sym(c.args[0])) is not None or g is not f
    # the locations field of the aggregate derives from that iterator
    agg = None
    for b in f.live_blocks():
        for s in f.stmts(b):
            if s[0] == "=" and s[2][0] == "agg" and isinstance(s[2][1], list) and s[2][1][0] == "adt" and s[2][1][1].endswith("response::GraphQLError"):
                agg = s
    if agg is None:
        raise Undecided("GraphQLError::new: no GraphQLError aggregate")
    adt = prog.adt(r"^%sresponse::GraphQLError$" % A)
    names = [x[0] for v in adt["variants"] for x in v["fields"]]
    ops = dict(zip(names, agg[2][2]))
    loc_sym = f.sym(ops["locations"])
    ok = ok and "filter_map" in loc_sym and "arg2" in loc_sym
    rep.obligation(ok)
    if ok:
        rep.instance("C11.JSON", "GraphQLError::new: locations = location.into_iter().filter_map(|l| l.line_column(sources)).collect()")
    else:
        rep.finding("C11.JSON", f.name, "locations", "JSON error locations are `%s`, not the line/column of the error's source location" % loc_sym[:160], f.loc())


def rule_sametext(prog, rep):
    """C11.SAMETEXT: every location is a byte range into the text kept in the SourceFile.  The
    parser that produces those ranges must therefore be run on that very text: in parse_common the
    string handed to apollo_parser::Parser::new is the same parameter that is stored as
    SourceFile.source_text (not a stripped or normalised copy - removing a leading BOM shifts every
    location by three bytes)."""
    rep.floor("C11.SAMETEXT", 1)
    f = prog.fn(r"^apollo_compiler::parser::Parser::parse_common$")
    news = [c for c in f.live_calls() if re.search(r"^apollo_parser::(parser::)?Parser::<'input>::new$", c.name)]
    stored = None
    for b in sorted(f.live_blocks()):
        for st in f.stmts(b):
            if st[0] == "=" and st[2][0] == "agg" and isinstance(st[2][1], list) and st[2][1][1].endswith("parser::SourceFile") and len(st[2][1]) > 3:
                names = st[2][1][3]
                if "source_text" in names:
                    stored = re.sub(r"[&*]", "", f.sym(st[2][2][names.index("source_text")]))
    if len(news) != 1 or stored is None:
        raise Undecided("parse_common: expected one apollo_parser::Parser::new call and one SourceFile { source_text, .. } (found %d / %s)" % (len(news), stored))
    given = re.sub(r"<String as Deref>::deref\(([^()]*)\)", r"\1", re.sub(r"[&*]", "", f.sym(news[0].args[0])))
    ok = given == stored
    rep.obligation(ok)
    if ok:
        rep.instance("C11.SAMETEXT", "parse_common: the parser reads the same string (%s) that is stored as SourceFile.source_text" % stored)
    else:
        rep.finding("C11.SAMETEXT", f.name, "parsed-text",
                    "the parser is run on `%s` while the SourceFile keeps `%s`: offsets of nodes, names and syntax errors are relative to a different text than the one they are resolved against (line / column and name spans are shifted)" % (given[:90], stored), news[0].loc())


def rule_sources(prog, rep):
    """C11.SOURCES: a location is a (file id, span); it means something only together with the
    source map that resolves the file id.  An executable document built from several sources must
    carry the union of their source maps: the builder *extends* its maps for every added
    document (never replaces them), and the finished document takes the accumulated map."""
    from ..flow import derives
    rep.floor("C11.SOURCES", 2)
    B = r"^apollo_compiler::executable::from_ast::ExecutableDocumentBuilder::<'schema, 'errors>::"
    for nm in ("add_ast_document", "add_ast_document_not_adding_sources"):
        f = prog.fn(B + nm + "$")
        over = []
        for b in sorted(f.live_blocks()):
            for st in f.stmts(b):
                if st[0] == "=" and st[1][1] and isinstance(st[1][1][-1], list) and st[1][1][-1][0] == "f" and st[1][1][-1][2] == "sources":
                    over.append(b)
        ext = [c for c in f.live_calls() if re.search(r"Extend<[^>]*>>?::extend$|::extend$", c.name) and re.search(r"arg1\)?\.(errors|document)\)?\.sources", f.sym(c.args[0]))]
        ok = not over and len(ext) >= 1 and all("arg2" in f.sym(c.args[1]) and "sources" in f.sym(c.args[1]) for c in ext)
        rep.obligation(ok)
        if ok:
            rep.instance("C11.SOURCES", "%s extends the builder's source map with the added document's sources" % nm)
        else:
            rep.finding("C11.SOURCES", f.name, "sources:" + nm,
                        "%s %s: the file ids of nodes that came from earlier documents are then missing from the built document's source map, and their locations cannot be resolved (no line/column, no `locations` in JSON errors)" % (
                            nm, "replaces the builder's source map" if over else "does not add the document's sources to the builder's source map"), f.loc())
    g = prog.fn(B + "build_inner$")
    ok = False
    for b in sorted(g.live_blocks()):
        for st in g.stmts(b):
            if st[0] == "=" and st[1][1] and isinstance(st[1][1][-1], list) and st[1][1][-1][0] == "f" and st[1][1][-1][2] == "sources":
                paths, _ = derives(g, st[2][1] if st[2][0] == "use" else st[2])
                ok = ok or any(re.search(r"errors.*\.sources$|\.sources$", q) and "errors" in q for q in paths)
    rep.obligation(ok)
    if ok:
        rep.instance("C11.SOURCES", "build_inner: the document takes the source map accumulated in the diagnostics list (every file added so far)")
    else:
        rep.finding("C11.SOURCES", g.name, "sources:build", "the built ExecutableDocument does not take the accumulated source map (errors.sources)", g.loc())


def run(prog, rep):
    rule_loc(prog, rep)
    rule_nameloc(prog, rep)
    rule_units_lines(prog, rep)
    rule_json(prog, rep)
    rule_sametext(prog, rep)
    rule_sources(prog, rep)
    rep.assume("ariadne 0.6.0 (pinned by Cargo.lock): Source::from splits lines at LF, CR(LF), VT, FF, NEL, LS, PS; get_byte_line returns (line, line index, byte offset within the line)")
    rep.note("that every AST/schema/executable node carries a location is decided for the CST->AST conversion only; later stages clone these nodes")
