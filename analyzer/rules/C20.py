"""C20 — Validating without a schema is a relaxation (DESIGN.md C20)."""
import re

from ..core import AnchorError, norm_path, op_const, op_local, op_place
from ..flow import facts_at

CRATES = ["apollo_compiler"]
LEVEL = "other"
EXPLANATION = """
C20.SUBSET: standalone validation and schema validation share one rule driver
(validate_with_or_without_schema / document_from_ast); no rule function is reachable from the
standalone entry only, so every diagnostic site that can fire without a schema also exists in the
schema run.  C20.GUARD: for every diagnostic construction site reachable from
Document::validate_standalone_executable: (N) the site must not depend negatively on the schema -
i.e. be dominated by the None / absent edge of a test on a schema-derived option (Option<&Schema>,
Option<(&Schema, ..)>, or an and_then/map/filter/zip chain or unwrap_or-defaulted value derived
from one) - unless the same site is also dominated by positive evidence that a schema is present;
(C) a site that constructs a schema-dependent diagnostic variant (frozen classification of the
variants: Undefined{Directive,Argument,Field,..}, RequiredArgument, UnsupportedLocation, type-shape
errors, ...) must carry positive evidence: a non-optional &Schema parameter, a live &Schema
binding extracted from an option, a Some edge on a schema-derived option, or one of the two
enumerated correlations (a locally built Result whose Err arm only the schema arm produces; a
callee that returns None only on its schema arm).
"""

DIAG_PUSH = r"validation::DiagnosticList::push$|from_ast::BuildErrors::<'a>::push$|from_ast::BuildErrors::push$"

SCHEMA_INDEPENDENT = {
    "UniqueVariable", "UniqueArgument", "UniqueInputValue", "UndefinedVariable", "UndefinedFragment",
    "UnusedVariable", "UnusedFragment", "RecursiveFragmentDefinition", "RecursionError", "DeeplyNestedType",
    "RecursionLimitError", "TypeSystemDefinition", "AmbiguousAnonymousOperation", "OperationNameCollision",
    "FragmentNameCollision", "DuplicateDeferLabel", "DeferLabelMustNotBeVariable",
    "DeferOnRootMutationOrSubscriptionField", "DeferInSubscriptionMustBeConditional",
    "IntCoercionError", "FloatCoercionError", "ParserLimit", "SyntaxError",
}
SCHEMA_DEPENDENT = {
    "UndefinedDirective", "UndefinedArgument", "UndefinedDefinition", "UndefinedField", "UndefinedEnumValue",
    "UndefinedInputValue", "RequiredArgument", "RequiredField", "UnsupportedLocation", "UnsupportedValueType",
    "UniqueDirective", "MissingSubselection", "InvalidFragmentTarget", "InvalidFragmentSpread",
    "DisallowedVariableUsage", "VariableInputType", "UndefinedRootOperation",
    "UndefinedTypeInNamedFragmentTypeCondition", "UndefinedTypeInInlineFragmentTypeCondition",
    "SubselectionOnScalarType", "SubselectionOnEnumType", "SubscriptionUsesMultipleFields",
    "SubscriptionUsesIntrospection", "SubscriptionUsesConditionalSelection", "ConflictingFieldType",
    "ConflictingFieldArgument", "ConflictingFieldName", "InputType", "OutputType",
}

OPT_CHAIN = r"option::Option::<T>::(and_then|map|filter|zip|as_ref|as_mut|copied|cloned|as_deref|and|inspect|take)$|Option<&T>>::(copied|cloned)$|option::Option::<&T>::(copied|cloned)$"
OPT_DEFAULT = r"option::Option::<T>::(unwrap_or|unwrap_or_default|unwrap_or_else|map_or|map_or_else|is_some_and|is_none_or)$"


def strip_options(ty):
    """remove every `Option<...>` segment (balanced) from a type string"""
    out = ""
    i = 0
    while i < len(ty):
        j = ty.find("Option<", i)
        if j < 0:
            out += ty[i:]
            break
        out += ty[i:j]
        depth = 0
        k = j + len("Option")
        while k < len(ty):
            if ty[k] == "<":
                depth += 1
            elif ty[k] == ">":
                depth -= 1
                if depth == 0:
                    break
            k += 1
        i = k + 1
    return out


SCHEMA_TY = r"schema::Schema\b"


def has_schema_nonopt(prog, ty, depth=0):
    """does the type hold a non-optional reference to a Schema (directly, in a tuple, or in a
    field of a local struct reached through references)?"""
    t = strip_options(ty)
    if re.search(SCHEMA_TY, t):
        return True
    if depth > 2:
        return False
    # local ADTs with such a field (contexts like FieldsInSetCanMerge { schema: &Schema })
    for m in re.finditer(r"apollo_compiler::[\w:]+", t):
        nm = m.group(0)
        a = prog._adt_by_name().get(nm)
        if a is None or nm.endswith("schema::Schema"):
            continue
        for v in a["variants"]:
            for f in v["fields"]:
                if has_schema_nonopt(prog, f[1], depth + 1) and not re.match(r"^(std::vec::Vec|indexmap::)", f[1]):
                    return True
    return False


def is_schema_option_ty(ty):
    return re.search(r"Option<[^>]*" + SCHEMA_TY, ty) is not None or re.search(r"Option<\(?&[^>]*" + SCHEMA_TY, ty) is not None


def place_type(prog, fn, place):
    """best-effort type string of a place (None if unknown)"""
    local, proj = place
    ty = fn.local_ty(local)
    for e in proj:
        if ty is None:
            return None
        if e == "*":
            ty = re.sub(r"^&('\w+ )?(mut )?", "", ty)
            ty = re.sub(r"^(std::boxed::Box|std::sync::Arc|triomphe::Arc)<(.*)>$", r"\2", ty)
        elif isinstance(e, list) and e[0] == "f":
            base = re.sub(r"<.*$", "", ty)
            a = prog._adt_by_name().get(base)
            if a is None:
                return None
            fty = None
            for v in a["variants"]:
                for f in v["fields"]:
                    if f[0] == e[2]:
                        fty = f[1]
            ty = fty
        elif isinstance(e, list) and e[0] == "d":
            # Option downcast: Some.0 keeps the inner type
            m = re.match(r"^std::option::Option<(.*)>$", ty)
            if m and e[2] == "Some":
                ty = "SOME:" + m.group(1)
            else:
                return None
        else:
            return None
        if ty and ty.startswith("SOME:") and e != proj[-1]:
            pass
    if ty and ty.startswith("SOME:"):
        ty = ty[5:]
    return ty


def schema_derivation(prog, fn, x, depth=0):
    """classify a value (operand / place / local): 'opt' = schema-derived Option (typed or by
    chain), ('default', const) = defaulted from one, None otherwise"""
    if depth > 8:
        return None
    if isinstance(x, int):
        place = [x, []]
    elif isinstance(x, list) and x and x[0] in ("c", "m"):
        place = x[1]
    elif isinstance(x, list) and x and x[0] == "k":
        return None
    else:
        place = x
    ty = place_type(prog, fn, place)
    if ty and is_schema_option_ty(ty):
        return "opt"
    local = place[0]
    if 1 <= local <= fn.argc:
        return None
    sd = fn.single_def(local)
    if sd is None:
        return None
    rv = sd[2]
    if rv[0] in ("use", "cast"):
        op = rv[1] if rv[0] == "use" else rv[2]
        if op_place(op) is not None:
            return schema_derivation(prog, fn, op, depth + 1)
        return None
    if rv[0] in ("ref", "raw"):
        return schema_derivation(prog, fn, rv[2], depth + 1)
    if rv[0] == "callret":
        c = rv[1]
        if re.search(OPT_CHAIN, c.name) and c.args:
            r = schema_derivation(prog, fn, c.args[0], depth + 1)
            if r == "opt":
                return "opt"
            return r
        if re.search(OPT_DEFAULT, c.name) and c.args:
            r = schema_derivation(prog, fn, c.args[0], depth + 1)
            if r == "opt":
                dv = None
                if len(c.args) > 1:
                    k = op_const(c.args[1])
                    if k is not None:
                        dv = fn.sym(c.args[1])
                return ("default", dv)
            return r
        if re.search(r"::Deref>?::deref$|AsRef::as_ref$|Clone::clone$", c.name) and c.args:
            return schema_derivation(prog, fn, c.args[0], depth + 1)
        # accessor returning Option<&Schema> is covered by the type test above
    return None


def evidence(prog, fn, block):
    """returns (positive:list[str], negative:list[str]) about schema presence at `block`"""
    pos, neg = [], []
    root = prog.fns.get(fn.root) if fn.root else fn
    for f in (fn, root):
        if f is None:
            continue
        for t in f.d.get("sig_in", []) if f.kind in ("fn", "assoc_fn") else []:
            if has_schema_nonopt(prog, t):
                pos.append("param of type %s" % t[:60])
    # closure environment captured values: look at the closure's own locals copied from upvars
    for l, (ty, nm) in enumerate(fn.locals):
        if l == 0 or l <= fn.argc:
            continue
        if re.search(SCHEMA_TY, strip_options(ty)) and re.match(r"^(&|\()", ty):
            for (b, i, rv, pj) in fn.defs().get(l, []):
                if not pj and b in fn.live_blocks() and fn.dominates(b, block):
                    pos.append("binding %s: %s defined in bb%d" % (nm or "_%d" % l, ty[:50], b))
                    break
    for f in facts_at(fn, block):
        if f[0] in ("variant", "variant_in"):
            place = f[-1] if isinstance(f[-1], list) else None
            path = f[1]
            d = _derivation_of_fact_path(prog, fn, f)
            if d == "opt":
                if f[0] == "variant" and f[2] == "Some":
                    pos.append("Some edge on %s" % path[:70])
                elif f[0] == "variant" and f[2] == "None":
                    neg.append("None edge on %s" % path[:70])
                elif f[0] == "variant_in" and "Some" not in f[2]:
                    neg.append("non-Some edge on %s" % path[:70])
        elif f[0] == "callbool":
            name, args, val = f[1], f[2], f[3]
            call = f[4] if len(f) > 4 else None
            if call is None or not call.args:
                continue
            d = schema_derivation(prog, fn, call.args[0])
            if d == "opt" and re.search(r"Option::<T>::is_some$", name):
                (pos if val else neg).append("%s(%s) == %s" % (name.split("::")[-1], (args[0] or "")[:50], val))
            elif d == "opt" and re.search(r"Option::<T>::is_none$", name):
                (neg if val else pos).append("%s(%s) == %s" % (name.split("::")[-1], (args[0] or "")[:50], val))
            elif isinstance(d, tuple):
                neg.append("branch on a value defaulted from a schema-derived option via %s" % name.split("::")[-1])
        elif f[0] == "place_local":
            pass
    # booleans defaulted from schema-derived options: `x.map(..).unwrap_or(c)`; edge value != c => Some
    for f in _bool_edge_values(fn, block):
        l, val = f
        d = schema_derivation(prog, fn, l)
        if isinstance(d, tuple):
            dv = d[1]
            if dv in ("const:true", "const:false"):
                if (dv == "const:true") != val:
                    pos.append("bool defaulted to %s from a schema-derived option is %s here" % (dv[6:], val))
                else:
                    neg.append("bool defaulted to %s from a schema-derived option has its default value here" % dv[6:])
            else:
                neg.append("branch on a value defaulted from a schema-derived option")
    return pos, neg


def _bool_edge_values(fn, block):
    """(local, value) for bool switches dominating block"""
    out = []
    idom = fn.dominators()
    cur = block
    n = 0
    while cur != 0 and cur in idom and n < 10000:
        n += 1
        d = idom[cur]
        info = fn.switch_info(d)
        if info and info.get("kind") == "bool":
            for v, tb in info["edges"].items():
                if (tb == cur or fn.dominates(tb, cur)) and len([p for p in fn.preds()[tb] if p != d and not fn.dominates(tb, p)]) == 0:
                    # resolve copies / negations
                    l = info["local"]
                    val = v
                    k = 0
                    while k < 10:
                        k += 1
                        sd = fn.single_def(l)
                        if sd and sd[2][0] == "use" and op_local(sd[2][1]) is not None:
                            l = op_local(sd[2][1])
                        elif sd and sd[2][0] == "un" and sd[2][1] == "Not" and op_local(sd[2][2]) is not None:
                            l = op_local(sd[2][2])
                            val = not val
                        else:
                            break
                    out.append((l, val))
        cur = d
    return out


def _derivation_of_fact_path(prog, fn, f):
    """schema derivation of the value whose variant the fact talks about: re-find the switch"""
    # the fact's path string was produced from info['place']; find the switch block with that path
    for b in fn.live_blocks():
        info = fn.switch_info(b)
        if info and info.get("kind") == "enum" and norm_path(fn.apath(info["place"])) == f[1]:
            if not info["adt"].endswith("option::Option"):
                return None
            return schema_derivation(prog, fn, info["place"])
    return None


def variant_of_site(fn, c):
    s = fn.sym(c.args[2]) if len(c.args) > 2 else ""
    m = re.search(r"(DiagnosticData|BuildError|Details)::(\w+)", s)
    if m:
        return m.group(2)
    # boxed payloads: ConflictingFieldType(Box<..>) etc. appear as BuildError::X{..} too
    return None


def rule_subset(prog, rep):
    rep.floor("C20.SUBSET", 3)
    cg = prog.callgraph()
    st = prog.fn(r"^apollo_compiler::executable::validation::validate_standalone_executable$")
    ws = prog.fn(r"^apollo_compiler::executable::validation::validate_executable_document$")
    shared = prog.fn(r"^apollo_compiler::executable::validation::validate_with_or_without_schema$")
    for f in (st, ws):
        if shared.uid in cg[f.uid]:
            rep.instance("C20.SUBSET", "%s calls validate_with_or_without_schema" % f.name.split("::")[-1])
        else:
            rep.finding("C20.SUBSET", f.name, "shared-driver", "does not go through validate_with_or_without_schema", f.loc())
    only = set(cg[st.uid]) - {shared.uid}
    only = [u for u in only if prog.fns[u].crate == "apollo_compiler" and not re.search(r"DiagnosticList|drop", prog.fns[u].name)]
    if only:
        for u in only:
            rep.finding("C20.SUBSET", st.name, "standalone-only:" + prog.fns[u].name.split("::")[-1],
                        "validate_standalone_executable calls %s, which the schema-aware validation does not: standalone validation can reject what schema validation accepts" % prog.fns[u].name, st.loc())
    else:
        rep.instance("C20.SUBSET", "validate_standalone_executable calls nothing but the shared driver")
    # the AST entry builds with the same builder as the schema-aware one
    ent = prog.fn(r"ast::Document>::validate_standalone_executable$|ast::Document::validate_standalone_executable$")
    dfa = prog.fn(r"^apollo_compiler::executable::from_ast::document_from_ast$")
    if dfa.uid in cg[ent.uid] and st.uid in cg[ent.uid]:
        rep.instance("C20.SUBSET", "Document::validate_standalone_executable = document_from_ast(None, ..) + validate_standalone_executable")
    else:
        rep.finding("C20.SUBSET", ent.name, "entry", "Document::validate_standalone_executable no longer uses document_from_ast + validate_standalone_executable", ent.loc())


def rule_guard(prog, rep):
    rep.floor("C20.GUARD", 40)
    ent = prog.fn(r"ast::Document>::validate_standalone_executable$|ast::Document::validate_standalone_executable$")
    S = prog.reachable([ent])
    n = 0
    for u in sorted(S):
        fn = prog.fns[u]
        if fn.crate != "apollo_compiler":
            continue
        sites = [c for c in fn.live_calls() if re.search(DIAG_PUSH, c.name)]
        per_variant = {}
        for c in sites:
            v = variant_of_site(fn, c)
            if v is None:
                rep.fail("UNDECIDED rule=C20.GUARD %s: cannot read the diagnostic variant pushed here" % c.loc())
                continue
            k = per_variant.get(v, 0)
            per_variant[v] = k + 1
            site = "%s#%d" % (v, k)
            n += 1
            pos, neg = evidence(prog, fn, c.block)
            # correlation idioms for dependent variants without direct evidence
            if v in SCHEMA_DEPENDENT and not pos:
                pos += correlations(prog, fn, c)
            if v in SCHEMA_DEPENDENT and not pos:
                pos += via_callers(prog, fn, S, 0)
            if neg and not pos:
                rep.finding("C20.GUARD", fn.name, "negative-dependence:" + site,
                            "`%s` is reported on the edge where a schema-derived lookup is absent (%s) with no evidence that a schema is present: without a schema this fires for every input (e.g. built-in directives are rejected)" % (v, "; ".join(neg)[:160]), c.loc())
                continue
            if v in SCHEMA_DEPENDENT:
                if pos:
                    rep.instance("C20.GUARD", "%s %s: schema-dependent, guarded by %s" % (fn.name.split("::")[-1], site, pos[0]))
                else:
                    rep.finding("C20.GUARD", fn.name, "unguarded:" + site,
                                "schema-dependent diagnostic `%s` is constructed with no evidence that a schema is present (no &Schema parameter or binding, no Some edge on a schema-derived option, none of the enumerated correlations)" % v, c.loc())
            elif v in SCHEMA_INDEPENDENT:
                rep.instance("C20.GUARD", "%s %s: schema-independent%s" % (fn.name.split("::")[-1], site, " (also under schema evidence)" if pos else ""))
            else:
                rep.fail("UNCLASSIFIED rule=C20.GUARD diagnostic variant `%s` at %s is not in the schema-(in)dependence classification" % (v, c.loc()))
    rep.extra["standalone_reachable_functions"] = len(S)


def via_callers(prog, fn, S, depth):
    """a helper without its own evidence is guarded when every call site of it (among the
    functions reachable from the standalone entry) lies under schema evidence - recursively,
    three levels up at most"""
    if depth > 3:
        return []
    cg = prog.callgraph()
    target = fn.uid
    sites = []
    for u in S:
        es = cg.get(u, {})
        if target in es:
            for kind, b in es[target]:
                sites.append((prog.fns[u], kind, b))
    if not sites:
        return []
    why = []
    for caller, kind, b in sites:
        if kind != "call":
            return []  # passed around as a value: call sites unknown
        pos, neg = evidence(prog, caller, b)
        if not pos:
            # the call site itself may be justified by one of the correlation idioms (e.g. it lies
            # on the None edge of a callee that returns None only with a schema)
            cobj = caller.call_at(b)
            if cobj is not None:
                pos = correlations(prog, caller, cobj)
        if not pos:
            pos = via_callers(prog, caller, S, depth + 1)
        if not pos:
            return []
        why.append("%s@bb%d" % (caller.name.split("::")[-1], b))
    return ["every call site is under schema evidence (%s)" % ", ".join(sorted(set(why)))]


def correlations(prog, fn, c):
    """idioms (d) and (e) of DESIGN.md C20.GUARD"""
    out = []
    for f in facts_at(fn, c.block):
        if f[0] != "variant":
            continue
        path, variant = f[1], f[2]
        # (d) a local enum variable all of whose definitions in the no-schema arm are literal
        # aggregates of another variant
        m = re.match(r"^var:(\w+)", path)
        if m:
            nm = m.group(1)
            locs = [l for l, (ty, n2) in enumerate(fn.locals) if n2 == nm]
            for l in locs:
                defs = [d for d in fn.defs().get(l, []) if not d[3] and d[0] in fn.live_blocks()]
                ok = bool(defs)
                guarded_defs = 0
                for (b, i, rv, pj) in defs:
                    if rv[0] == "agg" and isinstance(rv[1], list) and rv[1][0] == "adt" and rv[1][2] != variant:
                        continue  # literal of another variant
                    pos, neg = evidence(prog, fn, b)
                    if pos:
                        guarded_defs += 1
                        continue
                    ok = False
                if ok and guarded_defs:
                    out.append("`%s` is %s only when produced under schema evidence (other definitions are literals of another variant)" % (nm, variant))
        # (e) result of a local callee that returns this variant only under schema evidence
        m = re.match(r"^call:(apollo_compiler::[^@]+)@(\d+)$", path)
        if m:
            callee = [x for x in prog.fns.values() if x.name == m.group(1)]
            if len(callee) == 1:
                g = callee[0]
                rets = []
                for b in g.live_blocks():
                    for s in g.stmts(b):
                        if s[0] == "=" and s[1][0] == 0 and not s[1][1] and s[2][0] == "agg" and isinstance(s[2][1], list) and s[2][1][0] == "adt" and s[2][1][2] == variant:
                            rets.append(b)
                    t = g.term(b)
                    if t[0] == "call" and t[3][0] == 0 and re.search(r"FromResidual", g.call_at(b).name):
                        rets.append(b)  # `?` early return
                if rets and all(evidence(prog, g, b)[0] for b in rets):
                    out.append("%s returns %s only under schema evidence" % (g.name.split("::")[-1], variant))
    return out


def run(prog, rep):
    if not hasattr(prog, "_adt_names"):
        prog._adt_names = {a["name"]: a for a in prog.adts.values()}
        prog._adt_by_name = lambda: prog._adt_names
    rule_subset(prog, rep)
    rule_guard(prog, rep)
    # the schema-less build must not drop parts of the document (a dropped `@include(if: $v)` turns
    # a used variable into an unused one): the lowering rule of C19, shared
    from .C19 import rule_fromast
    rule_fromast(prog, rep)
