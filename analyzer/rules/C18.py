"""C18 — Executable documents are typed consistently with the schema (DESIGN.md C18).

The validity guarantees (acyclic spreads, defined variables, leaf/composite selections) are
verdicts over documents and are NOT decided, with one exception that is visible in the shape of
the code: the per-operation scope of the fragment-validation memo (C18.MEMO)."""
import re

from ..core import Undecided
from ..flow import _strip, facts_at
from ..hirq import walk
from ..hirx import Scope, ancestors, calls, mcalls
from ..tables import enum_paths, return_value_on_path

CRATES = ["apollo_compiler"]
LEVEL = "other"
EXPLANATION = """
C18.FIELDDEF: in SelectionSet::extend_from_ast the definition handed to Field::new is, when a
schema is present, the result of schema.type_field(&self.ty, &ast.name) for the same `ast` whose
name becomes the field's name; Field::new stores that definition and types the sub-selection set
by definition.ty.inner_named_type(); sub-selections are converted into the new field's / inline
fragment's own selection set.  C18.INLINE: new_inline_fragment is Some(tc) -> typed by tc, None ->
typed by the parent's self.ty; the conversion passes ast.type_condition; Fragment::from_ast types
by the type condition and Operation::from_ast by schema.root_operation(operation_type).
C18.META: Schema::type_field as a decision table - explicit fields on Object/Interface only,
__typename on Object/Interface/Union, __schema/__type only when the type is the query root,
otherwise NoSuchField; unknown type -> NoSuchType.  C18.ONCE: root_fields / all_fields push a
named fragment's selections only when the fragment exists and fragments_seen.insert(..) is true;
all_fields additionally descends into non-empty field selection sets and root_fields never does;
inline fragments are always entered; exhausted iterators are popped.  C18.MEMO: the memo
`validated_fragments` of OperationValidationContext is valid for one `variables` slice only, so
`variables` is written nowhere but in the constructor that also creates the empty memo, and that
constructor is called once per operation.
"""

E = "apollo_compiler::executable::"


def _hb(prog, pat):
    fn = prog.fn(pat)
    return fn, prog.hir_body(fn)


def _ret(fn):
    rows = enum_paths(fn)
    return [(_strip(a), return_value_on_path(fn, p) or "") for a, _rb, p in rows]


def rule_fielddef(prog, rep):
    rep.floor("C18.FIELDDEF", 5)
    fn, hb = _hb(prog, r"^%sfrom_ast::<impl apollo_compiler::executable::SelectionSet>::extend_from_ast$" % E)
    sc = Scope(hb)
    fnew = calls(hb["body"], "executable::Field::new")
    if len(fnew) != 1:
        raise Undecided("extend_from_ast: expected one Field::new (found %d)" % len(fnew))
    k0, k1 = sc.key(fnew[0]["args"][0]), sc.key(fnew[0]["args"][1])
    m0 = re.fullmatch(r"(ast#\d+)\.name\.clone\(\)", k0)
    m1 = re.fullmatch(r"field_def#(\d+)", k1) or re.fullmatch(r"(\w+)#(\d+)", k1)
    ok = bool(m0 and m1)
    src = None
    if ok:
        did = int(k1.split("#")[1])
        # field_def is bound by the Ok(..) arm of a match on a local whose let is the schema lookup
        arms = []
        for n in walk(hb["body"]):
            if n.get("k") == "match":
                for arm in n["arms"]:
                    if any(q.get("k") == "bind" and q["id"] == did for q in walk(arm["pat"])):
                        arms.append((n, arm))
        ok = len(arms) == 1 and any(q.get("k") == "tstruct" and q["res"][2].endswith("Ok") for q in walk(arms[0][1]["pat"]))
        if ok:
            scr = arms[0][0]["scrut"]
            ok = scr.get("k") == "path" and scr["res"][0] == "local" and scr["res"][2] in sc.lets
            if ok:
                init = sc.lets[scr["res"][2]]["init"]
                ok = init.get("k") == "if" and init["cond"].get("k") == "let" and sc.key(init["cond"]["init"]) == "param:schema"
                if ok:
                    src = sc.key(init["then"])
                    want = r"s#\d+\.type_field\(param:self\.ty, %s\.name\)\.map\(<closure>\)" % re.escape(m0.group(1))
                    ok = re.fullmatch(want, src) is not None
                    if ok:
                        cl = [x for x in walk(init["then"]) if x.get("k") == "closure"]
                        ok = len(cl) == 1 and re.fullmatch(r"param:\w+\.node\.clone\(\)", Scope({"params": cl[0]["params"], "body": cl[0]["body"]}).key(cl[0]["body"])) is not None
    rep.obligation(ok)
    if ok:
        rep.instance("C18.FIELDDEF", "extend_from_ast: Field::new(ast.name, schema.type_field(&self.ty, &ast.name)) - definition looked up on the parent type for the same field")
    else:
        rep.finding("C18.FIELDDEF", fn.name, "definition", "the definition given to Field::new(%s, %s) is not schema.type_field(&self.ty, &<same ast>.name) (source: %s)" % (k0, k1, src), fn.loc())
    # sub-selections go to the new field's / fragment's own selection set
    was = mcalls(hb["body"], "with_ast_selections")
    ok = len(was) == 2
    for m in was:
        r = sc.key(m["recv"])
        a = [sc.key(x) for x in m["args"]]
        ast = re.search(r"(ast#\d+)", r)
        ok = ok and ast is not None and a == ["param:schema", "param:errors", ast.group(1) + ".selection_set"]
    rep.obligation(ok)
    if ok:
        rep.instance("C18.FIELDDEF", "extend_from_ast: the field's / inline fragment's own ast.selection_set is converted into its own selection set, with the same schema")
    else:
        rep.finding("C18.FIELDDEF", fn.name, "sub-selections", "sub-selections are converted from a different AST node or without the schema", fn.loc())
    for tyn in ("Field", "InlineFragment"):
        f = prog.fn(r"^%sfrom_ast::<impl apollo_compiler::executable::%s>::with_ast_selections$" % (E, tyn))
        cs = [c for c in f.live_calls() if c.name.endswith("SelectionSet>::extend_from_ast")]
        ok = len(cs) == 1 and [f.sym(a) for a in cs[0].args] == ["&arg1.selection_set", "arg2", "&arg3", "arg4"] or (len(cs) == 1 and [f.sym(a).lstrip("&") for a in cs[0].args] == ["arg1.selection_set", "arg2", "arg3", "arg4"])
        rep.obligation(ok)
        if ok:
            rep.instance("C18.FIELDDEF", "%s::with_ast_selections extends self.selection_set" % tyn)
        else:
            rep.finding("C18.FIELDDEF", f.name, "target", "%s::with_ast_selections does not extend its own selection set with the given selections" % tyn, f.loc())
    f = prog.fn(r"^%sField::new$" % E)
    rows = _ret(f)
    want = r"^Field::Field\{arg2, Option::None\{\}, arg1, Vec::new\(\), impls::new\(\), SelectionSet::new\(<Name as Clone>::clone\(&\*impls::inner_named_type\(&\*<Node<T> as Deref>::deref\(&arg2\)\.ty\)\)\)\}$"
    ok = len(rows) == 1 and re.match(want, rows[0][1]) is not None
    rep.obligation(ok)
    if ok:
        rep.instance("C18.FIELDDEF", "Field::new: definition stored; selection set typed by definition.ty.inner_named_type()")
    else:
        rep.finding("C18.FIELDDEF", f.name, "shape", "Field::new builds `%s`" % (rows[0][1] if rows else "?")[:200], f.loc())


def rule_inline(prog, rep):
    rep.floor("C18.INLINE", 6)
    f = prog.fn(r"^%sSelectionSet::new_inline_fragment$" % E)
    got = {}
    for atoms, rv in _ret(f):
        vs = [a for a in atoms if a[0] == "variant" and a[1] == "arg2"]
        if len(vs) == 1:
            got[vs[0][2]] = rv
    want = {"Some": "InlineFragment::with_type_condition(arg2.as:Some.0)", "None": "InlineFragment::without_type_condition(<Name as Clone>::clone(&arg1.ty))"}
    ok = got == want
    rep.obligation(ok)
    if ok:
        rep.instance("C18.INLINE", "new_inline_fragment: Some(tc) -> with_type_condition(tc); None -> without_type_condition(self.ty)")
    else:
        rep.finding("C18.INLINE", f.name, "table", "new_inline_fragment is %s" % got, f.loc())
    for nm, want in (("with_type_condition", r"^InlineFragment::InlineFragment\{Option::Some\{arg1\}, impls::new\(\), SelectionSet::new\(<Name as Clone>::clone\(&arg1\)\)\}$"),
                     ("without_type_condition", r"^InlineFragment::InlineFragment\{Option::None\{\}, impls::new\(\), SelectionSet::new\(arg1\)\}$")):
        g = prog.fn(r"^%sInlineFragment::%s$" % (E, nm))
        rows = _ret(g)
        ok = len(rows) == 1 and re.match(want, rows[0][1]) is not None
        rep.obligation(ok)
        if ok:
            rep.instance("C18.INLINE", "InlineFragment::%s types its selection set by its argument" % nm)
        else:
            rep.finding("C18.INLINE", g.name, "shape", "InlineFragment::%s builds `%s`" % (nm, (rows[0][1] if rows else "?")[:160]), g.loc())
    fn, hb = _hb(prog, r"^%sfrom_ast::<impl apollo_compiler::executable::SelectionSet>::extend_from_ast$" % E)
    sc = Scope(hb)
    nif = mcalls(hb["body"], "SelectionSet::new_inline_fragment")
    ok = len(nif) == 1 and sc.key(nif[0]["recv"]) == "param:self"
    if ok:
        a = nif[0]["args"][0]
        k = sc.key(a)
        m = re.fullmatch(r"opt_type_condition#(\d+)|\w+#(\d+)", k)
        ok = m is not None
        if ok:
            lid = int(k.split("#")[1])
            ok = lid in sc.lets and re.fullmatch(r"ast#\d+\.type_condition\.clone\(\)", sc.key(sc.lets[lid]["init"])) is not None
    rep.obligation(ok)
    if ok:
        rep.instance("C18.INLINE", "extend_from_ast: self.new_inline_fragment(ast.type_condition.clone())")
    else:
        rep.finding("C18.INLINE", fn.name, "condition", "inline fragments are not created from the parent selection set with the AST's own type condition", fn.loc())
    fr, hb = _hb(prog, r"^%sfrom_ast::<impl apollo_compiler::executable::Fragment>::from_ast$" % E)
    sc = Scope(hb)
    ss = calls(hb["body"], "SelectionSet::new")
    ok = len(ss) == 1 and sc.key(ss[0]["args"][0]) == "param:ast.type_condition.clone()"
    rep.obligation(ok)
    if ok:
        rep.instance("C18.INLINE", "Fragment::from_ast: selection set typed by ast.type_condition")
    else:
        rep.finding("C18.INLINE", fr.name, "type", "a named fragment's selection set is not typed by its type condition", fr.loc())
    op, hb = _hb(prog, r"^%sfrom_ast::<impl apollo_compiler::executable::Operation>::from_ast$" % E)
    sc = Scope(hb)
    ss = calls(hb["body"], "SelectionSet::new")
    ok = len(ss) == 1
    if ok:
        k = sc.key(ss[0]["args"][0])
        lid = int(k.split("#")[1]) if re.fullmatch(r"\w+#\d+", k) else None
        ok = lid in sc.lets
        if ok:
            init = sc.lets[lid]["init"]
            ok = init.get("k") == "if" and "root_operation(param:ast.operation_type)" in "".join(sc.key(x) for x in walk(init["then"]) if x.get("k") == "mcall")
    rep.obligation(ok)
    if ok:
        rep.instance("C18.INLINE", "Operation::from_ast: selection set typed by schema.root_operation(ast.operation_type)")
    else:
        rep.finding("C18.INLINE", op.name, "type", "an operation's selection set is not typed by the schema's root operation type for its operation type", op.loc())


def rule_meta(prog, rep):
    rep.floor("C18.META", 9)
    f = prog.fn(r"^apollo_compiler::schema::Schema::type_field$")
    # explicit field lookup per variant
    sw = [(b, f.switch_info(b)) for b in sorted(f.live_blocks())]
    sw = [(b, i) for b, i in sw if i and i.get("kind") == "enum" and i["adt"].endswith("schema::ExtendedType")]
    if not sw:
        raise Undecided("type_field: no match on ExtendedType")
    b0, info = sw[0]
    gets = [c for c in f.live_calls() if c.name.endswith("IndexMap::<K, V, S>::get")]
    per = {}
    for v in ("Scalar", "Object", "Interface", "Union", "Enum", "InputObject"):
        t = info["edges"].get(v, info["otherwise"])
        others = [x for vv, x in info["edges"].items() if x != t] + ([info["otherwise"]] if info["otherwise"] != t else [])
        # the arm ends where the arms join again: stop at the first block reachable from another edge
        reg = f.reachable_blocks([t], avoid=others)
        join = set()
        for o in others:
            join |= f.reachable_blocks([o])
        arm = [c for c in gets if c.block in reg and c.block not in join]
        per[v] = [re.sub(r".*\.as:%s\.0\)\." % v, "", f.sym(c.args[0])) + "|" + f.sym(c.args[1]).lstrip("&") for c in arm]
    want = {"Object": ["fields|arg3"], "Interface": ["fields|arg3"], "Scalar": [], "Union": [], "Enum": [], "InputObject": []}
    got = {k: [x.lstrip("&") for x in v] for k, v in per.items()}
    for v in want:
        ok = got.get(v) == want[v]
        rep.obligation(ok)
        if ok:
            rep.instance("C18.META", "type_field: %s -> %s" % (v, "fields.get(field_name)" if want[v] else "no explicit fields"))
        else:
            rep.finding("C18.META", f.name, "explicit:" + v, "explicit field lookup for %s is %s" % (v, got.get(v)), f.loc())
    # meta fields: the returns of &meta.X and the facts they are under
    body = prog.hir_body(f)
    sc = Scope(body)
    rets = [n for n in walk(body["body"]) if n.get("k") == "ret"]
    seen = {}
    for r in rets:
        k = sc.key(r["e"])
        m = re.fullmatch(r"Ok\(meta#\d+\.(__\w+)\)", k)
        if not m:
            continue
        anc = ancestors(body["body"], r)
        conds = []
        for a in anc:
            if a.get("k") == "if" and any(x is r for x in walk(a["then"])):
                conds.append(a["cond"])
            if a.get("k") == "match":
                for arm in a["arms"]:
                    if any(x is r for x in walk(arm["body"])):
                        lits = [q["v"] for q in walk(arm["pat"]) if q.get("k") == "lit"]
                        conds.append({"k": "lit-arm", "v": lits, "scrut": a["scrut"]})
        seen[m.group(1)] = conds
    # __typename
    c = seen.get("__typename")
    ok = False
    if c and len(c) == 1 and c[0].get("k") == "bin" and c[0]["op"] == "&&":
        a, b = c[0]["a"], c[0]["b"]
        ka = sc.key(a)
        vs = set()
        for q in walk(b):
            if q.get("k") in ("tstruct", "path") and q.get("res") and q["res"][0] == "def" and "ExtendedType::" in q["res"][2]:
                vs.add(q["res"][2].split("::")[-1])
        ok = ka in ("param:field_name == '__typename'", "param:field_name == \"__typename\"") or (a.get("k") == "bin" and a["op"] == "==" and sc.key(a["a"]) == "param:field_name" and a["b"].get("v") == "__typename")
        ok = ok and vs == {"Object", "Interface", "Union"}
    rep.obligation(ok)
    if ok:
        rep.instance("C18.META", "type_field: __typename on Object / Interface / Union only")
    else:
        rep.finding("C18.META", f.name, "__typename", "__typename is not offered on exactly Object, Interface and Union types", f.loc())
    for mf in ("__schema", "__type"):
        c = seen.get(mf)
        ok = False
        if c and len(c) == 2:
            root = [x for x in c if x.get("k") == "mcall"]
            lit = [x for x in c if x.get("k") == "lit-arm"]
            if len(root) == 1 and len(lit) == 1:
                kr = sc.key(root[0])
                ok = re.fullmatch(r"param:self\.schema_definition\.query\.as_ref\(\)\.is_some_and\(<closure>\)", kr) is not None
                cl = [x for x in walk(root[0]) if x.get("k") == "closure"]
                if ok and len(cl) == 1:
                    cb = cl[0]["body"]
                    ok = cb.get("k") == "bin" and cb["op"] == "==" and {Scope({"params": cl[0]["params"], "body": cb}).key(cb["a"]), sc.key(cb["b"])} == {"param:query_type", "param:type_name"}
                ok = ok and lit[0]["v"] == [mf] and sc.key(lit[0]["scrut"]) == "param:field_name"
        rep.obligation(ok)
        if ok:
            rep.instance("C18.META", "type_field: %s only when type_name is the schema's query root" % mf)
        else:
            rep.finding("C18.META", f.name, mf, "%s is not restricted to the query root type" % mf, f.loc())
    # fallthrough: NoSuchField ; missing type: NoSuchType
    errs = [s[2][1][2] for b in f.live_blocks() for s in f.stmts(b) if s[0] == "=" and s[2][0] == "agg" and isinstance(s[2][1], list) and s[2][1][0] == "adt" and s[2][1][1].endswith("FieldLookupError")]
    ok = sorted(set(errs)) == ["NoSuchField", "NoSuchType"]
    rep.obligation(ok)
    if ok:
        rep.instance("C18.META", "type_field: unknown type -> NoSuchType; otherwise -> NoSuchField")
    else:
        rep.finding("C18.META", f.name, "errors", "type_field's error cases are %s" % sorted(set(errs)), f.loc())


def rule_once(prog, rep):
    rep.floor("C18.ONCE", 8)
    for nm, descend in (("root_fields", False), ("all_fields", True)):
        outer = prog.fn(r"^%sSelectionSet::%s$" % (E, nm))
        cls = [g for g in prog.fns.values() if g.parent == outer.uid and g.kind == "closure"]
        if len(cls) != 1:
            raise Undecided("%s: expected one closure" % nm)
        g = cls[0]
        pushes = [c for c in g.live_calls() if c.name.endswith("Vec::<T, A>::push")]
        pops = [c for c in g.live_calls() if c.name.endswith("Vec::<T, A>::pop")]
        spread_p = [c for c in pushes if re.search(r"IndexMap::get\(.*\.fragments,.*\.fragment_name\)\.as:Some\.0\)\.selection_set\.selections", g.sym(c.args[1]))]
        inline_p = [c for c in pushes if ".as:InlineFragment.0" in g.sym(c.args[1])]
        field_p = [c for c in pushes if ".as:Field.0" in g.sym(c.args[1])]
        ok = len(spread_p) == 1
        if ok:
            fs = facts_at(g, spread_p[0].block)
            ins = [f for f in fs if f[0] == "callbool" and re.search(r"HashSet::<T, S(, A)?>::insert$", f[1]) and f[3] is True and "fragment_name" in g.sym(f[4].args[1])]
            found = [f for f in _strip(fs) if f[0] == "variant" and f[2] == "Some" and "IndexMap::<K, V, S>::get" in f[1]]
            ok = bool(ins) and bool(found)
        rep.obligation(ok)
        if ok:
            rep.instance("C18.ONCE", "%s: a named fragment's selections are pushed only if the fragment exists and fragments_seen.insert(name) is true" % nm)
        else:
            rep.finding("C18.ONCE", g.name, "spread", "%s can enter a named fragment more than once (or an undefined one): the push is not under `fragments_seen.insert(..) == true`" % nm, g.loc())
        ok = len(inline_p) == 1 and bool(re.search(r"\.as:InlineFragment\.0\)\.selection_set\.selections", g.sym(inline_p[0].args[1])))
        rep.obligation(ok)
        if ok:
            rep.instance("C18.ONCE", "%s: inline fragments are always entered (their own selections)" % nm)
        else:
            rep.finding("C18.ONCE", g.name, "inline", "%s does not enter inline fragments exactly once" % nm, g.loc())
        if descend:
            ok = len(field_p) == 1 and bool(re.search(r"\.as:Field\.0\)\.selection_set\.selections", g.sym(field_p[0].args[1])))
            what = "descends into a field's own sub-selections"
        else:
            ok = len(field_p) == 0
            what = "never descends into field sub-selections"
        rep.obligation(ok)
        if ok:
            rep.instance("C18.ONCE", "%s: %s" % (nm, what))
        else:
            rep.finding("C18.ONCE", g.name, "field", "%s no longer %s" % (nm, what), g.loc())
        # the field is yielded: a return of Some(field) on the Field edge
        rets = [(a, rv) for a, rv in [(x[0], x[1]) for x in _ret_cut(g)] if rv.startswith("Option::Some{") and ".as:Field.0" in rv]
        ok = bool(rets) and len(pops) == 1
        rep.obligation(ok)
        if ok:
            rep.instance("C18.ONCE", "%s: every field selection met is yielded; an exhausted iterator is popped" % nm)
        else:
            rep.finding("C18.ONCE", g.name, "yield", "%s does not yield the fields it meets (or never pops an exhausted iterator)" % nm, g.loc())


def _ret_cut(fn):
    rows = enum_paths(fn, inner_loops="cut")
    return [(_strip(a), return_value_on_path(fn, p) or "") for a, _rb, p in rows]


def rule_memo(prog, rep):
    rep.floor("C18.MEMO", 3)
    adt = prog.adt(r"^apollo_compiler::validation::OperationValidationContext$")
    fields = [f[0] for v in adt["variants"] for f in v["fields"]]
    if "variables" not in fields or "validated_fragments" not in fields:
        raise Undecided("OperationValidationContext no longer has `variables` and `validated_fragments`")
    iv, im = fields.index("variables"), fields.index("validated_fragments")
    ctor_sites = []
    writes = []
    for fn in prog.fns.values():
        if fn.crate != "apollo_compiler":
            continue
        for b in fn.live_blocks():
            for s in fn.stmts(b):
                if s[0] != "=":
                    continue
                if s[2][0] == "agg" and isinstance(s[2][1], list) and s[2][1][0] == "adt" and s[2][1][1].endswith("validation::OperationValidationContext"):
                    ctor_sites.append((fn, b, s))
                pl = s[1]
                if pl[1]:
                    # a projected write: is it <OperationValidationContext>.variables ?
                    last = pl[1][-1]
                    if isinstance(last, list) and last[0] == "f" and last[2] == "variables":
                        base_ty = fn.local_ty(pl[0])
                        if "OperationValidationContext" in base_ty:
                            writes.append((fn, b, s))
    ok = len(ctor_sites) == 1
    if ok:
        fn, b, s = ctor_sites[0]
        ops = s[2][2]
        memo = fn.sym(ops[im])
        ok = re.search(r"Default>::default\(\)$|HashSet::default\(\)$|HashSet::new\(\)$|default::Default::default\(\)$", memo) is not None and fn.sym(ops[iv]).lstrip("&") == "arg2"
    rep.obligation(ok)
    if ok:
        rep.instance("C18.MEMO", "OperationValidationContext is built in one place (%s) with the caller's variables and an empty validated_fragments memo" % ctor_sites[0][0].name.split("::")[-1])
    else:
        rep.finding("C18.MEMO", adt["name"], "constructor", "OperationValidationContext is built in %d places or not with an empty memo" % len(ctor_sites), None)
    rep.obligation(not writes)
    if writes:
        for fn, b, s in writes:
            rep.finding("C18.MEMO", fn.name, "variables-rewritten",
                        "`variables` of an existing OperationValidationContext is reassigned while `validated_fragments` keeps the fragments validated under the previous operation's variables: a fragment shared by two operations is checked against the first operation's variables only", fn.loc())
    else:
        rep.instance("C18.MEMO", "no assignment to OperationValidationContext.variables outside the constructor")
    # one context per operation: operation_context(&operation.variables) is called in validate_operation
    vo = prog.fn(r"^apollo_compiler::validation::operation::validate_operation$")
    oc = [c for c in vo.live_calls() if c.name.endswith("ExecutableValidationContext::<'a>::operation_context")]
    ok = len(oc) == 1 and re.search(r"arg3\.variables", vo.sym(oc[0].args[1])) is not None
    vod = prog.fn(r"^apollo_compiler::validation::operation::validate_operation_definitions$")
    inloop = [c for c in vod.live_calls() if c.uid == vo.uid and c.block in vod.reachable_blocks([c.target])]
    ok = ok and len(inloop) == 1
    rep.obligation(ok)
    if ok:
        rep.instance("C18.MEMO", "validate_operation creates its own context from operation.variables; it is called once per operation in a loop")
    else:
        rep.finding("C18.MEMO", vo.name, "per-operation", "the operation validation context is not created per operation from that operation's variables", vo.loc())


def run(prog, rep):
    rule_fielddef(prog, rep)
    rule_inline(prog, rep)
    rule_meta(prog, rep)
    rule_once(prog, rep)
    rule_memo(prog, rep)
    rep.note("acyclic spreads, defined variables, leaf/composite selection rules are validation verdicts and are not decided (except the memo scope, C18.MEMO)")
