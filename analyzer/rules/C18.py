"""C18 — Executable documents are typed consistently with the schema (DESIGN.md C18).

The validity guarantees (acyclic spreads, defined variables, leaf/composite selections) are
verdicts over documents and are NOT decided, with one exception that is visible in the shape of
the code: the per-operation scope of the fragment-validation memo (C18.MEMO)."""
import re

from ..core import Undecided
from ..flow import _strip, facts_at
from ..hirq import walk
from ..hirx import Scope, ancestors, calls, mcalls
from ..tables import enum_paths, return_value_on_path

CRATES = ["apollo_compiler"]
LEVEL = "other"
EXPLANATION = """
C18.FIELDDEF: in SelectionSet::extend_from_ast the definition handed to Field::new is, when a
schema is present, the result of schema.type_field(&self.ty, &ast.name) for the same `ast` whose
name becomes the field's name; Field::new stores that definition and types the sub-selection set
by definition.ty.inner_named_type(); sub-selections are converted into the new field's / inline
fragment's own selection set.  C18.INLINE: new_inline_fragment is Some(tc) -> typed by tc, None ->
typed by the parent's self.ty; the conversion passes ast.type_condition; Fragment::from_ast types
by the type condition and Operation::from_ast by schema.root_operation(operation_type).
C18.META: Schema::type_field as a decision table - explicit fields on Object/Interface only,
__typename on Object/Interface/Union, __schema/__type only when the type is the query root,
otherwise NoSuchField; unknown type -> NoSuchType.  C18.ONCE: root_fields / all_fields push a
named fragment's selections only when the fragment exists and fragments_seen.insert(..) is true;
all_fields additionally descends into non-empty field selection sets and root_fields never does;
inline fragments are always entered; exhausted iterators are popped.  C18.MEMO: the memo
`validated_fragments` of OperationValidationContext is valid for one `variables` slice only, so
`variables` is written nowhere but in the constructor that also creates the empty memo, and that
constructor is called once per operation.
"""

E = "apollo_compiler::executable::"


def _hb(prog, pat):
    fn = prog.fn(pat)
    return fn, prog.hir_body(fn)


def _ret(fn):
    rows = enum_paths(fn)
    return [(_strip(a), return_value_on_path(fn, p) or "") for a, _rb, p in rows]


def rule_fielddef(prog, rep):
    rep.floor("C18.FIELDDEF", 5)
    from ..flow import derives
    fn0 = prog.fn(r"^%sfrom_ast::<impl apollo_compiler::executable::SelectionSet>::extend_from_ast$" % E)
    # read on the resolved MIR with private helpers folded in (a per-selection helper such as
    # `extend_from_ast_field` is part of the same lowering)
    fn = prog.inline(fn0, keep=r"::(extend_from_ast|with_ast_selections|type_field|new|push|new_inline_fragment|new_fragment_spread)$")
    NODE = r"(<Iter<'a, T> as Iterator>::next\(.*?\)\.as:Some\.0\.as:(Field|InlineFragment|FragmentSpread)\.0)"
    fnew = [c for c in fn.live_calls() if c.name.endswith("executable::Field::new")]
    if not fnew:
        raise Undecided("extend_from_ast: no call of Field::new")
    ok = True
    why = ""
    for c in fnew:
        m0 = re.search(NODE + r"\)\.name\)$", fn.sym(c.args[0]))
        if not m0 or m0.group(2) != "Field":
            ok, why = False, "the name given to Field::new is `%s`" % fn.sym(c.args[0])[-80:]
            break
        _, via = derives(fn, c.args[1], maxn=2000)
        tf = [x for x in via if x.name.endswith("Schema::type_field")]
        if not tf:
            ok, why = False, "the definition given to Field::new does not come from Schema::type_field"
            break
        for x in tf:
            a1, a2 = fn.sym(x.args[1]), fn.sym(x.args[2])
            if not re.search(r"&arg1\.ty\)?$", a1) or not (m0.group(1) in a2 and re.search(r"\)\.name\)$", a2)):
                ok, why = False, "Schema::type_field is asked for (%s, %s)" % (a1[-40:], a2[-60:])
    rep.obligation(ok)
    if ok:
        rep.instance("C18.FIELDDEF", "extend_from_ast: Field::new(ast.name, schema.type_field(&self.ty, &ast.name)) - definition looked up on the parent type for the same field")
    else:
        rep.finding("C18.FIELDDEF", fn.name, "definition", "the definition given to Field::new is not schema.type_field(&self.ty, &<same ast>.name): %s" % why, fn.loc())
    # sub-selections go to the new field's / fragment's own selection set
    was = [c for c in fn.live_calls() if c.name.endswith("::with_ast_selections")]
    kinds = set()
    ok = len(was) >= 2
    for c in was:
        r = re.search(NODE, fn.sym(c.args[0]))
        a3 = re.search(NODE + r"\)\.selection_set\)?$", fn.sym(c.args[3]))
        same = bool(r and a3 and r.group(1) == a3.group(1))
        ok = ok and same and fn.sym(c.args[1]).lstrip("&") == "arg2" and fn.sym(c.args[2]).lstrip("&") == "arg3"
        if r:
            kinds.add(r.group(2))
    ok = ok and kinds == {"Field", "InlineFragment"}
    rep.obligation(ok)
    if ok:
        rep.instance("C18.FIELDDEF", "extend_from_ast: the field's / inline fragment's own ast.selection_set is converted into its own selection set, with the same schema")
    else:
        rep.finding("C18.FIELDDEF", fn.name, "sub-selections", "sub-selections are converted from a different AST node or without the schema", fn.loc())
    for tyn in ("Field", "InlineFragment"):
        f = prog.fn(r"^%sfrom_ast::<impl apollo_compiler::executable::%s>::with_ast_selections$" % (E, tyn))
        cs = [c for c in f.live_calls() if c.name.endswith("SelectionSet>::extend_from_ast")]
        ok = len(cs) == 1 and [f.sym(a) for a in cs[0].args] == ["&arg1.selection_set", "arg2", "&arg3", "arg4"] or (len(cs) == 1 and [f.sym(a).lstrip("&") for a in cs[0].args] == ["arg1.selection_set", "arg2", "arg3", "arg4"])
        rep.obligation(ok)
        if ok:
            rep.instance("C18.FIELDDEF", "%s::with_ast_selections extends self.selection_set" % tyn)
        else:
            rep.finding("C18.FIELDDEF", f.name, "target", "%s::with_ast_selections does not extend its own selection set with the given selections" % tyn, f.loc())
    f = prog.fn(r"^%sField::new$" % E)
    rows = _ret(f)
    want = r"^Field::Field\{arg2, Option::None\{\}, arg1, Vec::new\(\), impls::new\(\), SelectionSet::new\(<Name as Clone>::clone\(&\*impls::inner_named_type\(&\*<Node<T> as Deref>::deref\(&arg2\)\.ty\)\)\)\}$"
    ok = len(rows) == 1 and re.match(want, rows[0][1]) is not None
    rep.obligation(ok)
    if ok:
        rep.instance("C18.FIELDDEF", "Field::new: definition stored; selection set typed by definition.ty.inner_named_type()")
    else:
        rep.finding("C18.FIELDDEF", f.name, "shape", "Field::new builds `%s`" % (rows[0][1] if rows else "?")[:200], f.loc())


def rule_inline(prog, rep):
    rep.floor("C18.INLINE", 6)
    f = prog.fn(r"^%sSelectionSet::new_inline_fragment$" % E)
    got = {}
    for atoms, rv in _ret(f):
        vs = [a for a in atoms if a[0] == "variant" and a[1] == "arg2"]
        if len(vs) == 1:
            got[vs[0][2]] = rv
    want = {"Some": "InlineFragment::with_type_condition(arg2.as:Some.0)", "None": "InlineFragment::without_type_condition(<Name as Clone>::clone(&arg1.ty))"}
    ok = got == want
    rep.obligation(ok)
    if ok:
        rep.instance("C18.INLINE", "new_inline_fragment: Some(tc) -> with_type_condition(tc); None -> without_type_condition(self.ty)")
    else:
        rep.finding("C18.INLINE", f.name, "table", "new_inline_fragment is %s" % got, f.loc())
    for nm, want in (("with_type_condition", r"^InlineFragment::InlineFragment\{Option::Some\{arg1\}, impls::new\(\), SelectionSet::new\(<Name as Clone>::clone\(&arg1\)\)\}$"),
                     ("without_type_condition", r"^InlineFragment::InlineFragment\{Option::None\{\}, impls::new\(\), SelectionSet::new\(arg1\)\}$")):
        g = prog.fn(r"^%sInlineFragment::%s$" % (E, nm))
        rows = _ret(g)
        ok = len(rows) == 1 and re.match(want, rows[0][1]) is not None
        rep.obligation(ok)
        if ok:
            rep.instance("C18.INLINE", "InlineFragment::%s types its selection set by its argument" % nm)
        else:
            rep.finding("C18.INLINE", g.name, "shape", "InlineFragment::%s builds `%s`" % (nm, (rows[0][1] if rows else "?")[:160]), g.loc())
    # read on the resolved MIR (helpers folded in): the spelling of the surrounding `if let` /
    # `match` / temporaries does not matter
    from ..flow import derives
    fn0 = prog.fn(r"^%sfrom_ast::<impl apollo_compiler::executable::SelectionSet>::extend_from_ast$" % E)
    fn = prog.inline(fn0, keep=r"::(extend_from_ast|with_ast_selections|type_field|new|push|new_inline_fragment|new_fragment_spread)$")
    nif = [c for c in fn.live_calls() if c.name.endswith("SelectionSet::new_inline_fragment")]
    ok = len(nif) >= 1
    for c in nif:
        ok = ok and fn.sym(c.args[0]).lstrip("&") == "arg1" and re.search(r"\.as:InlineFragment\.0\)\.type_condition\)$", fn.sym(c.args[1])) is not None
    rep.obligation(ok)
    if ok:
        rep.instance("C18.INLINE", "extend_from_ast: self.new_inline_fragment(ast.type_condition.clone())")
    else:
        rep.finding("C18.INLINE", fn.name, "condition", "inline fragments are not created from the parent selection set with the AST's own type condition", fn.loc())
    fr = prog.inline(prog.fn(r"^%sfrom_ast::<impl apollo_compiler::executable::Fragment>::from_ast$" % E), keep=r"::(extend_from_ast|new)$")
    ss = [c for c in fr.live_calls() if c.name.endswith("executable::SelectionSet::new")]
    ok = len(ss) == 1 and re.fullmatch(r"<Name as Clone>::clone\(&\(?\*?arg3\)?\.type_condition\)", fr.sym(ss[0].args[0])) is not None
    rep.obligation(ok)
    if ok:
        rep.instance("C18.INLINE", "Fragment::from_ast: selection set typed by ast.type_condition")
    else:
        rep.finding("C18.INLINE", fr.name, "type", "a named fragment's selection set is not typed by its type condition (`%s`)" % (fr.sym(ss[0].args[0])[:80] if ss else "no SelectionSet::new"), fr.loc())
    op = prog.inline(prog.fn(r"^%sfrom_ast::<impl apollo_compiler::executable::Operation>::from_ast$" % E), keep=r"::(extend_from_ast|new|root_operation|default_type_name)$")
    ss = [c for c in op.live_calls() if c.name.endswith("executable::SelectionSet::new")]
    ok = len(ss) == 1
    if ok:
        _, via = derives(op, ss[0].args[0], maxn=1500)
        ro = [x for x in via if x.name.endswith("Schema::root_operation")]
        ok = len(ro) >= 1 and all(re.search(r"arg3\)?\.operation_type$", op.sym(x.args[1])) and re.search(r"arg1", op.sym(x.args[0])) for x in ro)
    rep.obligation(ok)
    if ok:
        rep.instance("C18.INLINE", "Operation::from_ast: selection set typed by schema.root_operation(ast.operation_type)")
    else:
        rep.finding("C18.INLINE", op.name, "type", "an operation's selection set is not typed by the schema's root operation type for its operation type", op.loc())


EXT_VARIANTS = ("Scalar", "Object", "Interface", "Union", "Enum", "InputObject")


def _meta_atom(f, clo_ok):
    """classify one edge fact of type_field -> (variable, predicate over its value)"""
    k = f[0]
    if k in ("variant", "variant_in"):
        names = (f[2],) if k == "variant" else tuple(f[2])
        path = f[1]
        if all(n in EXT_VARIANTS for n in names):
            return "V", (lambda v, ns=names: v in ns)
        if all(n in ("Continue", "Break") for n in names):
            return "found", (lambda v, ns=names: ("Continue" if v else "Break") in ns)
        if all(n in ("Some", "None") for n in names):
            if "schema_definition.query" in path:
                return "query", (lambda v, ns=names: v in ns)
            if re.search(r"::get_key_value@\d+$", path):
                return "found", (lambda v, ns=names: ("Some" if v else "None") in ns)
            if re.search(r"^var:|IndexMap::<K, V, S>::get@\d+$|::get@\d+$", path):
                return "explicit", (lambda v, ns=names: v in ns)
        if all(n in ("Ok", "Err") for n in names) and re.search(r"ok_or@\d+$", path):
            return "found", (lambda v, ns=names: ("Ok" if v else "Err") in ns)
    if k == "callbool":
        name, args, val = f[1], f[2], f[3]
        if re.search(r"PartialEq.*::eq$", name) and len(args) == 2:
            lits = [re.search(r'"(\w+)"', a or "") for a in args]
            others = [a for a, l in zip(args, lits) if not l]
            lit = [l.group(1) for l in lits if l]
            if len(lit) == 1 and others == ["arg3"]:
                return "name", (lambda v, x=lit[0], val=val: (v == x) == val)
            if sorted(a or "" for a in args) == sorted(["arg1.schema_definition.query.as:Some.0", "arg2"]) or sorted((a or "").lstrip("&*") for a in args) == ["arg1.schema_definition.query.as:Some.0", "arg2"]:
                return "rooteq", (lambda v, val=val: v == val)
        if re.search(r"Option::<T>::is_some_and$", name) and args and args[0] == "arg1.schema_definition.query":
            if not clo_ok(f):
                raise Undecided("type_field: is_some_and closure is not `query_type == type_name`")
            return "isa", (lambda v, val=val: v == val)
    raise Undecided("type_field: unrecognised condition %s" % (f[:4],))


def rule_meta(prog, rep):
    """Schema::type_field read as a decision table over (type kind, explicit field present, field
    name, type is the query root): every row of the table is looked up among the function's CFG
    paths (atoms = the conditions the path took), so the rule does not depend on how the function
    spells the decisions."""
    rep.floor("C18.META", 9)
    f = prog.fn(r"^apollo_compiler::schema::Schema::type_field$")
    from ..flow import closure_captures

    def clo_ok(fact):
        call = fact[4] if len(fact) > 4 else None
        if call is None:
            return False
        uid, caps = closure_captures(f, call.args[1])
        if uid is None or caps != ["arg2"]:
            return False
        clo = prog.fns[uid]
        leaves = set(return_value_on_path(clo, p) for _a, _r, p in enum_paths(clo))
        return len(leaves) == 1 and all(re.search(r"(^|::)eq\(&?\*?arg2, &?\*?arg1\.0\)$|(^|::)eq\(&?\*?arg1\.0, &?\*?arg2\)$", x or "") for x in leaves)

    paths = []
    for atoms, rb, path in enum_paths(f):
        preds = []
        for fa in atoms:
            fs = _strip([fa])[0]
            var, pred = _meta_atom(fa if fa[0] == "callbool" else fs, clo_ok)
            preds.append((var, pred))
        val = return_value_on_path(f, path) or ""
        m = re.match(r"Result::Ok\{&\*?MetaFieldDefinitions::get\(\)\.(__\w+)\}$", val)
        if m:
            leaf = "meta:" + m.group(1)
        elif re.match(r"Result::Ok\{", val) and re.search(r"IndexMap::get\(.*IndexMap::get_key_value\(&arg1\.types, &arg2\).*\.as:(Object|Interface)\.0\)\.fields, &arg3\)", val):
            leaf = "explicit:" + re.search(r"\.as:(Object|Interface)\.0\)\.fields", val).group(1)
        elif "NoSuchType" in val and "NoSuchField" not in val:
            leaf = "NoSuchType"
        elif re.match(r"Result::Err\{FieldLookupError::NoSuchField\{", val):
            leaf = "NoSuchField"
        else:
            leaf = "?" + val[:100]
        paths.append((preds, leaf))
    NAMES = ("__typename", "__schema", "__type", "other")
    bad = {}
    nrows = 0
    import itertools
    for V, found, explicit, name, query, rooteq in itertools.product(EXT_VARIANTS, (True, False), ("Some", "None"), NAMES, ("Some", "None"), (True, False)):
        root = query == "Some" and rooteq
        env = {"V": V, "found": found, "explicit": explicit, "name": name, "query": query, "rooteq": rooteq, "isa": root}
        leaves = set(leaf for preds, leaf in paths if all(pred(env[var]) for var, pred in preds))
        if not found:
            want = "NoSuchType"
        elif V in ("Object", "Interface") and explicit == "Some":
            want = "explicit:" + V
        elif name == "__typename" and V in ("Object", "Interface", "Union"):
            want = "meta:__typename"
        elif name in ("__schema", "__type") and root:
            want = "meta:" + name
        else:
            want = "NoSuchField"
        nrows += 1
        ok = leaves == {want}
        if not leaves and explicit == "Some" and V not in ("Object", "Interface"):
            # no path at all: the code knows that only Object / Interface have explicit fields (the
            # other arms yield a constant None), so this combination does not exist
            ok = True
        rep.obligation(ok)
        if not ok:
            if not found:
                key = "errors"
            elif want.startswith("explicit") or any(l.startswith("explicit") for l in leaves):
                key = "explicit:" + V
            elif name != "other":
                key = name
            else:
                key = "errors"
            bad.setdefault(key, []).append((env, sorted(leaves), want))
    for key, rows in sorted(bad.items()):
        env, leaves, want = rows[0]
        rep.finding("C18.META", f.name, key,
                    "type_field decision table: for type kind %s, type %s, explicit field %s, field name %s, query root %s the result is %s, expected %s (%d rows differ)" % (
                        env["V"], "found" if env["found"] else "missing", env["explicit"], env["name"], env["isa"], leaves or "no path", want, len(rows)), f.loc())
    summary = [
        ("explicit:Object", "type_field: Object -> fields.get(field_name)"),
        ("explicit:Interface", "type_field: Interface -> fields.get(field_name)"),
        ("explicit:Scalar", "type_field: Scalar -> no explicit fields"),
        ("explicit:Union", "type_field: Union -> no explicit fields"),
        ("explicit:Enum", "type_field: Enum -> no explicit fields"),
        ("explicit:InputObject", "type_field: InputObject -> no explicit fields"),
        ("__typename", "type_field: __typename on Object / Interface / Union only"),
        ("__schema", "type_field: __schema only when type_name is the schema's query root"),
        ("__type", "type_field: __type only when type_name is the schema's query root"),
        ("errors", "type_field: unknown type -> NoSuchType; otherwise -> NoSuchField"),
    ]
    for key, text in summary:
        if key not in bad:
            rep.instance("C18.META", text)
    rep.note("C18.META: %d rows of the decision table looked up among %d CFG paths" % (nrows, len(paths)))


def rule_once(prog, rep):
    rep.floor("C18.ONCE", 8)
    for nm, descend in (("root_fields", False), ("all_fields", True)):
        outer = prog.fn(r"^%sSelectionSet::%s$" % (E, nm))
        cls = [g for g in prog.fns.values() if g.parent == outer.uid and g.kind == "closure"]
        if len(cls) != 1:
            raise Undecided("%s: expected one closure" % nm)
        g = cls[0]
        pushes = [c for c in g.live_calls() if c.name.endswith("Vec::<T, A>::push")]
        pops = [c for c in g.live_calls() if c.name.endswith("Vec::<T, A>::pop")]
        spread_p = [c for c in pushes if re.search(r"IndexMap::get\(.*\.fragments,.*\.fragment_name\)\.as:Some\.0\)\.selection_set\.selections", g.sym(c.args[1]))]
        inline_p = [c for c in pushes if ".as:InlineFragment.0" in g.sym(c.args[1])]
        field_p = [c for c in pushes if ".as:Field.0" in g.sym(c.args[1])]
        ok = len(spread_p) == 1
        if ok:
            fs = facts_at(g, spread_p[0].block)
            ins = [f for f in fs if f[0] == "callbool" and re.search(r"HashSet::<T, S(, A)?>::insert$", f[1]) and f[3] is True and "fragment_name" in g.sym(f[4].args[1])]
            found = [f for f in _strip(fs) if f[0] == "variant" and f[2] == "Some" and "IndexMap::<K, V, S>::get" in f[1]]
            ok = bool(ins) and bool(found)
        rep.obligation(ok)
        if ok:
            rep.instance("C18.ONCE", "%s: a named fragment's selections are pushed only if the fragment exists and fragments_seen.insert(name) is true" % nm)
        else:
            rep.finding("C18.ONCE", g.name, "spread", "%s can enter a named fragment more than once (or an undefined one): the push is not under `fragments_seen.insert(..) == true`" % nm, g.loc())
        ok = len(inline_p) == 1 and bool(re.search(r"\.as:InlineFragment\.0\)\.selection_set\.selections", g.sym(inline_p[0].args[1])))
        rep.obligation(ok)
        if ok:
            rep.instance("C18.ONCE", "%s: inline fragments are always entered (their own selections)" % nm)
        else:
            rep.finding("C18.ONCE", g.name, "inline", "%s does not enter inline fragments exactly once" % nm, g.loc())
        if descend:
            ok = len(field_p) == 1 and bool(re.search(r"\.as:Field\.0\)\.selection_set\.selections", g.sym(field_p[0].args[1])))
            what = "descends into a field's own sub-selections"
        else:
            ok = len(field_p) == 0
            what = "never descends into field sub-selections"
        rep.obligation(ok)
        if ok:
            rep.instance("C18.ONCE", "%s: %s" % (nm, what))
        else:
            rep.finding("C18.ONCE", g.name, "field", "%s no longer %s" % (nm, what), g.loc())
        # the field is yielded: a return of Some(field) on the Field edge
        rets = [(a, rv) for a, rv in [(x[0], x[1]) for x in _ret_cut(g)] if rv.startswith("Option::Some{") and ".as:Field.0" in rv]
        ok = bool(rets) and len(pops) == 1
        rep.obligation(ok)
        if ok:
            rep.instance("C18.ONCE", "%s: every field selection met is yielded; an exhausted iterator is popped" % nm)
        else:
            rep.finding("C18.ONCE", g.name, "yield", "%s does not yield the fields it meets (or never pops an exhausted iterator)" % nm, g.loc())


def _ret_cut(fn):
    rows = enum_paths(fn, inner_loops="cut")
    return [(_strip(a), return_value_on_path(fn, p) or "") for a, _rb, p in rows]


def rule_memo(prog, rep):
    rep.floor("C18.MEMO", 3)
    adt = prog.adt(r"^apollo_compiler::validation::OperationValidationContext$")
    fields = [f[0] for v in adt["variants"] for f in v["fields"]]
    if "variables" not in fields or "validated_fragments" not in fields:
        raise Undecided("OperationValidationContext no longer has `variables` and `validated_fragments`")
    iv, im = fields.index("variables"), fields.index("validated_fragments")
    ctor_sites = []
    writes = []
    for fn in prog.fns.values():
        if fn.crate != "apollo_compiler":
            continue
        for b in fn.live_blocks():
            for s in fn.stmts(b):
                if s[0] != "=":
                    continue
                if s[2][0] == "agg" and isinstance(s[2][1], list) and s[2][1][0] == "adt" and s[2][1][1].endswith("validation::OperationValidationContext"):
                    ctor_sites.append((fn, b, s))
                pl = s[1]
                if pl[1]:
                    # a projected write: is it <OperationValidationContext>.variables ?
                    last = pl[1][-1]
                    if isinstance(last, list) and last[0] == "f" and last[2] == "variables":
                        base_ty = fn.local_ty(pl[0])
                        if "OperationValidationContext" in base_ty:
                            writes.append((fn, b, s))
    ok = len(ctor_sites) == 1
    if ok:
        fn, b, s = ctor_sites[0]
        ops = s[2][2]
        memo = fn.sym(ops[im])
        ok = re.search(r"Default>::default\(\)$|HashSet::default\(\)$|HashSet::new\(\)$|default::Default::default\(\)$", memo) is not None and fn.sym(ops[iv]).lstrip("&") == "arg2"
    rep.obligation(ok)
    if ok:
        rep.instance("C18.MEMO", "OperationValidationContext is built in one place (%s) with the caller's variables and an empty validated_fragments memo" % ctor_sites[0][0].name.split("::")[-1])
    else:
        rep.finding("C18.MEMO", adt["name"], "constructor", "OperationValidationContext is built in %d places or not with an empty memo" % len(ctor_sites), None)
    rep.obligation(not writes)
    if writes:
        for fn, b, s in writes:
            rep.finding("C18.MEMO", fn.name, "variables-rewritten",
                        "`variables` of an existing OperationValidationContext is reassigned while `validated_fragments` keeps the fragments validated under the previous operation's variables: a fragment shared by two operations is checked against the first operation's variables only", fn.loc())
    else:
        rep.instance("C18.MEMO", "no assignment to OperationValidationContext.variables outside the constructor")
    # one context per operation: operation_context(&operation.variables) is called in validate_operation
    vo = prog.fn(r"^apollo_compiler::validation::operation::validate_operation$")
    oc = [c for c in vo.live_calls() if c.name.endswith("ExecutableValidationContext::<'a>::operation_context")]
    ok = len(oc) == 1 and re.search(r"arg3\.variables", vo.sym(oc[0].args[1])) is not None
    vod = prog.fn(r"^apollo_compiler::validation::operation::validate_operation_definitions$")
    inloop = [c for c in vod.live_calls() if c.uid == vo.uid and c.block in vod.reachable_blocks([c.target])]
    ok = ok and len(inloop) == 1
    rep.obligation(ok)
    if ok:
        rep.instance("C18.MEMO", "validate_operation creates its own context from operation.variables; it is called once per operation in a loop")
    else:
        rep.finding("C18.MEMO", vo.name, "per-operation", "the operation validation context is not created per operation from that operation's variables", vo.loc())


def rule_valtype(prog, rep):
    """C18.VALTYPE: the type an inline fragment's selections are *validated* against.  With a type
    condition it is that type; without one it is the parent's type, handed to
    validate_inline_fragment by its caller - exactly as the built document types it (C18.INLINE).
    If the fallback to the parent type is lost, `... { composite }` and `... @skip(..) { f(arg: $undefined) }`
    are validated against no type at all and pass."""
    rep.floor("C18.VALTYPE", 1)
    f = prog.fn(r"^apollo_compiler::validation::fragment::validate_inline_fragment$")
    hb = prog.hir_body(f)
    parent = None
    for i, p in enumerate(hb["params"]):
        if p.get("k") == "bind" and re.search(r"Option<\(&.*Schema, &.*Name(dType)?\)>|Option<\(&'\w+ .*Schema", p.get("ty") or ""):
            parent = "arg%d" % (i + 1)
    if parent is None:
        raise Undecided("validate_inline_fragment: the parent-type parameter (Option<(&Schema, &NamedType)>) was not found")
    vals = set()
    n = 0
    for atoms, _e, path in enum_paths(f, inner_loops="cut"):
        for b in path:
            c = f.call_at(b)
            if c is not None and c.name.endswith("selection::validate_selection_set") and len(c.args) >= 3:
                n += 1
                vals.add(re.sub(r"[&*]", "", f.sym_on_path(c.args[2], path)))
    if not n:
        raise Undecided("validate_inline_fragment: call to validate_selection_set not found")
    own = any("type_condition" in v for v in vals)
    fallback = parent in vals
    ok = own and fallback
    rep.obligation(ok)
    if ok:
        rep.instance("C18.VALTYPE", "validate_inline_fragment: selections are validated against the type condition when there is one (and a schema), otherwise against the parent type passed in")
    else:
        rep.finding("C18.VALTYPE", f.name, "parent-fallback" if own else "type-condition",
                    "the selections of an inline fragment are validated against %s only; %s: fields under such a fragment are not checked against any type (missing sub-selections, undefined variables in arguments pass)" % (
                        sorted(v[:90] for v in vals), "the parent type (`%s`) is never passed on for a fragment without a type condition" % parent if own else "the fragment's own type condition is never used"), f.loc())


def run(prog, rep):
    rule_fielddef(prog, rep)
    rule_inline(prog, rep)
    rule_meta(prog, rep)
    rule_once(prog, rep)
    rule_memo(prog, rep)
    rule_valtype(prog, rep)
    # `in a valid document spreads are acyclic`: the completeness conditions of the cycle search
    # (no Ok from inside the sibling loop; visited-set fresh per root) are shared with C21
    from .C21 import rule_search
    rule_search(prog, rep)
    rep.note("acyclic spreads, defined variables, leaf/composite selection rules are validation verdicts and are not decided (except the memo scope, C18.MEMO, and the completeness conditions of the fragment-cycle search, C21.SEARCH)")
