"""C01 — Parsing never panics, hangs or overflows the stack (DESIGN.md section 4, C01)."""
import re

from ..core import AnchorError, norm_path, op_const, op_local, op_place
from ..flow import arg_path_s, branch_on_call, facts_at, has_fact, must_pass
from . import parser_common as PC

CRATES = ["apollo_parser", "apollo_compiler"]
LEVEL = "other"
EXPLANATION = """
C01.CUT: every recursive cycle of apollo-parser's call graph reachable from the parse/lex entry
points passes a call site that lies on the not-reached side of a recursion-limit check (and before
the matching decrement) - so recursion depth is bounded by the limit.  C01.PROGRESS: every path
through a peek_while callable that returns Continue, every path through a peek_while_kind
callable, and every cycle of every loop in the reachable parser/lexer code contains a call that
can consume input (no trivially non-progressing loop path).  C01.ROOT: each entry grammar function
opens its root node on every path and before anything that can emit a token (rowan's builder
panics otherwise).  C01.POP: every Parser::pop is dominated by a successful peek with no
consuming call in between (pop is the one place that expects a token).  C01.INV (thorough): the
panic-capable sites reachable from the entries equal a reviewed inventory.
Decides the stack clause relative to the recursion limit, absence of trivially non-terminating
loop paths and the enumerated panic sites; does not decide termination in general.
"""


def rule_cut(prog, rep):
    ents = PC.entries(prog)
    R = set(u for u in prog.reachable(ents) if prog.fns[u].crate == "apollo_parser")
    sccs = prog.sccs(R)
    rep.floor("C01.CUT", 3)
    guarded = PC.guarded_call_blocks(prog)
    cg = prog.callgraph()

    def keep(u, v, sites):
        # keep the edge only if some site creating it is NOT guarded
        g = guarded.get(u, set())
        return any(b not in g for (_k, b) in sites)

    for scc in sccs:
        nodes = set(scc)
        rest = prog.sccs(nodes, edge_filter=keep)
        names = [prog.fns[u].name.split("grammar::")[-1] for u in scc]
        cut_edges = []
        for u in scc:
            for v, sites in cg[u].items():
                if v in nodes and not keep(u, v, sites):
                    cut_edges.append("%s->%s" % (prog.fns[u].name.split("::")[-1], prog.fns[v].name.split("::")[-1]))
        if rest:
            for r in rest:
                rn = [prog.fns[u].name for u in r]
                f0 = prog.fns[r[0]]
                rep.finding("C01.CUT", f0.name, "unguarded-cycle:" + "+".join(sorted(x.split("::")[-1] for x in rn)),
                            "recursive cycle {%s} has no recursion-limit check on it: nesting depth is unbounded (stack overflow)" % ", ".join(rn),
                            f0.loc(), {"cycle": rn})
        rep.instance("C01.CUT", "SCC {%s}: guarded edges %s; residual cycles after removing guarded edges: %d" % (", ".join(names), sorted(set(cut_edges)), len(rest)))
    rep.extra["parser_reachable_functions"] = len(R)


def _callable_of(prog, fn, call, idx):
    """resolve the closure / fn item passed as argument idx of call"""
    a = call.args[idx]
    c = op_const(a)
    if c is not None:
        f = c[2].get("fn_resolved") or c[2].get("fn")
        return prog.fns.get(f)
    l = op_local(a)
    if l is None:
        return None
    sd = fn.single_def(l)
    if sd and sd[2][0] == "agg" and isinstance(sd[2][1], list) and sd[2][1][0] == "closure":
        return prog.fns.get(sd[2][1][1])
    if sd and sd[2][0] == "use":
        l2 = op_local(sd[2][1])
        if l2 is not None:
            sd2 = fn.single_def(l2)
            if sd2 and sd2[2][0] == "agg" and isinstance(sd2[2][1], list) and sd2[2][1][0] == "closure":
                return prog.fns.get(sd2[2][1][1])
    return None


def rule_progress(prog, rep):
    ents = PC.entries(prog)
    R = set(u for u in prog.reachable(ents) if prog.fns[u].crate == "apollo_parser")
    mc = PC.may_consume(prog)
    rep.floor("C01.PROGRESS.peek_while", 8)
    rep.floor("C01.PROGRESS.peek_while_kind", 7)
    rep.floor("C01.PROGRESS.loop", 7)
    pw = prog.fn(r"parser::Parser::<'input>::peek_while$")
    pwk = prog.fn(r"parser::Parser::<'input>::peek_while_kind$")
    psl = prog.fn(r"parser::Parser::<'input>::parse_separated_list$")
    for u in sorted(R):
        fn = prog.fns[u]
        for c in fn.live_calls():
            if c.uid == pw.uid:
                cal = _callable_of(prog, fn, c, 1)
                if cal is None:
                    if fn.uid == psl.uid:
                        continue
                    rep.fail("UNDECIDED rule=C01.PROGRESS %s: cannot resolve the callable passed to peek_while" % c.loc())
                    continue
                _check_peek_while(prog, rep, cal, mc, c)
            elif c.uid == pwk.uid:
                cal = _callable_of(prog, fn, c, 2)
                if cal is None:
                    rep.fail("UNDECIDED rule=C01.PROGRESS %s: cannot resolve the callable passed to peek_while_kind" % c.loc())
                    continue
                _check_all_paths_consume(prog, rep, cal, mc, c, "C01.PROGRESS.peek_while_kind")
    # loops
    for u in sorted(R):
        fn = prog.fns[u]
        headers = set()
        for b in fn.live_blocks():
            for s in fn.succs()[b]:
                if fn.dominates(s, b):
                    headers.add(s)
        for h in sorted(headers):
            prog_blocks = set()
            kinds = set()
            for c in fn.live_calls():
                k = PC.progress_kind(prog, c, mc)
                if k:
                    prog_blocks.add(c.block)
                    kinds.add(k)
            starts = [s for s in fn.succs()[h]] if h not in prog_blocks else []
            reach = fn.reachable_blocks(starts, avoid=prog_blocks)
            if h in reach and h not in prog_blocks:
                # find a witness latch
                rep.finding("C01.PROGRESS.loop", fn.name, "loop@header-ordinal-%d" % sorted(headers).index(h),
                            "a cycle of this loop contains no call that consumes input or advances a finite iterator: it can spin forever",
                            fn.loc(), {"header_block": h})
            rep.instance("C01.PROGRESS.loop", "%s loop header bb%d: every cycle passes one of %s" % (fn.name, h, sorted(kinds)))


def _ret_assignments(fn):
    """(block, rvalue) for every assignment to the return place"""
    out = []
    for b in sorted(fn.live_blocks()):
        for s in fn.stmts(b):
            if s[0] == "=" and s[1][0] == 0 and not s[1][1]:
                out.append((b, s[2], s[3][0]))
        t = fn.term(b)
        if t[0] == "call" and t[3][0] == 0 and not t[3][1]:
            out.append((b, ("callret", fn.call_at(b)), t[6][0]))
    return out


def _check_peek_while(prog, rep, cal, mc, site):
    consuming = set(c.block for c in cal.live_calls() if PC.is_consuming_call(prog, c, mc))
    reach = cal.reachable_blocks([0], avoid=consuming)  # blocks reachable with nothing consumed yet
    bad = []
    for b, rv, line in _ret_assignments(cal):
        if rv[0] == "agg" and isinstance(rv[1], list) and rv[1][0] == "adt" and rv[1][1].endswith("ops::ControlFlow"):
            if rv[1][2] == "Continue" and b in reach:
                bad.append((b, line))
        elif rv[0] == "callret":
            if b in reach and b not in consuming:
                rep.fail("UNDECIDED rule=C01.PROGRESS %s: ControlFlow returned from a call with nothing consumed before it" % cal.loc(line))
        elif rv[0] == "use" and op_place(rv[1]) is not None:
            # copy of a local ControlFlow: resolve one level
            l = op_local(rv[1])
            ok = False
            if l is not None:
                for (bb, i, rv2, _p) in cal.defs().get(l, []):
                    if rv2[0] == "agg" and isinstance(rv2[1], list) and rv2[1][1].endswith("ops::ControlFlow"):
                        ok = True
                        if rv2[1][2] == "Continue" and bb in reach:
                            bad.append((bb, line))
            if not ok:
                rep.fail("UNDECIDED rule=C01.PROGRESS %s: return value idiom not recognised" % cal.loc(line))
        else:
            rep.fail("UNDECIDED rule=C01.PROGRESS %s: return value idiom not recognised (%s)" % (cal.loc(line), rv[0]))
    for i, (b, line) in enumerate(bad):
        rep.finding("C01.PROGRESS.peek_while", cal.name, "continue-without-consuming#%d" % i,
                    "a path through this peek_while callback returns Continue without any call that can consume the peeked token: the loop re-peeks the same token forever",
                    cal.loc(line), {"block": b})
    rep.instance("C01.PROGRESS.peek_while", "%s (passed at %s): %d Continue sites, all after a consuming call" % (cal.name, site.loc(), len([1 for b, rv, l in _ret_assignments(cal)])))


def _check_all_paths_consume(prog, rep, cal, mc, site, rule):
    consuming = set(c.block for c in cal.live_calls() if PC.is_consuming_call(prog, c, mc))
    passed, leak = must_pass(cal, [0], cal.return_blocks(), consuming)
    if not passed:
        rep.finding(rule, cal.name, "path-without-consuming",
                    "a path through this peek_while_kind callback returns without any call that can consume the expected token: the loop spins forever",
                    cal.loc(), {"return_blocks": sorted(leak)})
    rep.instance(rule, "%s (passed at %s): every path to return passes a may-consume call" % (cal.name, site.loc()))


def rule_root(prog, rep):
    rep.floor("C01.ROOT", 3)
    start_node = prog.fn(r"parser::Parser::<'input>::start_node$")
    emit = PC.may_emit_token(prog)
    for ent, gram in PC.ENTRY_GRAMMAR:
        efn = prog.fn(ent, "apollo_parser")
        g = prog.fn(gram, "apollo_parser")
        if not efn.calls_to(gram):
            raise AnchorError("%s no longer calls %s" % (efn.name, g.name))
        sn_blocks = [c.block for c in g.live_calls() if c.uid == start_node.uid]
        open_blocks = list(sn_blocks)
        # enumerated idiom: a call, made under a successful peek test, to a function whose own
        # start_node is guarded by exactly the same peek test (field_set -> selection_set)
        for c in g.live_calls():
            callee = prog.fns.get(c.uid)
            if callee is None or callee.crate != "apollo_parser" or c.uid == start_node.uid:
                continue
            cf = _peek_facts(g, c.block)
            if not cf:
                continue
            csn = [x.block for x in callee.live_calls() if x.uid == start_node.uid]
            if csn and all(_peek_facts(callee, b) and _peek_facts(callee, b) <= cf for b in csn):
                # the callee opens a node on every path on which its peek test succeeds
                first = [b for b in csn if not any(callee.dominates(o, b) for o in csn if o != b)]
                pre_c = callee.reachable_blocks([0], avoid=csn)
                if all(not (x.block in pre_c and x.uid in PC.may_consume(prog)) for x in callee.live_calls()) and first:
                    open_blocks.append(c.block)
        passed, leak = must_pass(g, [0], g.return_blocks(), open_blocks)
        ok = True
        if not passed:
            ok = False
            rep.finding("C01.ROOT", g.name, "no-root-on-some-path",
                        "a path through the entry grammar function returns without opening a root node: GreenNodeBuilder::finish panics on an empty tree",
                        g.loc(), {"return_blocks": sorted(leak)})
        pre = g.reachable_blocks([0], avoid=sn_blocks)
        for c in g.live_calls():
            if c.block in pre and c.block not in sn_blocks and c.uid in emit:
                ok = False
                rep.finding("C01.ROOT", g.name, "token-before-root:" + c.name.split("::")[-1],
                            "`%s` can queue or emit a token before the root node is opened: an error/ignored token then lands outside the root and GreenNodeBuilder::finish panics" % c.name.split("::")[-1],
                            c.loc())
        rep.instance("C01.ROOT", "%s -> %s: root opened on every path: %s; nothing token-emitting before it: %s" % (efn.name.split("::")[-1], g.name, passed, ok and passed))


def _peek_facts(fn, b):
    """variant facts on the result of peek() that dominate block b, with the call site erased"""
    out = set()
    for f in facts_at(fn, b):
        if f[0] == "variant" and re.search(r"^call:.*Parser::<'input>::peek@\d+", f[1]):
            out.add((re.sub(r"^call:.*Parser::<'input>::peek@\d+", "peek", f[1]), f[2]))
    return out


def rule_pop(prog, rep):
    pop = prog.fn(r"parser::Parser::<'input>::pop$")
    mc = PC.may_consume(prog)
    rep.floor("C01.POP", 5)
    n = 0
    for fn in prog.fns.values():
        if fn.crate != "apollo_parser":
            continue
        sites = [c for c in fn.live_calls() if c.uid == pop.uid]
        for i, c in enumerate(sites):
            n += 1
            fs = facts_at(fn, c.block)
            guard = None
            for f in fs:
                if f[0] == "variant" and f[2] in ("Some",) and re.search(r"call:.*Parser::<'input>::(peek|current|peek_token)@(\d+)", f[1]):
                    guard = f
                if f[0] == "variant_in" and "None" not in f[2] and re.search(r"call:.*Parser::<'input>::(peek|current|peek_token)@", f[1]):
                    guard = f
                if f[0] == "callbool" and re.search(r"Option::<T>::is_none$", f[1]) and f[3] is False and f[2] and re.search(r"call:.*Parser::<'input>::(peek|current|peek_token)@", f[2][0] or ""):
                    guard = f
                if f[0] == "callbool" and re.search(r"Option::<T>::is_some$", f[1]) and f[3] is True and f[2] and re.search(r"call:.*Parser::<'input>::(peek|current|peek_token)@", f[2][0] or ""):
                    guard = f
            if guard is None:
                rep.finding("C01.POP", fn.name, "pop#%d" % i,
                            "Parser::pop (which expects a token) is not dominated by a successful peek()/current() test", c.loc())
                continue
            # no consuming call between the peek and the pop
            m = re.search(r"@(\d+)", guard[1] if guard[0] != "callbool" else guard[2][0])
            pb = int(m.group(1))
            between = fn.reachable_blocks([fn.term(pb)[4]]) if fn.term(pb)[0] == "call" else set()
            # blocks that can reach the pop block
            canreach = _can_reach(fn, c.block)
            mid = (between & canreach) - {c.block}
            offenders = [x for x in fn.live_calls() if x.block in mid and PC.is_consuming_call(prog, x, mc)]
            # a pop inside a loop re-peeks each iteration; the offender check is about straight-line code
            offenders = [x for x in offenders if not fn.dominates(c.block, x.block)]
            if offenders:
                rep.finding("C01.POP", fn.name, "pop#%d:consumed-between" % i,
                            "a consuming call (%s) lies between the peek and the pop: the token peeked may be gone" % offenders[0].name.split("::")[-1], c.loc())
            rep.instance("C01.POP", "%s pop at %s guarded by %s" % (fn.name, c.loc(), guard[:3]))
    # pop's own expect is the only place that expects a token
    ex = [c for c in pop.live_calls() if re.search(r"Option::<T>::expect$", c.name)]
    if len(ex) != 1:
        rep.note("Parser::pop has %d expect() calls" % len(ex))


def _can_reach(fn, target):
    preds = fn.preds()
    seen = set()
    st = [target]
    while st:
        b = st.pop()
        if b in seen:
            continue
        seen.add(b)
        st.extend(preds[b])
    return seen


def run(prog, rep):
    rule_cut(prog, rep)
    rule_progress(prog, rep)
    from . import parser_kinds
    parser_kinds.run(prog, rep)
    rule_root(prog, rep)
    rule_pop(prog, rep)
    # The string decoder that the compiler's parse entry points run on every string token unwraps
    # char::from_u32 / to_digit on whatever the lexer let through: its freedom from panics rests on
    # the lexer rejecting exactly the invalid escapes.  The lexer machine (C03.DFA, 0.5 s) decides
    # that, including the surrogate range of \uXXXX escapes.
    from . import lexer_dfa
    lexer_dfa.run(prog, rep)
    if rep.tier == "thorough":
        from . import inv_parser

        inv_parser.run(prog, rep)
    rep.assume("recursion limit x largest parser frame fits the thread stack for the default limit of 500 (not decided for user-chosen huge limits)")
    rep.assume("rowan::GreenNodeBuilder panics only on unbalanced start/finish and on tokens outside a root (trusted reading of rowan 0.16)")
