"""C09 — String values and descriptions survive serialization (DESIGN.md C09)."""
import re

from ..core import AnchorError, Undecided
from ..hirq import callee_path, decode_fmt_template, fmt_calls, res_path, walk
from ..patset import CHAR_DOMAIN, Char, Evaluator, char_set
from ..tables import local_of, strip_expr

CRATES = ["apollo_parser", "apollo_compiler"]
LEVEL = "other"
EXPLANATION = """
C09.ESCINV: a finite composition of three extracted tables - (1) the set of characters
serialize_string_value escapes (its `find` closure folded over every ASCII code point and the
non-ASCII representatives), (2) the escape it writes for each of them (match arms over the byte;
the \\u{:04X} template decoded), (3) the lexer's string-body table and the decoder's escape table
(C03/C06): every character the lexer cannot take raw inside a quoted string is escaped; every
escape written is lexer-accepted and decodes to exactly the escaped character; every character
written raw is lexer-accepted raw.  C09.BLOCKGATE: can_be_block_string returns false on CR, on a
whitespace-only first or last line and on non-zero common indent; serialize_block_string escapes
exactly the triple quote with the escaped triple quote (the parser's constants, const-evaluated on
both sides); block strings are only chosen under newlines_enabled().  Does not decide the round
trip itself.
"""

DECODE = {"b": 0x08, "f": 0x0C, "n": 0x0A, "r": 0x0D, "t": 0x09, '"': 0x22, "\\": 0x5C, "/": 0x2F}


def rule_escinv(prog, rep):
    rep.floor("C09.ESCINV", 3)
    ev = Evaluator(prog, "apollo_compiler")
    evp = Evaluator(prog, "apollo_parser")
    fn = prog.fn(r"^apollo_compiler::ast::serialize::serialize_string_value$")
    body = prog.hir_body(fn)["body"]
    # the predicate given to `str.find`: a closure literal, a local bound to one, or a local fn
    from ..hirx import Scope
    sc = Scope(prog.hir_body(fn))
    finds = []
    for n in walk(body):
        if n.get("k") == "mcall" and n["m"] == "find" and n["args"]:
            a = strip_expr(n["args"][0])
            if a.get("k") == "path" and a.get("res") and a["res"][0] == "local":
                let = sc.lets.get(sc.canon(a["res"][2]))
                if let is not None and let.get("init") is not None:
                    a = strip_expr(let["init"])
            if a.get("k") == "closure":
                finds.append(("closure", a))
            elif a.get("k") == "path" and a.get("res") and a["res"][0] == "def":
                finds.append(("fn", res_path(a["res"])))
    if len(finds) != 1:
        raise Undecided("serialize_string_value: expected one `str.find(<char predicate>)` (found %d)" % len(finds))
    if finds[0][0] == "closure":
        clo = finds[0][1]
        escaped = set(int(c) for c in CHAR_DOMAIN if ev.eval_closure(clo, [c]) is True)
    else:
        escaped = set(int(c) for c in CHAR_DOMAIN if ev.call(finds[0][1], [c]) is True)
    # (1) what the lexer cannot take raw inside a quoted string
    must = {0x22, 0x5C} | char_set(evp, "apollo_parser::lexer::is_line_terminator")
    missing = must - escaped
    if missing:
        rep.finding("C09.ESCINV", fn.name, "unescaped:" + ",".join("U+%04X" % c for c in sorted(missing)),
                    "serialize_string_value writes %s raw inside a quoted string, but the lexer ends or rejects the string there" % ", ".join("U+%04X" % c for c in sorted(missing)), fn.loc())
    else:
        rep.instance("C09.ESCINV", "escaped set (%d code points of the partition) covers quote, backslash and the line terminators" % len(escaped))
    # (2) the escape written for each escaped character
    # the match over the byte to escape: the one `match` with byte-literal arms, in the function
    # itself or in a private helper that only it calls (e.g. an extracted `serialize_escaped_byte`)
    from ..core import private_helpers_of
    bodies = [body]
    for uid in sorted(private_helpers_of(prog, [fn])):
        hb = prog.hir_body(prog.fns[uid])
        if hb:
            bodies.append(hb["body"])

    def byte_arms(n):
        return [a for a in n["arms"] if any(q.get("k") == "lit" and q.get("t") in ("int", "byte", "u8") for q in walk(a["pat"]))]

    ms = [n for bd in bodies for n in walk(bd) if n.get("k") == "match" and n.get("src") == "normal" and len(byte_arms(n)) >= 2]
    if len(ms) != 1:
        raise Undecided("serialize_string_value: expected one match over the byte to escape (found %d)" % len(ms))
    m = ms[0]
    n_ok = 0
    for c in sorted(escaped):
        if c > 0x7F:
            rep.finding("C09.ESCINV", fn.name, "non-ascii-escape:U+%04X" % c, "a non-ASCII character is selected for escaping but escapes are written per byte", fn.loc())
            continue
        arm_i = None
        env = {}
        for i, arm in enumerate(m["arms"]):
            e = {}
            if ev.bind(arm["pat"], c, e):
                arm_i, env = i, e
                break
        if arm_i is None:
            rep.finding("C09.ESCINV", fn.name, "no-arm:U+%04X" % c, "no escape arm for U+%04X" % c, fn.loc())
            continue
        ab = m["arms"][arm_i]["body"]
        text = None
        writes = [n for n in walk(ab) if n.get("k") == "mcall" and n["m"] == "write" and n["args"] and strip_expr(n["args"][0]).get("k") == "lit"]
        if writes:
            text = strip_expr(writes[0]["args"][0])["v"]
        else:
            try:
                fc = fmt_calls(ab)
            except ValueError as e:
                raise Undecided("format template in serialize_string_value: %s" % e)
            if fc and fc[0][1]:
                pieces = fc[0][1]
                # expect lit "\\u" + arg{width 4, zero_pad}, hex
                hexarg = any(x.get("k") == "call" and (callee_path(x) or "").endswith(("new_upper_hex", "new_lower_hex")) for x in walk(ab))
                if len(pieces) == 2 and pieces[0] == ("lit", "\\u") and pieces[1][0] == "arg" and len(pieces[1]) > 1 and pieces[1][1].get("width") == 4 and pieces[1][1].get("zero_pad") and hexarg:
                    text = "\\u%04X" % c
                else:
                    text = "<template %s>" % (pieces,)
        if text is None:
            rep.finding("C09.ESCINV", fn.name, "escape-text:U+%04X" % c, "cannot read what is written for U+%04X" % c, fn.loc())
            continue
        # (3) decode it with the grammar's tables
        dec = None
        if re.match(r"^\\u[0-9A-Fa-f]{4}$", text):
            dec = int(text[2:], 16)
        elif len(text) == 2 and text[0] == "\\" and text[1] in DECODE:
            dec = DECODE[text[1]]
        if dec == c:
            n_ok += 1
        else:
            rep.finding("C09.ESCINV", fn.name, "wrong-escape:U+%04X" % c,
                        "U+%04X is serialized as `%s`, which %s" % (c, text, ("decodes to U+%04X" % dec) if dec is not None else "is not a valid GraphQL escape sequence"), fn.loc(m["arms"][arm_i].get("l")))
    rep.instance("C09.ESCINV", "%d escaped code points each written as an escape that the lexer accepts and that decodes back to the same character" % n_ok)
    # the lexer's escape letters include every letter used
    esc_letters = char_set(evp, "apollo_parser::lexer::is_escaped_char") | {ord("u")}
    used = set()
    for n in walk(m):
        if n.get("k") == "lit" and n.get("t") == "str" and len(n["v"]) == 2 and n["v"][0] == "\\":
            used.add(ord(n["v"][1]))
    if used <= esc_letters:
        rep.instance("C09.ESCINV", "escape letters written %s are all accepted by the lexer" % sorted(map(chr, used)))
    else:
        rep.finding("C09.ESCINV", fn.name, "unknown-letter", "writes escape letters %s that the lexer rejects" % sorted(map(chr, used - esc_letters)), fn.loc())


def rule_blockgate(prog, rep):
    rep.floor("C09.BLOCKGATE", 5)
    cb = prog.fn(r"^apollo_compiler::ast::serialize::can_be_block_string$")
    body = prog.hir_body(cb)["body"]
    from ..hirx import Scope as _Scope
    sc = _Scope(prog.hir_body(cb))

    def is_value_param(e):
        e = strip_expr(e)
        return e.get("k") == "path" and e.get("res") and e["res"][0] == "local" and sc.is_param(e["res"][2])

    # the whitespace-trimming helper: the fn(&str) -> &str nested in can_be_block_string (any name)
    from ..core import private_helpers_of as _pho
    _helpers = _pho(prog, [cb])
    trimmers = [g for g in prog.fns.values() if g.kind == "fn" and (g.name.startswith(cb.name + "::") or g.uid in _helpers)
                and [re.sub(r"'\w+ ", "", t or "") for t in (g.d.get("sig_in") or [])] == ["&str"] and re.sub(r"'\w+ ", "", g.d.get("sig_out") or "") == "&str"]
    if len(trimmers) != 1:
        raise Undecided("can_be_block_string: expected one nested whitespace-trimming helper (found %d)" % len(trimmers))
    trimmer = trimmers[0]
    # (a) early `return false` under value.contains('\r')
    ok_cr = False
    for n in walk(body):
        if n.get("k") == "if":
            c = strip_expr(n["cond"])
            if c.get("k") == "mcall" and c["m"] == "contains" and is_value_param(c["recv"]) and strip_expr(c["args"][0]).get("v") == 0x0D:
                rets = [x for x in walk(n["then"]) if x.get("k") == "ret" and strip_expr(x["e"]).get("v") is False]
                if rets:
                    ok_cr = True
    if ok_cr:
        rep.instance("C09.BLOCKGATE", "can_be_block_string: `\\r` anywhere -> false")
    else:
        rep.finding("C09.BLOCKGATE", cb.name, "carriage-return", "can_be_block_string no longer rejects values containing `\\r` (BlockStringValue normalises every line terminator to \\n, so the value would not round-trip)", cb.loc())
    # (b) first / last line whitespace-only -> false
    firstlast = set()
    for n in walk(body):
        if n.get("k") == "mcall" and n["m"] == "is_some_and" and strip_expr(n["recv"]).get("k") == "mcall":
            which = strip_expr(n["recv"])["m"]
            clo = strip_expr(n["args"][0])
            calls = [callee_path(x) for x in walk(clo) if x.get("k") == "call" and callee_path(x)]
            empt = [x for x in walk(clo) if x.get("k") == "mcall" and x["m"] == "is_empty"]
            if which in ("next", "next_back") and any(c == trimmer.name for c in calls) and empt:
                firstlast.add(which)
    if firstlast == {"next", "next_back"}:
        rep.instance("C09.BLOCKGATE", "can_be_block_string: whitespace-only first or last line -> false")
    elif not firstlast:
        # neither test is written in the `lines.next().is_some_and(..)` idiom: the rule cannot tell a
        # rewrite from a removal, and says so instead of asserting a defect
        rep.fail("UNDECIDED rule=C09.BLOCKGATE can_be_block_string: the whitespace-only first / last line tests are not in the recognised `split('\\n').next()/next_back().is_some_and(|l| trim(l).is_empty())` form")
    else:
        rep.finding("C09.BLOCKGATE", cb.name, "blank-edge-lines", "can_be_block_string no longer rejects a whitespace-only first/last line (found tests on: %s)" % sorted(firstlast), cb.loc())
    # (c) result is `common_indent == 0`
    tail = body.get("expr") if body.get("k") == "block" else None
    t = strip_expr(tail) if tail else {}
    def is_min_indent(e):
        """a local bound to `<iterator of per-line indents>.min().unwrap_or(0)`"""
        e = strip_expr(e)
        if not (e.get("k") == "path" and e.get("res") and e["res"][0] == "local"):
            return False
        let = sc.lets.get(sc.canon(e["res"][2]))
        if let is None or let.get("init") is None:
            return False
        ms_ = [x["m"] for x in walk(let["init"]) if x.get("k") == "mcall"]
        return "min" in ms_ and any(c == trimmer.name for c in [callee_path(x) for x in walk(let["init"]) if x.get("k") == "call" and callee_path(x)])

    if t.get("k") == "bin" and t["op"] == "==" and is_min_indent(t["a"]) and strip_expr(t["b"]).get("v") == 0:
        rep.instance("C09.BLOCKGATE", "can_be_block_string: result is `common_indent == 0`")
    elif t.get("k") == "bin" and t["op"] == "==" and strip_expr(t["b"]).get("v") == 0 and strip_expr(t["a"]).get("k") == "call":
        # `helper(value) == 0`: the indentation is computed elsewhere; judged only if that helper is
        # the recognised min() pipeline (C09.BLOCKGATE c'), otherwise undecided
        rep.fail("UNDECIDED rule=C09.BLOCKGATE can_be_block_string: the common indentation is computed by `%s`, not by the recognised min() pipeline" % (callee_path(strip_expr(t["a"])) or "?").split("::")[-1])
    else:
        rep.finding("C09.BLOCKGATE", cb.name, "common-indent", "can_be_block_string no longer requires zero common indentation", cb.loc())
    # (c') which lines take part in the minimum: BlockStringValue() ignores WhiteSpace-only lines
    # when it computes the common indentation, so the gate must ignore them too (otherwise an
    # indented text with an empty line in it is printed as a block string and loses its indent).
    # Read on MIR: min(<per-line iterator>); the per-line closure must yield no value for a line
    # that is empty after trimming.
    from ..flow import _strip as _st
    from ..tables import enum_paths as _ep, return_value_on_path as _rv
    mins = [c for c in cb.live_calls() if re.search(r"Iterator::min$|Iterator>::min$", c.name)]
    judged = False
    for c in mins:
        chain = cb.sym(c.args[0])
        mm = re.match(r"^Iterator::(filter_map|map)\((.*), closure:([^,()]+\{closure#\d+\})\)$", chain)
        if not mm or mm.group(3) not in prog.fns:
            continue
        judged = True
        clo = prog.fns[mm.group(3)]
        rows = [(_st(a), _rv(clo, pth) or "") for a, _r, pth in _ep(clo)]
        if mm.group(1) == "map":
            rep.finding("C09.BLOCKGATE", cb.name, "blank-lines-counted", "the common indentation is the minimum over *every* line (`map`): a WhiteSpace-only line counts as indentation 0, so an indented text with an empty line in it passes the gate, is printed as a block string, and loses its indentation when parsed", c.loc())
            continue
        somes = [(a, v) for a, v in rows if v.startswith("Option::Some{")]
        nones = [(a, v) for a, v in rows if v.startswith("Option::None")]
        def blank(a, val):
            return any(f[0] == "callbool" and f[1].endswith("str>::is_empty") and f[3] is val and trimmer.name.split("::")[-1] in str(f[2]) for f in a)
        ok = bool(somes) and bool(nones) and all(blank(a, False) for a, _v in somes) and all(blank(a, True) for a, _v in nones)
        ok = ok and all(re.search(r"^Option::Some\{Sub\(str::len\(&?arg2\), str::len\(&?\*?[\w:]*%s\(&?arg2\)\)\)(\.0)?\}$" % re.escape(trimmer.name.split("::")[-1]), v) for _a, v in somes)
        if ok:
            rep.instance("C09.BLOCKGATE", "common indentation: minimum of len(line) - len(trimmed line) over the lines that are not WhiteSpace-only")
        else:
            rep.finding("C09.BLOCKGATE", cb.name, "indent-of-line", "the per-line indentation closure is %s; expected: None for a WhiteSpace-only line, Some(len(line) - len(trimmed)) otherwise" % [(a, v[:80]) for a, v in rows][:3], clo.loc())
    if not judged:
        rep.note("C09.BLOCKGATE: the common indentation is not computed by min() over a map/filter_map closure; lines taking part in it not judged")
    ev = Evaluator(prog, "apollo_compiler")
    tw = prog.hir_body(trimmer)["body"]
    arrs = [n for n in walk(tw) if n.get("k") == "array"]
    ws = set(strip_expr(e).get("v") for a in arrs for e in a["es"])
    if ws == {0x20, 0x09}:
        rep.instance("C09.BLOCKGATE", "trim_start_graphql_whitespace trims exactly {space, tab}")
    else:
        rep.finding("C09.BLOCKGATE", cb.name, "whitespace-set", "graphql whitespace set is %s" % sorted(ws), cb.loc())
    # serialize_block_string constants = parser's constants
    tq = [c for c in prog.consts.values() if c["name"].endswith("serialize_block_string::TRIPLE_QUOTE")]
    etq = [c for c in prog.consts.values() if c["name"].endswith("serialize_block_string::ESCAPED_TRIPLE_QUOTE")]
    ptq = prog.const(r"^apollo_parser::cst::node_ext::TRIPLE_QUOTE$")
    petq = prog.const(r"^apollo_parser::cst::node_ext::ESCAPED_TRIPLE_QUOTE$")
    if not tq or not etq:
        # the constants moved out of serialize_block_string: look for them in the module
        tq = [c for c in prog.consts.values() if re.search(r"^apollo_compiler::ast::serialize::(\w+::)?TRIPLE_QUOTE$", c["name"])]
        etq = [c for c in prog.consts.values() if re.search(r"^apollo_compiler::ast::serialize::(\w+::)?ESCAPED_TRIPLE_QUOTE$", c["name"])]
    if len(tq) == 1 and len(etq) == 1 and tq[0]["value"] == ptq["value"] and etq[0]["value"] == petq["value"]:
        rep.instance("C09.BLOCKGATE", "serializer and parser agree on TRIPLE_QUOTE / ESCAPED_TRIPLE_QUOTE (const-evaluated)")
    else:
        rep.finding("C09.BLOCKGATE", "apollo_compiler::ast::serialize::serialize_block_string", "constants", "serializer's triple-quote constants differ from the parser's", None)
    # lines of a multi-line block string: every line is written after the current indentation
    # (require_new_line), except a line that is EMPTY - there the indentation would be trailing
    # whitespace and BlockStringValue() ignores empty lines.  A line that merely looks blank
    # (spaces / tabs) must keep its indentation prefix, or parsing strips the common indent from
    # it and the value changes.
    from ..flow import facts_at as _fa, _strip as _sp, loop_headers as _lh, loop_body as _lb
    sbs = prog.fn(r"^apollo_compiler::ast::serialize::serialize_block_string$")
    hs_ = {h: v for h, v in _lh(sbs).items() if h in sbs.reachable_blocks([v[0]])}
    if len(hs_) == 1:
        h_ = list(hs_)[0]
        body_ = set(_lb(sbs, h_, hs_))
        elem = re.escape(sbs.sym(hs_[h_][2].dest)) if False else None
        writes = [c for c in sbs.live_calls() if c.block in body_ and re.search(r"State::<'_, '_>::write$|State.*::write$", c.name)]
        indents = [c.block for c in sbs.live_calls() if c.block in body_ and re.search(r"require_new_line$", c.name)]
        bad = []
        for c in writes:
            # a write in the loop body that is not preceded by require_new_line on its path
            if any(sbs.dominates(i, c.block) for i in indents):
                continue
            fs = _sp(_fa(sbs, c.block))
            empty = any(x[0] == "callbool" and x[1].endswith("str>::is_empty") and x[3] is True and re.search(r"Iterator>::next@%d\.as:Some\.0$" % h_, (x[2][0] or "")) for x in fs)
            if not empty:
                bad.append(c)
        if bad:
            rep.finding("C09.BLOCKGATE", sbs.name, "unindented-line",
                        "serialize_block_string writes a line without the indentation prefix on a path that is not guarded by `line.is_empty()` (guards: %s): a whitespace-only line written without its prefix loses characters when the parser strips the common indentation" % ([(x[1].split("::")[-1], x[3]) for x in _sp(_fa(sbs, bad[0].block)) if x[0] == "callbool"][:3]), bad[0].loc())
        elif writes:
            rep.instance("C09.BLOCKGATE", "serialize_block_string: only an empty line is written without the indentation prefix")
    else:
        rep.note("C09.BLOCKGATE: the per-line loop of serialize_block_string was not recognised; unindented lines not judged")
    sl = prog.fn(r"serialize_block_string::serialize_line$")
    b2 = prog.hir_body(sl)["body"]
    so = [n for n in walk(b2) if n.get("k") == "mcall" and n["m"] == "split_once"]
    wr = [n for n in walk(b2) if n.get("k") == "mcall" and n["m"] == "write"]
    def cname(e):
        e = strip_expr(e)
        return e["res"][2].split("::")[-1] if e.get("k") == "path" and e.get("res") and e["res"][0] == "def" else None
    if so and cname(so[0]["args"][0]) == "TRIPLE_QUOTE" and any(cname(w["args"][0]) == "ESCAPED_TRIPLE_QUOTE" for w in wr):
        rep.instance("C09.BLOCKGATE", "serialize_line: every TRIPLE_QUOTE is written as ESCAPED_TRIPLE_QUOTE")
    else:
        rep.finding("C09.BLOCKGATE", sl.name, "escape-triple", "serialize_line does not replace every triple quote by the escaped triple quote", sl.loc())
    # block strings only under newlines_enabled()
    fn = prog.fn(r"^apollo_compiler::ast::serialize::serialize_string_value$")
    sbs = [c for c in fn.live_calls() if re.search(r"serialize::serialize_block_string$", c.name)]
    from ..flow import facts_at, has_fact
    if len(sbs) == 1:
        fs = facts_at(fn, sbs[0].block)
        g1 = has_fact(fs, "callbool", name_re=r"State::.*newlines_enabled$|newlines_enabled$", value=True)
        g2 = has_fact(fs, "callbool", name_re=r"serialize::can_be_block_string$", value=True)
        if g1 and g2:
            rep.instance("C09.BLOCKGATE", "block string chosen only under newlines_enabled() && can_be_block_string(str)")
        else:
            rep.finding("C09.BLOCKGATE", fn.name, "block-gate", "serialize_block_string is reachable without newlines_enabled() (%s) and can_be_block_string (%s)" % (bool(g1), bool(g2)), sbs[0].loc())
    else:
        raise AnchorError("serialize_string_value: expected one call to serialize_block_string")


def run(prog, rep):
    rule_escinv(prog, rep)
    rule_blockgate(prog, rep)
