"""C19 — Executable documents and field sets round-trip (DESIGN.md C19).

Equality after re-parsing and re-validation is a statement about runtime values and is NOT
decided.  Decided: the provenance conditions of the executable -> AST lowering that serialization
goes through (executable/serialize.rs): the struct expressions make the compiler enforce that every
AST field is *given a value*; these rules decide that it is given the *right* one."""
import re

from ..core import Undecided
from ..tables import enum_paths, return_value_on_path

CRATES = ["apollo_parser", "apollo_compiler"]
LEVEL = "other"
EXPLANATION = """
C19.FIELDS: in each of the five `to_ast` lowerings (Operation, Fragment, Field, InlineFragment,
FragmentSpread) every field of the AST struct is drawn from the same-named field of `self`
(`selection_set` through SelectionSet::to_ast; a fragment's type_condition from selection_set.ty),
so nothing is swapped (alias/name, fragment_name/type_condition are all Names and would
type-check).  C19.SEL: Selection::to_ast maps each variant to the same AST variant of the same node
with that node's location; SelectionSet::to_ast is selections.iter().map(to_ast).collect().
C19.DOC: ExecutableDocument::to_ast emits the anonymous operation, then named operations, then
fragments, each lowered with its own location, in map order.  C19.FIELDSET: FieldSet serializes
every selection of its set, first then rest, separated by new_line_or_space.
"""

E = "apollo_compiler::executable::"
S = E + "serialize::<impl apollo_compiler::executable::%s>::%s"


def _fields(adt):
    return [f[0] for v in adt["variants"] for f in v["fields"]]


def rule_fields(prog, rep):
    rep.floor("C19.FIELDS", 5)
    for ty, astty in (("Operation", "OperationDefinition"), ("Fragment", "FragmentDefinition"), ("Field", "Field"), ("InlineFragment", "InlineFragment"), ("FragmentSpread", "FragmentSpread")):
        f = prog.fn("^" + re.escape(S % (ty, "to_ast")) + "$")
        aggs = []
        for b in sorted(f.live_blocks()):
            for s in f.stmts(b):
                if s[0] == "=" and s[2][0] == "agg" and isinstance(s[2][1], list) and s[2][1][0] == "adt" and s[2][1][1] == "apollo_compiler::ast::" + astty:
                    aggs.append(s)
        if len(aggs) != 1:
            raise Undecided("%s::to_ast: expected one ast::%s aggregate (found %d)" % (ty, astty, len(aggs)))
        names = _fields(prog.adt(r"^apollo_compiler::ast::%s$" % astty))
        syms = [f.sym(o) for o in aggs[0][2][2]]
        bad = []
        for n, s in zip(names, syms):
            src = n
            if ty == "Fragment" and n == "type_condition":
                want = r"<Name as Clone>::clone\(&arg1\.selection_set\.ty\)"
            elif n == "selection_set":
                want = r"serialize::to_ast\(&arg1\.selection_set\)|SelectionSet>?::to_ast\(&arg1\.selection_set\)"
            elif n == "operation_type":
                want = r"arg1\.operation_type"
            else:
                want = r"<.+ as Clone>::clone\(&arg1\.%s\)" % re.escape(src)
            if not re.fullmatch(want, s):
                bad.append((n, s))
        rep.obligation(not bad)
        if bad:
            for n, s in bad:
                rep.finding("C19.FIELDS", f.name, "field:" + n, "ast::%s.%s is built from `%s`, not from self.%s" % (astty, n, s[:90], "selection_set.ty" if (ty == "Fragment" and n == "type_condition") else n), f.loc())
        else:
            rep.instance("C19.FIELDS", "%s::to_ast: {%s} each from the same-named field of self" % (ty, ", ".join(names)))


def rule_sel(prog, rep):
    rep.floor("C19.SEL", 4)
    f = prog.fn("^" + re.escape(S % ("Selection", "to_ast")) + "$")
    info = f.switch_info(0)
    if not info or info.get("kind") != "enum":
        raise Undecided("Selection::to_ast does not start with a match on self")
    for v in ("Field", "FragmentSpread", "InlineFragment"):
        t = info["edges"].get(v)
        others = [x for vv, x in info["edges"].items() if x != t]
        reg = f.reachable_blocks([t], avoid=others) if t is not None else set()
        aggs = [s for b in reg for s in f.stmts(b) if s[0] == "=" and s[2][0] == "agg" and isinstance(s[2][1], list) and s[2][1][0] == "adt" and s[2][1][1] == "apollo_compiler::ast::Selection"]
        ok = len(aggs) == 1 and aggs[0][2][1][2] == v
        if ok:
            s = f.sym(aggs[0][2][2][0])
            ok = re.fullmatch(r"Node::same_location\(&arg1\.as:%s\.0, serialize::to_ast\(&\*<Node<T> as Deref>::deref\(&arg1\.as:%s\.0\)\)\)" % (v, v), s) is not None
        rep.obligation(ok)
        if ok:
            rep.instance("C19.SEL", "Selection::%s -> ast::Selection::%s(node.same_location(node.to_ast()))" % (v, v))
        else:
            rep.finding("C19.SEL", f.name, "variant:" + v, "Selection::%s is not lowered to ast::Selection::%s of the same node with its location" % (v, v), f.loc())
    g = prog.fn("^" + re.escape(S % ("SelectionSet", "to_ast")) + "$")
    rows = enum_paths(g)
    rv = return_value_on_path(g, rows[0][2]) if len(rows) == 1 else ""
    ok = re.fullmatch(r"Iterator::collect\(Iterator::map\(slice::iter\(&\*<Vec<T, A> as Deref>::deref\(&arg1\.selections\)\), closure:[^,]+\)\)", rv or "") is not None
    rep.obligation(ok)
    if ok:
        rep.instance("C19.SEL", "SelectionSet::to_ast = selections.iter().map(to_ast).collect()")
    else:
        rep.finding("C19.SEL", g.name, "pipeline", "SelectionSet::to_ast is `%s`" % (rv or "?")[:160], g.loc())


def rule_doc(prog, rep):
    rep.floor("C19.DOC", 1)
    f = prog.fn("^" + re.escape(S % ("ExecutableDocument", "to_ast")) + "$")
    pushes = [c for c in f.live_calls() if c.name.endswith("Vec::<T, A>::push")]
    order = []
    for c in sorted(pushes, key=lambda c: c.line):
        s = f.sym(c.args[1])
        if "operations.anonymous" in s:
            kind = "anonymous"
            own = re.search(r"to_ast\(&\*<Node<T> as Deref>::deref\(&(.+?)\), Node::location\(&(.+?)\)\)$", s)
        elif "operations.named" in s:
            kind = "named"
            own = re.search(r"to_ast\(&\*<Node<T> as Deref>::deref\(&(.+?)\), Node::location\(&(.+?)\)\)$", s)
        elif ".fragments" in s:
            kind = "fragments"
            own = re.search(r"to_ast\(&\*<Node<T> as Deref>::deref\(&(.+?)\), Node::location\(&(.+?)\)\)$", s)
        else:
            kind, own = "?", None
        order.append((kind, bool(own and own.group(1) == own.group(2))))
    ok = order == [("anonymous", True), ("named", True), ("fragments", True)]
    vals = [c for c in f.live_calls() if c.name.endswith("IndexMap::<K, V, S>::values")]
    ok = ok and len(vals) == 2
    rep.obligation(ok)
    if ok:
        rep.instance("C19.DOC", "ExecutableDocument::to_ast: anonymous operation, named.values(), fragments.values(); each node lowered with its own location")
    else:
        rep.finding("C19.DOC", f.name, "order", "the document is lowered as %s" % order, f.loc())


def rule_fieldset(prog, rep):
    rep.floor("C19.FIELDSET", 1)
    f = prog.fn("^" + re.escape(S % ("FieldSet", "serialize_impl")) + "$")
    sf = [c for c in f.live_calls() if c.name.endswith("slice::<impl [T]>::split_first")]
    ser = [c for c in f.live_calls() if c.name.endswith("Selection>::serialize_impl")]
    sep = [c for c in f.live_calls() if c.name.endswith("::new_line_or_space")]
    ok = len(sf) == 1 and "arg1.selection_set.selections" in f.sym(sf[0].args[0]) and len(ser) == 2 and len(sep) == 1
    if ok:
        firsts = [c for c in ser if ".as:Some.0.0" in f.sym(c.args[0])]
        rests = [c for c in ser if c not in firsts]
        ok = len(firsts) == 1 and len(rests) == 1 and rests[0].block in f.reachable_blocks([rests[0].target]) and sep[0].block in f.reachable_blocks([rests[0].target])
    rep.obligation(ok)
    if ok:
        rep.instance("C19.FIELDSET", "FieldSet::serialize_impl: first selection, then for each of the rest: new_line_or_space + the selection")
    else:
        rep.finding("C19.FIELDSET", f.name, "all-selections", "a field set does not serialize every selection of its set separated by a line break or space", f.loc())


def rule_fromast(prog, rep):
    """C19.FROMAST: the AST -> executable lowering (executable/from_ast.rs) carries every component
    of the AST node: each `SelectionSet::push` of a Field / FragmentSpread / InlineFragment is given
    a value that is computed from *every* field of the corresponding ast struct, and the
    Operation / Fragment aggregates draw each field from the same-named field of the AST
    definition (the selection set through extend_from_ast).  A lowering that drops, say, the
    directives of a field loses `@include(if: $v)` - the document then no longer round-trips, and
    standalone validation reports `$v` as unused although the document is valid with the schema."""
    from ..flow import derives
    rep.floor("C19.FROMAST", 5)
    f = prog.inline(prog.fn(r"^apollo_compiler::executable::from_ast::<impl apollo_compiler::executable::SelectionSet>::extend_from_ast$"),
                    keep=r"::(extend_from_ast|with_ast_selections|type_field|new|push|new_inline_fragment|new_fragment_spread|with_directives|with_arguments|with_opt_alias)$")
    pushes = [c for c in f.live_calls() if re.search(r"executable::SelectionSet::push$", c.name)]
    seen = set()
    for c in pushes:
        paths, _ = derives(f, c.args[1], maxn=1500)
        var = None
        for q in paths:
            m = re.search(r"\.as:(Field|FragmentSpread|InlineFragment)\.0$", q)
            if m:
                var = m.group(1)
        if var is None:
            rep.finding("C19.FROMAST", f.name, "push-source", "a selection pushed by extend_from_ast is not computed from an AST selection (`%s`)" % f.sym(c.args[1])[:80], c.loc())
            continue
        seen.add(var)
        names = _fields(prog.adt(r"^apollo_compiler::ast::%s$" % var))
        missing = [n for n in names if not any(q.endswith("." + n) for q in paths)]
        rep.obligation(not missing)
        if missing:
            rep.finding("C19.FROMAST", f.name, "dropped:%s:%s" % (var, ",".join(missing)),
                        "the executable %s pushed here is not computed from the AST node's `%s`: that part of the source document is dropped when the executable document is built (on some path)" % (var, "`, `".join(missing)), c.loc())
        else:
            rep.instance("C19.FROMAST", "extend_from_ast: a pushed %s carries %s of the AST node" % (var, ", ".join(names)))
    for var in ("Field", "FragmentSpread", "InlineFragment"):
        if var not in seen:
            rep.finding("C19.FROMAST", f.name, "no-push:" + var, "extend_from_ast never pushes a %s" % var, f.loc())
    for ty, astty in (("Operation", "OperationDefinition"), ("Fragment", "FragmentDefinition")):
        g = prog.fn(r"^apollo_compiler::executable::from_ast::<impl apollo_compiler::executable::%s>::from_ast$" % ty)
        ai = None
        for i, (t, _) in enumerate(g.d["locals"][:g.d["argc"] + 1]):
            if i and ("ast::" + astty) in t:
                ai = i
        if ai is None:
            raise Undecided("%s::from_ast: no ast::%s parameter" % (ty, astty))
        aggs = []
        for b in sorted(g.live_blocks()):
            for st in g.stmts(b):
                if st[0] == "=" and st[2][0] == "agg" and isinstance(st[2][1], list) and st[2][1][0] == "adt" and st[2][1][1] == "apollo_compiler::executable::" + ty:
                    aggs.append(st)
        if not aggs:
            raise Undecided("%s::from_ast: no executable::%s aggregate" % (ty, ty))
        ext = [c for c in g.live_calls() if c.name.endswith("::extend_from_ast")]
        ok_sel = bool(ext) and all(re.search(r"arg%d\)?\.selection_set" % ai, g.sym(c.args[3])) for c in ext)
        bad = []
        for st in aggs:
            for n, o in zip(st[2][1][3], st[2][2]):
                if n == "selection_set":
                    continue
                want = "type_condition" if (ty == "Fragment" and n == "type_condition") else n
                if not re.search(r"arg%d\)?\.%s\b" % (ai, re.escape(want)), g.sym(o)):
                    bad.append((n, g.sym(o)[:60]))
        rep.obligation(ok_sel and not bad)
        if ok_sel and not bad:
            rep.instance("C19.FROMAST", "%s::from_ast: every field is drawn from the same-named field of the AST definition; selections through extend_from_ast(ast.selection_set)" % ty)
        else:
            rep.finding("C19.FROMAST", g.name, "fields:" + ",".join(n for n, _ in bad) if bad else "selection_set",
                        "%s::from_ast does not draw %s from the AST definition" % (ty, bad if bad else "its selections"), g.loc())


def run(prog, rep):
    rule_fields(prog, rep)
    rule_sel(prog, rep)
    rule_doc(prog, rep)
    rule_fieldset(prog, rep)
    rule_fromast(prog, rep)
    # the lowered AST is printed by the AST printer (C08 / C09 rules, shared)
    from . import C08
    C08.run(prog, rep)
    rep.note("printing of the lowered AST is C08/C09; typing of the re-parsed document is C18; equality of the round trip is not decided")
