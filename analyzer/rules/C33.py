"""C33 — Generated responses match the operation's shape (DESIGN.md C33).

The shape of generated data is a statement about runtime values and is NOT decided as a whole.
Decided: the structural conditions in apollo-smith's ResponseBuilder that the shape rests on."""
import re

from ..core import Undecided
from ..flow import _strip, branch_on_call, derives, edge_facts, facts_at
from ..tables import enum_paths, return_value_on_path

CRATES = ["apollo_smith"]
LEVEL = "other"
EXPLANATION = """
C33.COLLECT: collect_fields groups a field under alias-or-name, enters a named fragment only if it
exists and its type condition matches the *concrete* type, enters an inline fragment when it has
no condition or the condition matches, and recurses with the same concrete type (recursing with
the fragment's own type condition drops keys selected through nested type conditions).
C33.MATCH: type_condition_matches is the table cond == concrete | Interface: concrete is an object
implementing cond | Union: concrete is a member | otherwise false.  C33.TYPENAME: the concrete
type chosen once per selection set is the one given to collect_fields and the one written for
__typename.  C33.NULL: a generated null is written only under `!ty.is_non_null()`.
C33.CONCRETE: the two passes over schema.types that count and pick an interface's implementers
apply the same filter (sibling agreement), and union members / enum values are picked by index
from the type's own collection.  C33.NEST: abstract evaluation of generate_field_value for list depths d = 0..3 of the field's
declared type: switches on is_list()/is_named()/Type variants of an expression of known depth
follow only the agreeing edge, item_type() and a List payload are one level less, a generator call
whose result is pushed into a Vec adds one array level; the produced depths must be exactly {d}.
"""

RB = r"apollo_smith::response::ResponseBuilder::<'a, 'doc, 'schema, R>::"


ANCHORS = r"::(collect_fields|concrete_type|type_condition_matches|selection_set|generate_field_value|repeated_selection_set|repeated_leaf_field|overlaid_object|overlaid_value|overlaid_composite|leaf_field|arbitrary_len|should_be_null|choose_index|try_generate|generate_scalar)$"


def F(prog, name):
    """the named method with the private helpers extracted from it folded back in"""
    return prog.inline(prog.fn("^" + RB + name + "$"), keep=ANCHORS)


def _inline_condition_hir(prog, f):
    """typed-HIR form of the inline-fragment guard: the recursion sits under `if matches` where
    `matches = match &inline.type_condition { None => true, Some(c) => self.type_condition_matches(c, concrete_type) }`
    (or directly under such a condition)"""
    from ..hirq import walk
    from ..hirx import Scope, ancestors, mcalls
    hb = prog.hir_body(f)
    sc = Scope(hb)
    recs = [m for m in mcalls(hb["body"], "::collect_fields") if "inline" in sc.key(m["args"][0])]
    if len(recs) != 1:
        return False
    anc = ancestors(hb["body"], recs[0])
    ifs = [a for a in anc if a.get("k") == "if" and any(x is recs[0] for x in walk(a["then"]))]
    for i in reversed(ifs):
        c = i["cond"]
        if c.get("k") == "path" and c["res"][0] == "local" and c["res"][2] in sc.lets:
            init = sc.lets[c["res"][2]]["init"]
        else:
            init = c
        if init.get("k") != "match" or not sc.key(init["scrut"]).endswith(".type_condition"):
            continue
        good = 0
        for arm in init["arms"]:
            vs = [q for q in walk(arm["pat"]) if q.get("k") in ("path", "tstruct") and q.get("res") and q["res"][0] == "def"]
            nm = (vs[0]["res"][2].split("::")[-1]) if vs else None
            body = arm["body"]
            if nm == "None" and body.get("k") == "lit" and body.get("v") is True:
                good += 1
            elif nm == "Some" and body.get("k") == "mcall" and body["m"] == "type_condition_matches":
                binds = [q for q in walk(arm["pat"]) if q.get("k") == "bind"]
                a = body["args"]
                if len(binds) == 1 and a[0].get("k") == "path" and a[0]["res"][2] == binds[0]["id"] and sc.key(a[1]) == "param:concrete_type":
                    good += 1
        if good == 2 and len(init["arms"]) == 2:
            return True
    return False


def rule_collect(prog, rep):
    rep.floor("C33.COLLECT", 3)
    f = F(prog, "collect_fields")
    SEL = r"<Iter<'a, T> as Iterator>::next\(&<Vec<T, A> as IntoIterator>::into_iter\(&arg2\.selections\)\)\.as:Some\.0"
    recs = [c for c in f.live_calls() if c.uid == f.uid]
    spread = [c for c in recs if "fragments" in f.sym(c.args[1])]
    inline = [c for c in recs if "InlineFragment" in f.sym(c.args[1])]
    ok = len(recs) == 2 and len(spread) == 1 and len(inline) == 1
    if not ok:
        rep.finding("C33.COLLECT", f.name, "recursion", "collect_fields does not have exactly one recursive call per fragment kind", f.loc())
        return
    for c, what in ((spread[0], "FragmentSpread"), (inline[0], "InlineFragment")):
        s = [f.sym(a) for a in c.args]
        same_type = s[2] == "&arg3" and s[0] == "&arg1"
        if what == "FragmentSpread":
            sel = re.search(r"IndexMap::get\(&\*<Valid<T> as Deref>::deref\(&arg1\.doc\)\.fragments, .*%s\.as:FragmentSpread\.0\)\.fragment_name\)\.as:Some\.0\)\.selection_set$" % SEL, s[1]) is not None
        else:
            sel = re.search(r"%s\.as:InlineFragment\.0\)\.selection_set$" % SEL, s[1]) is not None
        fs = facts_at(f, c.block)
        if what == "FragmentSpread":
            cond = any(x[0] == "callbool" and x[1].endswith("type_condition_matches") and x[3] is True and f.sym(x[4].args[2]) == "&arg3" and "Fragment::type_condition(" in f.sym(x[4].args[1]) for x in fs)
            cond = cond and any(x[0] == "variant" and x[2] == "Some" and "IndexMap::<K, V, S>::get" in x[1] for x in _strip(fs))
        else:
            # on the resolved CFG: the test type_condition_matches(<this fragment's condition>,
            # concrete) exists, and its false edge cannot reach the recursion within the iteration
            from ..flow import derives as _derives
            cond = False
            tcm = [x for x in f.live_calls() if x.name.endswith("type_condition_matches") and "InlineFragment" in f.sym(x.args[1]) and "type_condition" in f.sym(x.args[1])]
            nxt = [x.block for x in f.live_calls() if re.search(r"Iterator>?::next$", x.name)]
            if len(tcm) == 1 and f.sym(tcm[0].args[2]) == "&arg3":
                br = branch_on_call(f, tcm[0])
                if br is not None:
                    t_true, t_false, _sb = br
                    cond = c.block not in f.reachable_blocks([t_false], avoid=nxt) and c.block in f.reachable_blocks([t_true], avoid=nxt)
            if not cond:
                cond = _inline_condition_hir(prog, f)
        ok = same_type and sel and cond
        rep.obligation(ok)
        if ok:
            rep.instance("C33.COLLECT", "%s: type condition checked against the concrete type; recursion into its own selection set with the same concrete type" % what)
        else:
            rep.finding("C33.COLLECT", f.name, what,
                        "the %s arm of collect_fields recurses with (%s) [same concrete type: %s, own selections: %s, condition on the concrete type: %s]: response keys selected through nested type conditions are dropped or added" % (
                            what, ", ".join(x[:60] for x in s), same_type, sel, cond), c.loc())
    # merging: what a fragment contributes is *added* to the group already collected under the same
    # response key (CollectFields appends to groupForResponseKey).  The recursive call's map must be
    # consumed entry by entry into `collected.entry(key).or_default()`; handing it to
    # IndexMap::extend / insert replaces the group collected so far.
    for c, what in ((spread[0], "FragmentSpread"), (inline[0], "InlineFragment")):
        res = "call:" + f.apath_s(c.dest).split("call:")[-1] if "call:" in f.apath_s(c.dest) else None
        replaced = [x for x in f.live_calls() if re.search(r"Extend<\(K, V\)>>::extend$|IndexMap::<K, V, S>::(insert|insert_full|extend)$|IndexMap<K, V, S> as std::iter::Extend", x.name + " " + x.orig_name)
                    and any(("collect_fields(" in f.sym(a) and ("FragmentSpread" in f.sym(a)) == (what == "FragmentSpread")) for a in x.args[1:])]
        merged = [x for x in f.live_calls() if re.search(r"Vec::<T, A>::(append|extend|extend_from_slice)$|Vec<T, A> as std::iter::Extend", x.name + " " + x.orig_name)
                  and re.search(r"Entry::or_default\(IndexMap::entry\(", f.sym(x.args[0]))
                  and "collect_fields(" in f.sym(x.args[1]) and ("FragmentSpread" in f.sym(x.args[1])) == (what == "FragmentSpread")]
        ok = bool(merged) and not replaced
        rep.obligation(ok)
        if ok:
            rep.instance("C33.COLLECT", "%s: the fields it contributes are appended to the group already collected under the same response key" % what)
        else:
            rep.finding("C33.COLLECT", f.name, "merge:" + what,
                        "the fields collected from a %s are %s: a group already collected under the same response key is replaced, so sub-selections of the earlier occurrences are missing from the generated response" % (
                            what, "given to `%s` on the result map" % replaced[0].name.split("::")[-1] if replaced else "not appended to `collected.entry(key).or_default()`"), c.loc())
    ent = [c for c in f.live_calls() if c.name.endswith("IndexMap::<K, V, S>::entry")]
    push = [c for c in f.live_calls() if c.name.endswith("Vec::<T, A>::push")]
    ok = False
    if len(push) == 1:
        from ..flow import derives as _derives2
        shape = re.search(r"to_string\(&\*Option::unwrap_or\(Option::as_ref\(&\*<Node<T> as Deref>::deref\(&\*%s\.as:Field\.0\)\.alias\), &\*<Node<T> as Deref>::deref\(&\*%s\.as:Field\.0\)\.name\)\)" % (SEL, SEL), f.sym(push[0].args[0])) is not None
        paths, via = _derives2(f, push[0].args[0], maxn=1500)
        ents = [x for x in via if x.name.endswith("IndexMap::<K, V, S>::entry")]
        keyed = False
        for e in ents:
            kp, kv = _derives2(f, e.args[1], maxn=1500)
            has_alias = any(re.search(r"\.alias(\.as:Some\.0)?$", q) for q in kp)
            has_name = any(q.endswith(".name") for q in kp)
            keyed = keyed or (has_alias and has_name) or any(x.name.endswith("Field::response_key") for x in kv)
        pushed_field = "as:Field.0" in f.sym(push[0].args[1])
        ok = (shape or keyed) and pushed_field
    rep.obligation(ok)
    if ok:
        rep.instance("C33.COLLECT", "Field: grouped under alias.unwrap_or(name)")
    else:
        rep.finding("C33.COLLECT", f.name, "field-key", "fields are not grouped under their response key (alias or name)", f.loc())


def rule_match(prog, rep):
    rep.floor("C33.MATCH", 4)
    f = F(prog, "type_condition_matches")
    got = {}
    for atoms, rb, path in enum_paths(f, inner_loops="cut"):
        a = _strip(atoms)
        rv = return_value_on_path(f, path) or ""
        eq = [x for x in a if x[0] == "callbool" and "PartialEq" in x[1] and set(x[2]) == {"arg2", "arg3"}]
        if not eq:
            raise Undecided("type_condition_matches: a path does not compare cond with concrete")
        if eq[0][3] is True:
            got.setdefault("equal", set()).add(rv)
            continue
        kind = None
        for x in a:
            if x[0] == "variant" and x[1].endswith("get@4.as:Some.0"):
                kind = x[2]
            if x[0] == "variant_in" and x[1].endswith("get@4.as:Some.0"):
                kind = "other"
            if x[0] == "variant" and x[1].endswith("get@4") and x[2] == "None":
                kind = "undefined"
        if kind == "Interface":
            obj = any(x[0] == "variant" and x[1].endswith("get@10.as:Some.0") and x[2] == "Object" for x in a)
            con = [x for x in a if x[0] == "callbool" and x[1].endswith("IndexSet::<T, S>::contains")]
            if obj and con:
                got.setdefault("Interface:object:implements=%s" % con[0][3], set()).add(rv)
            else:
                got.setdefault("Interface:not-object", set()).add(rv)
        else:
            got.setdefault(kind, set()).add(rv)
    look = [c for c in f.live_calls() if c.name.endswith("IndexMap::<K, V, S>::get")]
    ok_look = len(look) == 2 and "&arg2" in [f.sym(look[0].args[1])] and "&arg3" in [f.sym(look[1].args[1])] and all(".schema).types" in f.sym(c.args[0]) for c in look)
    want = {"equal": {"const:true"}, "Interface:object:implements=True": {"const:true"}, "Interface:object:implements=False": {"const:false"},
            "Interface:not-object": {"const:false"}, "other": {"const:false"}, "undefined": {"const:false"}}
    ok = ok_look
    for k, v in want.items():
        ok = ok and got.get(k) == v
    un = got.get("Union", set())
    ok_union = len(un) == 1 and re.match(r"^Iterator::any\(&IndexSet::iter\(.*\.as:Union\.0\)\.members\), closure:", list(un)[0]) is not None
    cl = [g for g in prog.fns.values() if g.parent == f.uid and g.kind == "closure"]
    if ok_union and len(cl) == 1:
        rows = enum_paths(cl[0])
        rv = return_value_on_path(cl[0], rows[0][2]) if len(rows) == 1 else ""
        ok_union = re.search(r"PartialEq.*::eq\(&\(?\*?arg2\)?\.name, .*arg1\.0\)", rv or "") is not None
    rep.obligation(ok and ok_union)
    if ok and ok_union:
        for k in list(want) + ["Union"]:
            rep.instance("C33.MATCH", "type_condition_matches: %s -> %s" % (k, sorted(got.get(k, []))[0][:60]))
    else:
        rep.finding("C33.MATCH", f.name, "table", "type_condition_matches is %s" % {k: sorted(v) for k, v in got.items()}, f.loc())


def rule_selection(prog, rep):
    rep.floor("C33.TYPENAME", 1)
    rep.floor("C33.NULL", 1)
    f = F(prog, "selection_set")
    ct = [c for c in f.live_calls() if c.name.endswith("::concrete_type")]
    cf = [c for c in f.live_calls() if c.name.endswith("::collect_fields")]
    ok = len(ct) == 1 and len(cf) == 1 and f.sym(ct[0].args[1]) == "&arg2.ty" and f.sym(cf[0].args[1]).lstrip("&") == "arg2"
    conc = None
    if ok:
        conc = f.sym(cf[0].args[2])
        ok = "concrete_type(" in conc
    # __typename value derives from the same concrete
    ts = [c for c in f.live_calls() if re.search(r"ToString>?::to_string$", c.name) and "concrete_type(" in f.sym(c.args[0])]
    ok = ok and len(ts) >= 1
    if ok:
        fs = facts_at(f, ts[0].block)
        ok = any(x[0] == "callbool" and "PartialEq" in x[1] and x[3] is True and any("TYPENAME" in (a or "") or "__typename" in (a or "") for a in x[2]) for x in fs) or any(x[0] == "callbool" and "PartialEq" in x[1] and x[3] is True for x in fs)
    # the meta field is recognised by the field's *name*: an aliased `kind: __typename` is still
    # __typename, and a field aliased `__typename: other` is not (sibling functions agree)
    for g in [f] + prog.fns_matching("^" + RB + "overlaid_object$"):
        tg = [c for c in g.live_calls() if re.search(r"ToString>?::to_string$", c.name)]
        for t in tg:
            eqs = [x for x in facts_at(g, t.block) if x[0] == "callbool" and re.search(r"PartialEq.*::eq$", x[1]) and x[3] is True]
            if not eqs:
                continue
            byname = any(re.search(r"\.as:Some\.0\.1\b.*\.name$", g.sym(a)) for x in eqs for a in x[4].args)
            rep.obligation(byname)
            if byname:
                rep.instance("C33.TYPENAME", "%s: the __typename test reads the name of the group's first field" % g.name.split("::")[-1])
            else:
                rep.finding("C33.TYPENAME", g.name, "typename-test",
                            "the test that decides whether a group is the __typename meta field compares `%s`, not the field's name: an aliased `kind: __typename` is generated as an arbitrary String leaf (and a field aliased to `__typename` as a type name)" % " / ".join(g.sym(a)[-60:] for a in eqs[0][4].args), t.loc())
    rep.obligation(ok)
    if ok:
        rep.instance("C33.TYPENAME", "selection_set: one concrete_type(selection_set.ty) feeds both collect_fields and the __typename value")
    else:
        rep.finding("C33.TYPENAME", f.name, "concrete", "the concrete type used to collect fields is not the one written for __typename (or is chosen more than once)", f.loc())
    # null only for nullable types
    nulls = []
    for b in sorted(f.live_blocks()):
        for s in f.stmts(b):
            if s[0] == "=" and s[2][0] == "agg" and isinstance(s[2][1], list) and s[2][1][0] == "adt" and s[2][1][1].endswith("Value") and s[2][1][2] == "Null":
                nulls.append(b)
    ok = bool(nulls)
    for b in nulls:
        fs = facts_at(f, b)
        ok = ok and any(x[0] == "callbool" and x[1].endswith("Type>::is_non_null") and x[3] is False and "Field::ty(" in f.sym(x[4].args[0]) for x in fs)
    rep.obligation(ok)
    if ok:
        rep.instance("C33.NULL", "selection_set: Value::Null is produced only where !meta_field.ty().is_non_null()")
    else:
        rep.finding("C33.NULL", f.name, "null-gate", "a generated null is not guarded by the field type's nullability", f.loc())


def rule_concrete(prog, rep):
    rep.floor("C33.CONCRETE", 3)
    f = F(prog, "concrete_type")
    cls = sorted((g for g in prog.fns.values() if g.parent == f.uid and g.kind == "closure"), key=lambda g: g.name)
    # the counting filter and the picking filter_map test the same thing
    sigs = []
    for g in cls:
        tests = []
        for c in g.live_calls():
            if c.name.endswith("IndexSet::<T, S>::contains"):
                tests.append(("contains", re.sub(r"arg2(\.\d+)?", "ITEM", g.sym(c.args[0]))[-60:], g.sym(c.args[1])))
        variants = []
        for b in sorted(g.live_blocks()):
            info = g.switch_info(b)
            if info and info.get("kind") == "enum" and info["adt"].endswith("ExtendedType"):
                variants.append(tuple(sorted(k for k, t in info["edges"].items())))
        sigs.append((tuple(tests), tuple(variants)))
    ok = len(cls) == 2 and sigs[0][0] and [t[0] for t in sigs[0][0]] == [t[0] for t in sigs[1][0]] and sigs[0][1] == sigs[1][1] and all("implements_interfaces" in t[1] for s in sigs for t in s[0])
    if not ok and not cls:
        # both passes go through one shared function (`implementing_object_types(schema, ty)`):
        # the count and the nth() are taken from two calls of the same callee with the same
        # arguments, and that callee filters on implements_interfaces
        cnt = [c for c in f.live_calls() if re.search(r"Iterator>?::count$", c.name)]
        nth = [c for c in f.live_calls() if re.search(r"Iterator>?::nth$", c.name)]
        if len(cnt) == 1 and len(nth) == 1:
            a, b = f.sym(cnt[0].args[0]), f.sym(nth[0].args[0])
            shared = [g for g in prog.fns.values() if g.crate == f.crate and g.kind in ("fn", "assoc_fn") and a.lstrip("&").startswith(g.name.split("::")[-1] + "(") or a.lstrip("&").startswith("response::" + g.name.split("::")[-1] + "(")]
            body_ok = False
            for g in shared:
                for h in [g] + [x for x in prog.fns.values() if x.kind == "closure" and x.name.startswith(g.name + "::")]:
                    if any(c.name.endswith("IndexSet::<T, S>::contains") and "implements_interfaces" in h.sym(c.args[0]) for c in h.live_calls()):
                        body_ok = True
            ok = a.lstrip("&") == b.lstrip("&") and body_ok
    rep.obligation(ok)
    if ok:
        rep.instance("C33.CONCRETE", "interface: the count pass and the nth(idx) pass filter schema.types identically (Object that implements the interface)")
    else:
        rep.finding("C33.CONCRETE", f.name, "filters", "the pass that counts an interface's implementers and the pass that picks the idx-th one apply different filters (%s)" % (sigs,), f.loc())
    gi = [c for c in f.live_calls() if c.name.endswith("IndexSet::<T, S>::get_index")]
    ch = [c for c in f.live_calls() if c.name.endswith("choose_index")]
    ok = len(gi) == 1 and ".as:Union.0).members" in f.sym(gi[0].args[0]) and any("members" in f.sym(c.args[1]) for c in ch)
    rep.obligation(ok)
    if ok:
        rep.instance("C33.CONCRETE", "union: members.get_index(choose_index(members.len()))")
    else:
        rep.finding("C33.CONCRETE", f.name, "union", "a union's concrete type is not picked by index among its own members", f.loc())
    lf = F(prog, "leaf_field")
    ch = [c for c in lf.live_calls() if c.name.endswith("choose_index")]
    nth = [c for c in lf.live_calls() if re.search(r"Iterator>?::nth$", c.name)]
    ok = len(ch) == 1 and len(nth) == 1 and ".as:Enum.0).values" in lf.sym(ch[0].args[1]) and ".as:Enum.0).values" in lf.sym(nth[0].args[0]) and "choose_index(" in lf.sym(nth[0].args[1])
    rep.obligation(ok)
    if ok:
        rep.instance("C33.CONCRETE", "enum leaf: values.values().nth(choose_index(values.len())) - a defined value of that enum")
    else:
        rep.finding("C33.CONCRETE", lf.name, "enum", "an enum leaf is not picked among the enum's own defined values", lf.loc())


_LISTV = ("List", "NonNullList")
_NAMEDV = ("Named", "NonNullNamed")


def _var_depth(f, name, env):
    """a pattern binding: every definition is `ref (<type>.as:List|NonNullList).0`"""
    ds = set()
    for i, (_, nm) in enumerate(f.d["locals"]):
        if nm != name:
            continue
        for b in f.live_blocks():
            for st in f.stmts(b):
                if st[0] == "=" and st[1][0] == i and not st[1][1]:
                    ds.add(_type_depth(f, f.sym_rv(st[2]) if hasattr(f, "sym_rv") else _rv_sym(f, st[2]), env))
    return ds.pop() if len(ds) == 1 else None


def _rv_sym(f, rv):
    if rv[0] in ("ref", "use"):
        pl = rv[2] if rv[0] == "ref" else (rv[1][1] if rv[1][0] in ("c", "m") else None)
        if pl is None:
            return "?"
        base, proj = pl
        t = "arg%d" % base if 1 <= base <= f.d["argc"] else ("var:%s" % f.d["locals"][base][1] if f.d["locals"][base][1] else "?")
        for q in proj:
            if q == "*":
                t = "*" + t
            elif isinstance(q, list) and q[0] == "d":
                t = "(%s).as:%s" % (t, q[2])
            elif isinstance(q, list) and q[0] == "f":
                t = "%s.%s" % (t, q[2])
            else:
                return "?"
        return t
    return "?"


def _type_depth(f, sym, env):
    """abstract list depth of a `&Type` expression: parameters from env, the field's declared
    type is env['root'], item_type() and the payload of a List variant are one level less"""
    x = sym.strip()
    while True:
        y = x
        x = x.lstrip("&*").strip()
        if x.startswith("(") and x.endswith(")") and _balanced(x[1:-1]):
            x = x[1:-1].strip()
        m = re.match(r"^<Box<[^()]*> as (?:Deref|AsRef<[^()]*>)>::(?:deref|as_ref)\((.*)\)$", x)
        if m and _balanced(m.group(1)):
            x = m.group(1)
        m = re.match(r"^as<\*const [^()]*Type>\((.*)\.0\.pointer\)$", x)
        if m and _balanced(m.group(1)):
            x = m.group(1)
        if x == y:
            break
    m = re.match(r"^var:(\w+)$", x)
    if m:
        return _var_depth(f, m.group(1), env)
    m = re.match(r"^arg(\d+)$", x)
    if m:
        return env.get(int(m.group(1)))
    m = re.match(r"^arg1\.(\d+)$", x)
    if m and ("up", int(m.group(1))) in env:
        return env[("up", int(m.group(1)))]
    m = re.match(r"^(?:\w+::)*item_type\((.*)\)$", x)
    if m and _balanced(m.group(1)):
        d = _type_depth(f, m.group(1), env)
        return None if d is None else max(d - 1, 0)
    m = re.match(r"^(.*)\.as:(\w+)\.0$", x)
    if m and m.group(2) in _LISTV:
        d = _type_depth(f, m.group(1), env)
        return None if d is None else max(d - 1, 0)
    if re.match(r"^(?:\w+::)*Field::ty\(", x) and _balanced(x[x.index("(") + 1:-1]) and x.endswith(")"):
        return env.get("root")
    return None


def _balanced(t):
    n = 0
    for ch in t:
        if ch == "(":
            n += 1
        elif ch == ")":
            n -= 1
            if n < 0:
                return False
    return n == 0


def _consistent(f, facts, env):
    for x in facts:
        if x[0] == "callbool" and (x[1].endswith("Type>::is_list") or x[1].endswith("Type>::is_named")):
            d = _type_depth(f, f.sym(x[4].args[0]), env)
            if d is None:
                continue
            want = (d > 0) if x[1].endswith("is_list") else (d == 0)
            if x[3] is not want:
                return False
        elif x[0] == "variant" and x[2] in _LISTV + _NAMEDV:
            d = _type_depth(f, x[1], env)
            if d is None:
                continue
            if ((x[2] in _LISTV) != (d > 0)) is (x[3] is not False):
                return False
    return True


_REACH = {}


def _feasible(f, b, env):
    """is block b reachable from the entry along switch edges whose facts agree with the abstract
    list depths (a specialising walk: or-patterns and merged arms need no dominating edge)"""
    key = (f.uid, tuple(sorted((str(k), v) for k, v in env.items())))
    if key not in _REACH:
        succs = f.succs()
        seen, work = {0}, [0]
        while work:
            cur = work.pop()
            sw = f.term(cur)[0] == "switch"
            for n in dict.fromkeys(succs[cur]):
                if n in seen:
                    continue
                if sw and not _consistent(f, edge_facts(f, cur, n), env):
                    continue
                seen.add(n)
                work.append(n)
        _REACH[key] = seen
    return b in _REACH[key]


def rule_nest(prog, rep):
    """abstract evaluation of the generator over list depths 0..3: a field whose declared type has
    d list levels is generated with exactly d array levels"""
    rep.floor("C33.NEST", 4)
    entry = F(prog, "generate_field_value")
    impl_prefix = entry.name[:entry.name.rindex("::") + 2]

    def gen_fn(c):
        if not c.name.startswith(impl_prefix):
            return None
        g = prog.fns.get(c.uid) if getattr(c, "uid", None) is not None else None
        if g is None:
            try:
                g = prog.fn("^" + re.escape(c.name) + "$")
            except Exception:
                return None
        return g if "Result<serde_json_bytes::Value" in (g.d.get("sig_out") or "") else None

    def type_params(g):
        return [i + 1 for i, t in enumerate(g.d.get("sig_in") or []) if re.match(r"^&(?:'\w+ )?apollo_compiler::ast::Type$", t)]

    memo, active, trail = {}, set(), []

    def ev(g, env):
        key = (g.uid, tuple(sorted((str(k), v) for k, v in env.items())))
        if key in memo:
            return memo[key]
        if key in active:
            return {"unbounded recursion"}
        active.add(key)
        calls = []
        for c in g.live_calls():
            h = gen_fn(c)
            if h is None or not _feasible(g, c.block, env):
                continue
            calls.append((c, h))
        pushed = set()
        closure_out = set()
        for p in g.live_calls():
            if re.search(r"Vec::<T(, A)?>::push$", p.name) and _feasible(g, p.block, env):
                _, via = derives(g, p.args[1])
                for v in via:
                    for c, h in calls:
                        if v is c or (v.block == c.block):
                            pushed.add(c.block)
        # `(0..n).map(|_| <generator>(..)).collect()` into the array: the generator calls sit in a
        # closure of g; evaluate them there with the captured types' depths, as pushed elements
        arr = any(st[0] == "=" and st[2][0] == "agg" and isinstance(st[2][1], list) and st[2][1][0] == "adt" and st[2][1][1].endswith("Value") and st[2][1][2] == "Array"
                  for b in g.live_blocks() if _feasible(g, b, env) for st in g.stmts(b))
        for b in sorted(g.live_blocks()):
            if not _feasible(g, b, env):
                continue
            for st in g.stmts(b):
                if not (st[0] == "=" and st[2][0] == "agg" and isinstance(st[2][1], list) and st[2][1][0] == "closure"):
                    continue
                h0 = prog.fns.get(st[2][1][1])
                if h0 is None or not arr:
                    continue
                cenv = {}
                for i, o in enumerate(st[2][2]):
                    dd = _type_depth(g, g.sym(o), env)
                    if dd is not None:
                        cenv[("up", i)] = dd
                for cc in h0.live_calls():
                    hh = gen_fn(cc)
                    if hh is None or not _feasible(h0, cc.block, cenv):
                        continue
                    tps = type_params(hh)
                    if not tps:
                        sub = {0}
                    else:
                        henv = {i: _type_depth(h0, h0.sym(cc.args[i - 1]), cenv) for i in tps}
                        if any(v is None for v in henv.values()):
                            raise Undecided("%s: the list depth of a type given to %s inside a closure is not derivable" % (g.name.split("::")[-1], hh.name.split("::")[-1]))
                        sub = ev(hh, henv)
                    closure_out.update((1 + d) if isinstance(d, int) else d for d in sub)
        out = set(closure_out)
        for c, h in calls:
            tps = type_params(h)
            if not tps:
                d = 0
            else:
                henv = {}
                for i in tps:
                    henv[i] = _type_depth(g, g.sym(c.args[i - 1]), env)
                    if henv[i] is None:
                        raise Undecided("%s: the list depth of `%s` given to %s is not derivable" % (g.name.split("::")[-1], g.sym(c.args[i - 1])[:80], h.name.split("::")[-1]))
                r = ev(h, henv)
                for d in r:
                    if not isinstance(d, int):
                        out.add(d)
                        trail.append((g.name.split("::")[-1], h.name.split("::")[-1], c.loc()))
                r = {d for d in r if isinstance(d, int)}
                if len(r) > 1:
                    out |= {1 + d if c.block in pushed else d for d in r}
                    continue
                if not r:
                    continue
                d = next(iter(r))
            out.add(1 + d if c.block in pushed else d)
        if not calls and not closure_out:
            out.add(0)
        active.discard(key)
        memo[key] = out
        return out

    bad = None
    for d in range(4):
        got = ev(entry, {"root": d})
        if got != {d}:
            bad = (d, got)
            break
        rep.instance("C33.NEST", "a field type with %d list level(s) is generated with %d array level(s) on every generator path" % (d, d))
    rep.obligation(bad is None)
    if bad:
        d, got = bad
        # name the direct call of the entry that disagrees
        which = "?"
        for c in entry.live_calls():
            h = gen_fn(c)
            if h is None or not _feasible(entry, c.block, {"root": d}):
                continue
            tps = type_params(h)
            try:
                r = {0} if not tps else ev(h, {i: _type_depth(entry, entry.sym(c.args[i - 1]), {"root": d}) for i in tps})
            except Undecided:
                r = {"?"}
            if r != {d}:
                which = h.name.split("::")[-1]
                break
        rep.finding("C33.NEST", entry.name, "flat:" + which,
                    "a field whose declared type has %d list level(s) is generated with %s array level(s) (through %s): the generated value does not nest lists as the field type does" % (d, sorted(map(str, got)), which), entry.loc())


def run(prog, rep):
    rule_collect(prog, rep)
    rule_match(prog, rep)
    rule_selection(prog, rep)
    rule_concrete(prog, rep)
    rule_nest(prog, rep)
    rep.note("that executing the operation over the generated data reproduces it, and the JSON kind of custom generators, are not decided")
