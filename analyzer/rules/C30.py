"""C30 — Names and nodes are memory-safe shared values (DESIGN.md C30)."""
import re

from ..core import AnchorError, norm_path, op_const, op_local, op_place
from ..flow import branch_on_enum_call, count_paths, facts_at
from ..hirq import walk

CRATES = ["apollo_parser", "apollo_compiler", "apollo_smith"]
LEVEL = "other"
EXPLANATION = """
C30.UNSAFE: the unsafe blocks / unsafe impls of the three crates equal a reviewed table (a new
unsafe site is reported).  C30.REFCOUNT: Arc::from_raw only in Name::as_arc and wrapped in
ManuallyDrop::new; Arc::into_raw only in from_arc_unchecked and Clone; in Clone exactly one
Arc::clone moved into into_raw on the Some edge of as_arc and none on the None edge; in Drop exactly
one ManuallyDrop::drop on the Some edge; no forget/ptr::read/write/transmute/ManuallyDrop escape
elsewhere.  C30.REPR: Name's pointer/len are written only by the two constructors (and copied by
clone); the tag packed with an Arc pointer is TAG_ARC, with a &'static str TAG_STATIC, and
with_location preserves the tag.  C30.EQ: Eq/Ord/Hash of Name/Node/Component/ComponentName never
read location fields.  C30.COW: no DerefMut/AsMut/BorrowMut for Node; &mut T comes only from
make_mut/get_mut delegating to triomphe.  Trusted: std::sync::Arc, triomphe::Arc.
"""

# function name regex -> (expected number of unsafe blocks, reason)
UNSAFE_TABLE = [
    (r"^apollo_compiler::name::Name::from_arc_unchecked$", 1, "NonNull::new_unchecked on Arc::into_raw (never null)"),
    (r"^apollo_compiler::name::Name::new_static_unchecked$", 1, "NonNull::new_unchecked on &'static str pointer"),
    (r"^apollo_compiler::name::Name::as_str$", 1, "from_utf8_unchecked over (ptr,len) set by constructors (C30.REPR)"),
    (r"^apollo_compiler::name::Name::as_static_str$", 1, "same, under tag == TAG_STATIC"),
    (r"^apollo_compiler::name::Name::as_arc$", 1, "Arc::from_raw under tag == TAG_ARC, wrapped in ManuallyDrop (C30.REFCOUNT)"),
    (r"^<apollo_compiler::name::Name as std::ops::Drop>::drop$", 1, "ManuallyDrop::drop once (C30.REFCOUNT)"),
    (r"^apollo_compiler::parser::TaggedFileId::pack$", 1, "NonZero::new_unchecked(id | TAG) (C31.PACK)"),
    (r"^apollo_compiler::parser::TaggedFileId::file_id$", 1, "NonZero::new_unchecked(x & ID_MASK) (C31.PACK)"),
    (r"^apollo_compiler::validation::Valid::<T>::assume_valid_ref$", 1, "repr(transparent) reference cast"),
    (r"^apollo_parser::parser::generated::<impl std::convert::From<u16> for apollo_parser::parser::generated::syntax_kind::SyntaxKind>::from$", 1, "transmute u16 -> repr(u16) SyntaxKind under an assert on __LAST"),
    (r"^<apollo_parser::parser::language::GraphQLLanguage as rowan::Language>::kind_from_raw$", 1, "same transmute under an assert"),
]
UNSAFE_IMPLS = {("std::marker::Send", "apollo_compiler::name::Name"), ("std::marker::Sync", "apollo_compiler::name::Name")}

BANNED = [
    (r"(^|::)mem::forget$", "mem::forget"),
    (r"(^|::)ptr::read(_unaligned|_volatile)?$", "ptr::read"),
    (r"(^|::)ptr::write(_unaligned|_volatile)?$", "ptr::write"),
    (r"(^|::)intrinsics::transmute$|mem::transmute$", "transmute"),
    (r"ManuallyDrop::<T>::(into_inner|take)$", "ManuallyDrop::into_inner/take"),
    (r"sync::Arc::<T(, A)?>::(increment|decrement)_strong_count$", "Arc::*_strong_count"),
]


def rule_unsafe(prog, rep):
    rep.floor("C30.UNSAFE", 11)
    seen = {}
    for c in prog.crates:
        for uid, b in prog.hir(c).items():
            n = 0
            macro = 0
            for x in walk(b["body"]):
                if x.get("unsafe") == "user":
                    m = x.get("mac") or ""
                    if x.get("x") and re.search(r"\bpin\b", m):
                        macro += 1
                    else:
                        n += 1
            if n:
                seen[b["name"]] = (n, b["span"])
            if macro:
                rep.instance("C30.UNSAFE", "%s: %d unsafe block(s) from std's pin! expansion (Pin::new_unchecked on a shadowed local)" % (b["name"], macro))
    for name, (n, sp) in sorted(seen.items()):
        row = [r for r in UNSAFE_TABLE if re.search(r[0], name)]
        if not row:
            rep.finding("C30.UNSAFE", name, "unreviewed-unsafe", "%d unsafe block(s) in a function that is not in the reviewed table" % n, "%s:%d" % (sp[0], sp[1]))
        elif row[0][1] != n:
            rep.finding("C30.UNSAFE", name, "unsafe-count", "%d unsafe block(s), the reviewed table has %d" % (n, row[0][1]), "%s:%d" % (sp[0], sp[1]))
        else:
            rep.instance("C30.UNSAFE", "%s: %d unsafe block - %s" % (name, n, row[0][2]))
    for pat, n, why in UNSAFE_TABLE:
        if not any(re.search(pat, nm) for nm in seen):
            rep.note("reviewed unsafe site %s no longer exists" % pat)
    for uid, imp in sorted(prog.impls.items()):
        if imp.get("unsafe"):
            key = (imp.get("trait"), imp.get("self"))
            if imp.get("trait") == "std::clone::TrivialClone":
                continue  # emitted by #[derive(Clone, Copy)]
            if key in UNSAFE_IMPLS:
                rep.instance("C30.UNSAFE", "unsafe impl %s for %s (reviewed: (tag, ptr, len) represents Arc<str> | &'static str, both Send + Sync)" % key)
            else:
                sp = imp.get("span")
                rep.finding("C30.UNSAFE", "impl %s for %s" % key, "unreviewed-unsafe-impl", "unsafe impl not in the reviewed table", "%s:%d" % (sp[0], sp[1]) if sp else None)
    for fn in prog.fns.values():
        if fn.d.get("unsafe"):
            rep.finding("C30.UNSAFE", fn.name, "unsafe-fn", "unsafe fn not in the reviewed table", fn.loc())
    # const assertion on UnpackedRepr exists and its variants are Arc<str> / &'static str
    ur = prog.adt(r"^apollo_compiler::name::UnpackedRepr$")
    tys = sorted(f[1] for v in ur["variants"] for f in v["fields"])
    if tys == ["&'static str", "std::sync::Arc<str>"]:
        rep.instance("C30.UNSAFE", "UnpackedRepr variants are Arc<str> and &'static str")
    else:
        rep.finding("C30.UNSAFE", ur["name"], "unpacked-repr", "UnpackedRepr (the safe model of Name) is no longer {Arc<str>, &'static str}: %s" % tys, None)
    asserts = [f for f in prog.fns.values() if re.search(r"name::.*assert_send_and_sync$", f.name)]
    if asserts:
        rep.instance("C30.UNSAFE", "const assertion assert_send_and_sync exists")
    else:
        rep.finding("C30.UNSAFE", "apollo_compiler::name", "send-sync-assert", "the const Send+Sync assertion over the unpacked representation is gone", None)


def _all_calls(prog, pat, crates=None):
    rx = re.compile(pat)
    out = []
    for fn in prog.fns.values():
        if crates and fn.crate not in crates:
            continue
        for c in fn.live_calls():
            if rx.search(c.name):
                out.append((fn, c))
    return out


def rule_refcount(prog, rep):
    rep.floor("C30.REFCOUNT", 7)
    as_arc = prog.fn(r"^apollo_compiler::name::Name::as_arc$")
    from_arc = prog.fn(r"^apollo_compiler::name::Name::from_arc_unchecked$")
    clone = prog.fn(r"^<apollo_compiler::name::Name as std::clone::Clone>::clone$")
    drop = prog.fn(r"^<apollo_compiler::name::Name as std::ops::Drop>::drop$")
    # from_raw
    sites = _all_calls(prog, r"sync::Arc::<T(, A)?>::from_raw(_in)?$|triomphe::.*::from_raw$")
    for fn, c in sites:
        if fn.uid != as_arc.uid:
            rep.finding("C30.REFCOUNT", fn.name, "from_raw", "Arc::from_raw outside Name::as_arc: takes ownership of a reference count nobody gave up (double free)", c.loc())
    fr = [c for fn, c in sites if fn.uid == as_arc.uid]
    if len(fr) != 1:
        raise AnchorError("Name::as_arc: expected one Arc::from_raw")
    md = [c for c in as_arc.live_calls() if re.search(r"ManuallyDrop::<T>::new$", c.name)]
    if len(md) == 1 and as_arc.sym(md[0].args[0]).startswith("Arc::from_raw("):
        fs = facts_at(as_arc, fr[0].block)
        tag_ok = any(f[0] == "cmp" and re.search(r"call:.*TaggedFileId::tag@", f[2] + f[3]) for f in fs)
        if tag_ok:
            rep.instance("C30.REFCOUNT", "as_arc: ManuallyDrop::new(Arc::from_raw(..)) under a test of the tag")
        else:
            rep.finding("C30.REFCOUNT", as_arc.name, "from_raw-unguarded", "Arc::from_raw is not guarded by a test of the tag bit", fr[0].loc())
    else:
        rep.finding("C30.REFCOUNT", as_arc.name, "from_raw-not-manuallydrop", "the Arc rebuilt by from_raw is not immediately wrapped in ManuallyDrop::new: dropping it would free memory the Name still points to", fr[0].loc())
    # tag test value: TAG_ARC is `true`
    tst = None
    for b in as_arc.live_blocks():
        info = as_arc.switch_info(b)
        if info and info.get("kind") == "bool":
            tst = (as_arc.sym(info["local"]), info["edges"])
    if tst:
        e, edges = tst
        on_true = fr[0].block in as_arc.reachable_blocks([edges[True]]) and fr[0].block not in as_arc.reachable_blocks([edges[False]])
        m = re.match(r"^(Eq|Ne)\(TaggedFileId::tag\(arg1\.tagged_file_id\), const:(true|false)\)$", e)
        if m:
            is_arc_side = (m.group(1) == "Eq") == (m.group(2) == "true")
            if is_arc_side != on_true:
                rep.finding("C30.REFCOUNT", as_arc.name, "tag-polarity", "as_arc rebuilds an Arc on the branch where the tag says the pointer is a &'static str", fr[0].loc())
            else:
                rep.instance("C30.REFCOUNT", "as_arc: from_raw only when tag == TAG_ARC (true)")
        else:
            rep.fail("UNDECIDED rule=C30.REFCOUNT as_arc: tag test idiom not recognised (%s)" % e)
    # into_raw
    for fn, c in _all_calls(prog, r"sync::Arc::<T(, A)?>::into_raw(_with_allocator)?$"):
        if fn.uid not in (from_arc.uid, clone.uid):
            rep.finding("C30.REFCOUNT", fn.name, "into_raw", "Arc::into_raw outside from_arc_unchecked / Clone::clone (leaks a reference count)", c.loc())
    # Clone
    aa = [c for c in clone.live_calls() if c.uid == as_arc.uid]
    if len(aa) != 1:
        raise AnchorError("Name::clone: expected one as_arc call")
    r = branch_on_enum_call(clone, aa[0])
    if r is None:
        rep.fail("UNDECIDED rule=C30.REFCOUNT Name::clone: as_arc() result not matched directly")
    else:
        info, sw = r
        some_t = info["edges"].get("Some")
        none_t = info["edges"].get("None", info["otherwise"])
        if some_t is None:
            some_t, none_t = info["otherwise"], info["edges"].get("None")
        incs = set()
        for c in clone.live_calls():
            if re.search(r"sync::Arc::<T(, A)?>::into_raw$", c.name) and re.match(r"^<Arc(<[^>]*>)? as Clone>::clone\(", clone.sym(c.args[0])):
                incs.add(c.block)
        _, ex_s = count_paths(clone, some_t, lambda b: 1 if b in incs else 0)
        _, ex_n = count_paths(clone, none_t, lambda b: 1 if b in incs else 0)
        cs = set().union(*ex_s.values()) if ex_s else set()
        cn = set().union(*ex_n.values()) if ex_n else set()
        if cs == {1} and cn == {0}:
            rep.instance("C30.REFCOUNT", "Name::clone: exactly one Arc::clone -> into_raw (+1) on the Some edge, none on the None edge")
        else:
            rep.finding("C30.REFCOUNT", clone.name, "clone-increment", "Name::clone increments the reference count %s times on the Arc edge (want exactly 1) and %s on the static edge (want 0): use-after-free or leak" % (sorted(cs), sorted(cn)), clone.loc())
        # other Arc::clone results must not be dropped... (a clone not passed to into_raw is dropped = net 0, fine)
    # the new Name copies the representation of self
    for b in clone.live_blocks():
        for s in clone.stmts(b):
            if s[0] == "=" and s[1][0] == 0 and s[2][0] == "agg" and isinstance(s[2][1], list) and s[2][1][1].endswith("name::Name"):
                vals = dict(zip(s[2][1][3], [clone.sym(o) for o in s[2][2]]))
                bad = [k for k in ("ptr", "len", "start_offset", "tagged_file_id") if vals.get(k) != "arg1." + k]
                if bad:
                    rep.finding("C30.REFCOUNT", clone.name, "clone-repr", "Name::clone does not copy field(s) %s from self" % bad, clone.loc(s[3][0]))
                else:
                    rep.instance("C30.REFCOUNT", "Name::clone copies ptr/len/start_offset/tagged_file_id from self")
    # Drop
    aa = [c for c in drop.live_calls() if c.uid == as_arc.uid]
    mdd = set(c.block for c in drop.live_calls() if re.search(r"ManuallyDrop::<T>::drop$", c.name))
    if len(aa) != 1:
        raise AnchorError("Name::drop: expected one as_arc call")
    sw = [b for b in drop.live_blocks() if drop.switch_info(b) and drop.switch_info(b).get("kind") == "enum" and drop.switch_info(b)["adt"].endswith("option::Option")]
    if len(sw) != 1:
        rep.fail("UNDECIDED rule=C30.REFCOUNT Name::drop: Option match idiom not recognised")
    else:
        info = drop.switch_info(sw[0])
        if "call:apollo_compiler::name::Name::as_arc@" not in norm_path(drop.apath(info["place"])):
            rep.fail("UNDECIDED rule=C30.REFCOUNT Name::drop: match is not on as_arc()")
        else:
            some_t = info["edges"].get("Some", info["otherwise"])
            none_t = info["edges"].get("None", info["otherwise"])
            _, ex_s = count_paths(drop, some_t, lambda b: 1 if b in mdd else 0)
            _, ex_n = count_paths(drop, none_t, lambda b: 1 if b in mdd else 0)
            cs = set().union(*ex_s.values()) if ex_s else set()
            cn = set().union(*ex_n.values()) if ex_n else set()
            if cs == {1} and cn == {0}:
                rep.instance("C30.REFCOUNT", "Name::drop: exactly one ManuallyDrop::drop (-1) on the Some edge, none on the None edge")
            else:
                rep.finding("C30.REFCOUNT", drop.name, "drop-decrement", "Name::drop releases the reference count %s times on the Arc edge (want exactly 1), %s on the static edge (want 0)" % (sorted(cs), sorted(cn)), drop.loc())
    for fn, c in _all_calls(prog, r"ManuallyDrop::<T>::drop$"):
        if fn.uid != drop.uid:
            rep.finding("C30.REFCOUNT", fn.name, "manuallydrop-drop", "ManuallyDrop::drop outside <Name as Drop>::drop", c.loc())
    # to_cloned_arc: clone and return
    tca = prog.fn(r"^apollo_compiler::name::Name::to_cloned_arc$")
    clos = [f for f in prog.fns.values() if f.root == tca.uid]
    good = any(re.search(r"Arc<T, A> as std::clone::Clone>::clone$", c.name) for f in clos for c in f.live_calls()) and not any(
        re.search(r"into_raw|from_raw|ManuallyDrop::<T>::(drop|take|into_inner)", c.name) for f in clos + [tca] for c in f.live_calls())
    if good:
        rep.instance("C30.REFCOUNT", "to_cloned_arc: Arc::clone of the borrowed ManuallyDrop<Arc>, nothing else")
    else:
        rep.finding("C30.REFCOUNT", tca.name, "to_cloned_arc", "to_cloned_arc does not simply clone the borrowed Arc", tca.loc())
    # banned operations anywhere in the three crates (outside macro-generated transmute table rows)
    allowed_transmute = {r[0] for r in UNSAFE_TABLE if "transmute" in r[2]}
    nb = 0
    for pat, label in BANNED:
        for fn, c in _all_calls(prog, pat):
            if label == "transmute" and any(re.search(p, fn.name) for p in allowed_transmute):
                continue
            nb += 1
            rep.finding("C30.REFCOUNT", fn.name, "banned:" + label, "%s is not used anywhere in the reviewed tree; it can leak or duplicate a Name/Node reference count" % label, c.loc())
    # ManuallyDrop::new only in as_arc
    for fn, c in _all_calls(prog, r"ManuallyDrop::<T>::new$"):
        if fn.uid != as_arc.uid:
            rep.finding("C30.REFCOUNT", fn.name, "manuallydrop-new", "ManuallyDrop::new outside Name::as_arc (a Name or Arc wrapped this way is never released)", c.loc())
    rep.instance("C30.REFCOUNT", "no forget / ptr::read / ptr::write / transmute / ManuallyDrop escape in the three crates (banned-call scan over %d functions)" % len(prog.fns))


def rule_repr(prog, rep):
    rep.floor("C30.REPR", 3)
    ctor_names = {"from_arc_unchecked", "new_static_unchecked"}
    with_loc = prog.fn(r"^apollo_compiler::name::Name::with_location$")
    clone = prog.fn(r"^<apollo_compiler::name::Name as std::clone::Clone>::clone$")
    for fn in prog.fns.values():
        if fn.crate != "apollo_compiler":
            continue
        for b in fn.live_blocks():
            for s in fn.stmts(b):
                if s[0] != "=":
                    continue
                # aggregates
                if s[2][0] == "agg" and isinstance(s[2][1], list) and s[2][1][0] == "adt" and s[2][1][1] == "apollo_compiler::name::Name":
                    nm = fn.name.split("::")[-1]
                    if fn.name.startswith("apollo_compiler::name::Name::") and nm in ctor_names:
                        vals = dict(zip(s[2][1][3], [fn.sym(o) for o in s[2][2]]))
                        _check_ctor(prog, rep, fn, vals, s[3][0])
                    elif fn.uid == clone.uid:
                        pass
                    else:
                        rep.finding("C30.REPR", fn.name, "name-literal", "a Name is built field-by-field outside its two constructors and clone", fn.loc(s[3][0]))
                # field writes
                if s[1][1]:
                    base_ty = fn.local_ty(s[1][0])
                    d = fn.dest_s(s[1])
                    last = d.split(".")[-1]
                    # is the written place a field of a Name?
                    if last in ("ptr", "len", "start_offset", "tagged_file_id") and _place_is_name_field(fn, s[1]):
                        if fn.uid == with_loc.uid and last in ("start_offset", "tagged_file_id"):
                            continue
                        rep.finding("C30.REPR", fn.name, "field-write:" + last, "Name.%s is written outside the constructors / with_location" % last, fn.loc(s[3][0]))
                # mutable borrows of ptr/len
                if s[2][0] == "ref" and s[2][1] == "mut" and _place_is_name_field(fn, s[2][2]):
                    last = norm_path(fn.apath(s[2][2])).split(".")[-1]
                    if last in ("ptr", "len", "tagged_file_id"):
                        rep.finding("C30.REPR", fn.name, "field-borrow:" + last, "Name.%s is mutably borrowed" % last, fn.loc(s[3][0]))
    # with_location preserves the tag
    ok = False
    for b in with_loc.live_blocks():
        t = with_loc.term(b)
        if t[0] == "call":
            c = with_loc.call_at(b)
            if re.search(r"parser::TaggedFileId::pack$", c.name):
                a0, a1 = with_loc.sym(c.args[0]), with_loc.sym(c.args[1])
                if a0 == "TaggedFileId::tag(arg1.tagged_file_id)" and a1 == "arg2.file_id":
                    ok = True
                else:
                    rep.finding("C30.REPR", with_loc.name, "tag-preserved", "with_location packs tag `%s` / file id `%s`; expected the name's own tag and the location's file id" % (a0, a1), c.loc())
                    ok = True
    if ok:
        rep.instance("C30.REPR", "with_location: pack(self.tagged_file_id.tag(), location.file_id)")
    else:
        raise AnchorError("with_location: TaggedFileId::pack call not found")


def _place_is_name_field(fn, place):
    """does the place denote a direct field of a value of type Name?"""
    local, proj = place
    ty = fn.local_ty(local)
    fields = [e for e in proj if isinstance(e, list) and e[0] == "f"]
    if len(fields) != 1:
        return False
    return re.match(r"^(&(mut )?)?apollo_compiler::name::Name$", ty) is not None


def _check_ctor(prog, rep, fn, vals, line):
    nm = fn.name.split("::")[-1]
    if nm == "from_arc_unchecked":
        want_tag = "true"
        ptr_ok = re.match(r"^NonNull::new_unchecked\(.*Arc::into_raw\(arg1\).*\)$", vals.get("ptr", "")) is not None
        src = "Arc::into_raw(arg1)"
    else:
        want_tag = "false"
        ptr_ok = re.match(r"^NonNull::new_unchecked\(.*str::as_ptr\(&?\*?arg1\).*\)$", vals.get("ptr", "")) is not None
        src = "arg1.as_ptr()"
        if fn.d.get("sig_in", [""])[0] != "&'static str":
            rep.finding("C30.REPR", fn.name, "static-sig", "new_static_unchecked no longer requires a &'static str (signature: %s)" % fn.d.get("sig_in"), fn.loc())
    tagv = vals.get("tagged_file_id", "")
    m = re.match(r"^TaggedFileId::pack\(const:(true|false), ", tagv)
    len_ok = vals.get("len") in ("Name::new_len(arg1)", "Name::new_len(<Arc as Deref>::deref(&arg1))", "Name::new_len(&*<Arc as Deref>::deref(&arg1))") or re.match(r"^Name::new_len\(.*arg1.*\)$", vals.get("len", ""))
    if not ptr_ok:
        rep.finding("C30.REPR", fn.name, "ptr-prov", "Name.ptr is `%s`, expected NonNull of %s" % (vals.get("ptr"), src), fn.loc(line))
    elif not m or m.group(1) != want_tag:
        rep.finding("C30.REPR", fn.name, "tag-prov", "the tag packed next to this pointer is `%s`; %s must be tagged %s: a wrong tag makes drop free a static string or leak/never free an Arc" % (tagv[:60], src, "TAG_ARC" if want_tag == "true" else "TAG_STATIC"), fn.loc(line))
    elif not len_ok:
        rep.finding("C30.REPR", fn.name, "len-prov", "Name.len is `%s`, expected new_len of the same string" % vals.get("len"), fn.loc(line))
    else:
        rep.instance("C30.REPR", "%s: ptr <- %s, len <- new_len(same string), tag = %s" % (nm, src, "TAG_ARC" if want_tag == "true" else "TAG_STATIC"))


EQ_TRAITS = {"std::cmp::PartialEq", "std::cmp::Ord", "std::cmp::PartialOrd", "std::hash::Hash", "std::cmp::Eq"}
EQ_TYPES = r"^apollo_compiler::(name::Name|node::Node<T>|schema::component::Component<T>|schema::component::ComponentName)$"
LOCATION_FIELDS = {"start_offset", "tagged_file_id", "location", "origin", "header"}


def rule_eqtext(prog, rep):
    """C30.EQTEXT: two Names are equal exactly when their texts are equal (Hash and Ord follow
    the text too, so anything else breaks maps and sets): `Name::eq` returns the comparison of the
    two `as_str()` values on every path - a pointer fast path that does not also compare the
    length makes two static names that share a prefix equal."""
    from ..tables import enum_paths, return_value_on_path
    rep.floor("C30.EQTEXT", 1)
    f = prog.fn(r"^<apollo_compiler::name::Name as std::cmp::PartialEq>::eq$")
    f = prog.inline(f, keep=r"::(as_str|eq)$")
    bad = []
    n = 0
    for atoms, _rb, path in enum_paths(f):
        rv = return_value_on_path(f, path) or ""
        n += 1
        texts = re.search(r"eq\(&\(?\*?Name::as_str\(&\(?\*?arg1\)?\)\)?, &\(?\*?Name::as_str\(&\(?\*?arg2\)?\)\)?\)$", rv) is not None
        under = [a for a in atoms if a[0] == "callbool" and re.search(r"::eq$", a[1]) and len(a) > 4 and all("Name::as_str(" in f.sym(x) for x in a[4].args)]
        if texts:
            continue
        if rv in ("const:true", "const:false") and under and (under[-1][3] is True) == (rv == "const:true"):
            continue
        bad.append(rv[:80])
    rep.obligation(not bad)
    if not bad and n:
        rep.instance("C30.EQTEXT", "Name::eq is `self.as_str() == other.as_str()` on every path")
    else:
        rep.finding("C30.EQTEXT", f.name, "not-text-equality",
                    "Name::eq has a path whose result is `%s`, not the comparison of the two texts: names with different text can compare equal (or equal text unequal) while Hash and Ord follow the text" % (bad[0] if bad else "?"), f.loc())


def rule_eq(prog, rep):
    rep.floor("C30.EQ", 8)
    for fn in sorted(prog.fns.values(), key=lambda f: f.name):
        if not fn.impl or fn.impl.get("trait") not in EQ_TRAITS:
            continue
        if not re.match(EQ_TYPES, fn.impl.get("self", "")):
            continue
        bad = set()
        for b in fn.live_blocks():
            for s in fn.stmts(b):
                if s[0] == "=":
                    for pl in _places_of_rvalue(s[2]):
                        for e in pl[1]:
                            if isinstance(e, list) and e[0] == "f" and e[2] in LOCATION_FIELDS:
                                # `header` is fine when followed by .slice? triomphe HeaderSlice{header, slice}
                                bad.add(e[2])
        # calls to location accessors
        for c in fn.live_calls():
            if re.search(r"::(location|file_id|start_offset|origin)$", c.name):
                bad.add(c.name.split("::")[-1] + "()")
        if bad:
            rep.finding("C30.EQ", fn.name, "reads-location", "equality/ordering/hash reads location data (%s): two values with the same text would compare unequal" % sorted(bad), fn.loc())
        else:
            rep.instance("C30.EQ", "%s reads only text/payload" % fn.name)


def _places_of_rvalue(rv):
    k = rv[0]
    out = []
    def opl(o):
        p = op_place(o)
        if p is not None:
            out.append(p)
    if k == "use":
        opl(rv[1])
    elif k in ("ref", "raw"):
        out.append(rv[2])
    elif k == "cast":
        opl(rv[2])
    elif k == "bin":
        opl(rv[2]); opl(rv[3])
    elif k == "un":
        opl(rv[2])
    elif k == "discr":
        out.append(rv[1])
    elif k == "agg":
        for o in rv[2]:
            opl(o)
    return out


def rule_cow(prog, rep):
    rep.floor("C30.COW", 3)
    for imp in prog.impls.values():
        if imp.get("self_adt") in ("apollo_compiler::node::Node",) and imp.get("trait") in (
                "std::ops::DerefMut", "std::convert::AsMut", "std::borrow::BorrowMut", "std::ops::IndexMut"):
            rep.finding("C30.COW", imp["self"], "mut-access:" + imp["trait"].split("::")[-1],
                        "%s implements %s: mutation through a shared node would be visible to its clones" % (imp["self"], imp["trait"]), None)
    rep.instance("C30.COW", "no DerefMut/AsMut/BorrowMut/IndexMut impl for Node (Component derefs mutably only to its Node<T>, which keeps copy-on-write)")
    allowed = {"make_mut": r"triomphe::Arc::<T>::make_mut$", "get_mut": r"triomphe::Arc::<T>::get_mut$"}
    for fn in prog.fns.values():
        if fn.kind != "assoc_fn" or not fn.impl:
            continue
        st = fn.impl.get("self", "")
        if not re.match(r"^apollo_compiler::node::Node<", st):
            continue
        so = fn.d.get("sig_out", "")
        si = fn.d.get("sig_in", [])
        hands_out_mut = ("&mut " in so or "&'" in so and " mut " in so) and si and re.match(r"^&('\w+ )?mut ", si[0])
        if not hands_out_mut:
            continue
        nm = fn.name.split("::")[-1]
        if nm not in allowed:
            rep.finding("C30.COW", fn.name, "mut-accessor", "a method of Node other than make_mut/get_mut returns a mutable reference to the shared payload", fn.loc())
            continue
        calls = [c.name for c in fn.live_calls()]
        if not any(re.search(allowed[nm], n) for n in calls):
            rep.finding("C30.COW", fn.name, "not-delegating", "Node::%s does not delegate to triomphe::Arc::%s (copy-on-write / uniqueness check bypassed)" % (nm, nm), fn.loc())
        elif any(re.search(r"as_ptr|from_raw|into_raw|get_unchecked|as_mut_ptr|ptr::", n) for n in calls):
            rep.finding("C30.COW", fn.name, "raw-access", "Node::%s uses raw pointer access next to the triomphe call" % nm, fn.loc())
        else:
            rep.instance("C30.COW", "Node::%s delegates to triomphe::Arc::%s" % (nm, nm))
    # Node's field is private and only constructed through triomphe::Arc::from_header_and_* / Arc::new
    node = prog.adt(r"^apollo_compiler::node::Node$")
    priv = all(not f[2] for v in node["variants"] for f in v["fields"])
    if priv:
        rep.instance("C30.COW", "Node's inner Arc field is private")
    else:
        rep.finding("C30.COW", node["name"], "pub-field", "Node's inner Arc is public: callers can alias and mutate it", None)


def run(prog, rep):
    rule_unsafe(prog, rep)
    rule_refcount(prog, rep)
    rule_repr(prog, rep)
    rule_eq(prog, rep)
    rule_eqtext(prog, rep)
    rule_cow(prog, rep)
    if rep.tier == "thorough":
        from .. import witness
        witness.run(rep, ["c30_cow", "c30_cow_clone", "c30_send_sync"])
    rep.assume("std::sync::Arc and triomphe::Arc are memory-safe for their documented contracts")
