"""C25 — The introspection depth limit does not depend on fragments (DESIGN.md C25)."""
import re

from ..core import AnchorError, op_const, op_local, op_place
from ..flow import branch_on_enum_call, must_pass

CRATES = ["apollo_compiler"]
LEVEL = "other"
EXPLANATION = """
The depth check is one recursive function with a memo for named fragments.  C25.CMP: every
comparison against MAX_LISTS_DEPTH rejects from the same depth (threshold 3 = three nested list
fields), on the direct path and on the memoised fragment path alike (contradiction rule).
C25.ACC: every arm of the Selection match that obtains a sub-depth (inline fragment, fragment
spread on both the memo-hit and memo-miss edges, field) merges it into max_depth on every
non-error path before the next iteration.  C25.MEMO: the memo stores a depth relative to the
spread point (post - depth_so_far) and is read relative to depth_so_far.  Together these make the
verdict independent of whether selections are written with or without named fragments.
"""


def run(prog, rep):
    fn = prog.fn(r"^apollo_compiler::introspection::max_depth::check_selection_set$")
    mx = prog.const(r"^apollo_compiler::introspection::max_depth::MAX_LISTS_DEPTH$")
    MAX = int(mx["int"])
    live = sorted(fn.live_blocks())
    rep.floor("C25.CMP", 2)
    rep.floor("C25.ACC", 3)
    rep.floor("C25.MEMO", 2)
    # ---- CMP
    cmps = []
    for b in live:
        for s in fn.stmts(b):
            if s[0] == "=" and s[2][0] == "bin" and s[2][1] in ("Gt", "Ge", "Lt", "Le"):
                a, c = fn.sym(s[2][2]), fn.sym(s[2][3])
                op = s[2][1]
                if a == str(MAX) and c != str(MAX):
                    a, c = c, a
                    op = {"Gt": "Lt", "Lt": "Gt", "Ge": "Le", "Le": "Ge"}[op]
                if c != str(MAX):
                    continue
                # the constant operand must be the MAX_LISTS_DEPTH const, not an unrelated 3
                cmps.append((b, op, a, s[3][0]))
    if len(cmps) < 2:
        raise AnchorError("check_selection_set: expected two comparisons against MAX_LISTS_DEPTH, found %d" % len(cmps))
    thresholds = {}
    for b, op, a, line in cmps:
        if op == "Ge":
            t = MAX
        elif op == "Gt":
            t = MAX + 1
        else:
            rep.fail("UNDECIDED rule=C25.CMP comparison `%s %s %d` idiom not recognised" % (a, op, MAX))
            continue
        kind = "memo" if "HashMap::get" in a else "direct"
        thresholds[(kind, line)] = t
        rep.instance("C25.CMP", "%s path: rejects when depth %s %d (first rejected depth %d) at %s" % (kind, {"Ge": ">=", "Gt": ">"}[op], MAX, t, fn.loc(line)))
    ts = set(thresholds.values())
    direct = [t for (k, l), t in thresholds.items() if k == "direct"]
    for (k, line), t in sorted(thresholds.items()):
        if t != 3:
            rep.finding("C25.CMP", fn.name, "threshold:" + k,
                        "the %s path first rejects at depth %d, but the rule is `three or more nested list fields` (the other path rejects at %s): the same selections get a different verdict when written with a named fragment" % (k, t, sorted(ts - {t}) or [t]), fn.loc(line))
    # ---- ACC
    # loop header: the Iterator::next call
    nxt = [c for c in fn.live_calls() if re.search(r"Iterator>::next$|Iterator::next$", c.name)]
    if len(nxt) != 1:
        raise AnchorError("check_selection_set: for-loop not found")
    header = nxt[0].block
    acc_blocks = []
    for b in live:
        for s in fn.stmts(b):
            if s[0] == "=" and not s[1][1] and fn.local_name(s[1][0]) == "max_depth" and b != 0:
                if s[2][0] == "use" and re.match(r"^(Ord::max|cmp::max|u32::max)\(", fn.sym(s[2][1])):
                    acc_blocks.append(b)
    sel = [b for b in live if fn.switch_info(b) and fn.switch_info(b).get("kind") == "enum" and fn.switch_info(b)["adt"].endswith("executable::Selection")]
    if len(sel) != 1:
        raise AnchorError("check_selection_set: match on Selection not found")
    info = fn.switch_info(sel[0])
    # error returns are exempt: paths that reach a return
    for variant, start in sorted(info["edges"].items()):
        starts = [(variant, start)]
        if variant == "FragmentSpread":
            # exempt the `fragment not found -> continue` path: start after fragments.get() == Some
            g = [c for c in fn.live_calls() if re.search(r"IndexMap::<K, V, S>::get$|IndexMap<K, V, S>>::get$", c.name) and ".fragments" in fn.sym(c.args[0]) and c.block in fn.reachable_blocks([start])]
            if len(g) != 1:
                rep.fail("UNDECIDED rule=C25.ACC FragmentSpread arm: `document.fragments.get(..)` lookup not recognised")
                continue
            r = branch_on_enum_call(fn, g[0])
            if r is None:
                rep.fail("UNDECIDED rule=C25.ACC FragmentSpread arm: fragments.get() result not matched directly")
                continue
            inf2, _ = r
            some_t = inf2["edges"].get("Some", inf2["otherwise"])
            # memo lookup
            m = [c for c in fn.live_calls() if re.search(r"HashMap::<K, V, S, A>::get$", c.name) and c.block in fn.reachable_blocks([some_t])]
            if len(m) != 1:
                rep.fail("UNDECIDED rule=C25.ACC FragmentSpread arm: memo lookup not recognised")
                continue
            r2 = branch_on_enum_call(fn, m[0])
            if r2 is None:
                # the lookup result may pass through Option::copied / cloned / a named temporary
                # before it is matched: take the Option switch whose scrutinee derives from it
                cands = []
                for sb in sorted(fn.reachable_blocks([m[0].target or m[0].block])):
                    inf = fn.switch_info(sb)
                    if inf and inf.get("kind") == "enum" and inf["adt"].endswith("option::Option") and re.match(r"^\*?(Option::(copied|cloned)\()?HashMap::get\(&arg2, .*\)$", fn.sym(inf["place"])):
                        cands.append((inf, sb))
                if cands:
                    r2 = cands[0]
            if r2 is None:
                rep.fail("UNDECIDED rule=C25.ACC FragmentSpread arm: memo lookup result not matched directly")
                continue
            inf3, _ = r2
            hit = inf3["edges"].get("Some", inf3["otherwise"])
            miss = inf3["edges"].get("None", inf3["otherwise"])
            starts = [("FragmentSpread/memo-hit", hit), ("FragmentSpread/memo-miss", miss)]
        for label, st in starts:
            passed, leak = must_pass(fn, [st], [header], acc_blocks)
            if passed:
                rep.instance("C25.ACC", "%s arm: every path to the next iteration merges the sub-depth into max_depth" % label)
            else:
                rep.finding("C25.ACC", fn.name, "no-merge:" + label,
                            "the %s path reaches the next iteration without `max_depth = max_depth.max(..)`: the depth contributed by this selection is lost from the returned (and memoised) depth" % label, fn.loc())
    # ---- MEMO
    ins = [c for c in fn.live_calls() if re.search(r"HashMap::<K, V, S, A>::insert$", c.name)]
    if len(ins) != 1:
        raise AnchorError("check_selection_set: memo insert not found")
    v = fn.sym(ins[0].args[2])
    if re.match(r"^Sub\(.*check_selection_set\(&arg1, &arg2, arg3, .*\.as:Continue\.0, arg3\)(\.0)?$", v):
        rep.instance("C25.MEMO", "memo stores post_fragment_depth - depth_so_far (recursive call made at depth_so_far)")
    else:
        rep.finding("C25.MEMO", fn.name, "memo-store", "the memo does not store a depth relative to the spread point (stored: %s)" % v[:120], ins[0].loc())
    memo_reads = [a for (b, op, a, l) in cmps if "HashMap::get" in a]
    if memo_reads and all(re.match(r"^Add\(arg3, \*?(Option::(copied|cloned)\()?HashMap::get\(&arg2, .*\)(\.0)?$", a) for a in memo_reads):
        rep.instance("C25.MEMO", "memo is read as depth_so_far + memoised relative depth")
    else:
        rep.finding("C25.MEMO", fn.name, "memo-read", "the memoised depth is not added to depth_so_far when read (%s)" % [a[:80] for a in memo_reads], fn.loc())
    # the list-valued introspection fields: which field names lead to `depth += 1`.  Read on the
    # CFG with private helpers inlined (the name test may live in a predicate function): every
    # `str == "literal"` test of the field name whose true edge must pass the increment counts
    # that literal; a name that matches none of them must be able to skip the increment.
    from ..flow import branch_on_call, must_pass_cp, reachable_cp
    g = prog.inline(fn, keep=r"check_selection_set$")
    incs = set()
    for b in g.live_blocks():
        for st in g.stmts(b):
            if st[0] == "=" and st[2][0] == "bin" and st[2][1].startswith("Add"):
                cs = [op_const(o) for o in (st[2][2], st[2][3])]
                if any(c is not None and isinstance(c[2], dict) and c[2].get("int") == "1" for c in cs):
                    incs.add(b)
    gn = [c for c in g.live_calls() if re.search(r"Iterator>::next$|Iterator::next$", c.name)]
    exits = set(g.return_blocks()) | {c.block for c in gn}
    names, uncounted, true_targets = set(), set(), set()
    for c in g.live_calls():
        if not re.search(r"PartialEq.*::eq$", c.name) or len(c.args) != 2:
            continue
        syms = [g.sym(x) for x in c.args]
        lit = [re.search(r'"(\w+)"', x) for x in syms]
        if sum(1 for x in lit if x) != 1 or not any("as_str(" in x and ".name" in x for x in syms):
            continue
        word = [x.group(1) for x in lit if x][0]
        br = branch_on_call(g, c)
        if br is None:
            rep.fail("UNDECIDED rule=C25.CMP the result of comparing the field name with \"%s\" is not branched on directly" % word)
            continue
        t_true, t_false, _sw = br
        true_targets.add(t_true)
        if incs and must_pass_cp(g, [t_true], exits, incs)[0]:
            names.add(word)
        else:
            uncounted.add(word)
    gsel = [b for b in g.live_blocks() if g.switch_info(b) and g.switch_info(b).get("kind") == "enum" and g.switch_info(b)["adt"].endswith("executable::Selection")]
    skip_ok = False
    if len(gsel) == 1:
        fstart = g.switch_info(gsel[0])["edges"].get("Field")
        if fstart is not None:
            skip_ok = bool(reachable_cp(g, [fstart], avoid=true_targets | incs) & exits)
    want = {"fields", "interfaces", "possibleTypes", "inputFields"}
    if names == want and not uncounted and skip_ok:
        rep.instance("C25.CMP", "list-valued introspection fields counted: %s; any other field name skips the increment" % sorted(names))
    else:
        rep.finding("C25.CMP", fn.name, "list-fields", "the set of depth-counted fields is %s (compared but not counted: %s; other names skip the increment: %s), expected %s" % (sorted(names), sorted(uncounted), skip_ok, sorted(want)), fn.loc())
