"""C14 — Schema validation agrees with the specification (DESIGN.md C14).

Verdict equivalence with the reference implementation is NOT decidable by this family.  Decided:
C14.REGISTRY - every type-system validation rule of the October 2021 spec (section 3) has at least
one diagnostic of the matching kind constructed in a function reachable from the schema build /
validation entries and, where the rule concerns a particular kind of definition, through the
validator of that kind.  A rule with no reachable handler accepts every schema that breaks only
that rule.  This is the same necessary condition as C17.REGISTRY, for the type system.
C14.KINDGATE - a contradiction rule over the validators reachable from validate_schema: where a
referenced type name is resolved (schema.types.get / get_interface / get_object .., is_output_type,
is_input_type) and SOME way of failing to resolve to the required kind is reported within one loop
iteration, EVERY way of failing is (`not defined` and `defined but of another kind` alike), unless
the name is a built-in scalar that validate_schema inserts afterwards (record_type_ref).  A
validator that reports `undefined` but is silent on `wrong kind` accepts e.g. `type T implements
SomeObjectType`."""
import re

from ..core import AnchorError
from .C17 import construction_sites

CRATES = ["apollo_compiler"]
LEVEL = "other"
EXPLANATION = __doc__

V = "apollo_compiler::validation::"
B = "apollo_compiler::schema::from_ast::SchemaBuilder::"
REGISTRY = [
    ("3.3 Schema: a query root operation type must be provided", ["QueryRootOperationType"], V + "schema::validate_schema_definition"),
    ("3.3 Schema: root operation types must be object types", ["RootOperationObjectType"], None),
    ("3.3 Schema: root operation types must be distinct", ["DuplicateRootOperationType"], None),
    ("3.3 Schema: each root operation kind at most once", ["DuplicateRootOperation"], None),
    ("3.3 Schema: at most one schema definition", ["SchemaDefinitionCollision"], None),
    ("3.4 Types: type names are unique", ["TypeDefinitionCollision"], None),
    ("3.4 Types: built-in scalars are not redefined", ["BuiltInScalarTypeRedefinition"], None),
    ("3.4 Types / 3.13: names do not begin with `__`", ["ReservedName"], None),
    ("3.4.3 Extensions: an extension matches the kind of its definition", ["TypeExtensionKindMismatch"], None),
    ("3.4.3 Extensions: an extension has a definition to extend", ["OrphanTypeExtension", "OrphanSchemaExtension"], None),
    ("3.6 Objects: one or more fields", ["EmptyFieldSet"], V + "object::validate_object_type_definition"),
    ("3.6 Objects: field names unique", ["ObjectFieldNameCollision"], None),
    ("3.6 Objects: field types are output types", ["OutputType"], V + "field::validate_field_definitions"),
    ("3.6 Objects: field / argument types are defined", ["UndefinedDefinition"], V + "field::validate_field_definitions"),
    ("3.6.1 Arguments: names unique", ["UniqueInputValue"], V + "input_object::validate_argument_definitions"),
    ("3.6.1 Arguments: types are input types", ["InputType"], V + "input_object::validate_input_value_definitions"),
    ("3.6 Objects: an interface is implemented at most once", ["DuplicateImplementsInterfaceInObject"], None),
    ("3.6 Objects: implemented interfaces are defined interfaces", ["UndefinedDefinition"], V + "interface::validate_implements_interfaces"),
    ("3.6 Objects: transitively implemented interfaces are declared", ["TransitiveImplementedInterfaces"], V + "interface::validate_implements_interfaces"),
    ("3.6 IsValidImplementation: every interface field is present", ["MissingInterfaceField"], V + "object::validate_object_type_definition"),
    ("3.6 IsValidImplementation: field types are covariant", ["InvalidImplementationFieldType"], None),
    ("3.6 IsValidImplementation: interface arguments are present", ["MissingInterfaceFieldArgument"], None),
    ("3.6 IsValidImplementation: argument types are invariant", ["InvalidImplementationFieldArgumentType"], None),
    ("3.6 IsValidImplementation: additional arguments are not required", ["ExtraRequiredImplementationFieldArgument"], None),
    ("3.7 Interfaces: one or more fields", ["EmptyFieldSet"], V + "interface::validate_interface_definition"),
    ("3.7 Interfaces: field names unique", ["InterfaceFieldNameCollision"], None),
    ("3.7 Interfaces: an interface is implemented at most once", ["DuplicateImplementsInterfaceInInterface"], None),
    ("3.7 Interfaces: no interface implements itself", ["RecursiveInterfaceDefinition"], V + "interface::validate_interface_definition"),
    ("3.7 Interfaces: every implemented interface's field is present", ["MissingInterfaceField"], V + "interface::validate_interface_definition"),
    ("3.8 Unions: one or more members", ["EmptyMemberSet"], V + "union_::validate_union_definition"),
    ("3.8 Unions: members unique", ["UnionMemberNameCollision"], None),
    ("3.8 Unions: members are object types", ["UnionMemberObjectType"], V + "union_::validate_union_definition"),
    ("3.8 Unions: members are defined", ["UndefinedDefinition"], V + "union_::validate_union_definition"),
    ("3.9 Enums: one or more values", ["EmptyValueSet"], V + "enum_::validate_enum_definition"),
    ("3.9 Enums: values unique", ["EnumValueNameCollision"], None),
    ("3.10 Input objects: one or more fields", ["EmptyInputValueSet"], V + "input_object::validate_input_object_definition"),
    ("3.10 Input objects: field names unique", ["InputFieldNameCollision"], None),
    ("3.10 Input objects: field types are input types", ["InputType"], V + "input_object::validate_input_object_definition"),
    ("3.10 Input objects: no chain of non-null references back to itself", ["RecursiveInputObjectDefinition"], V + "input_object::validate_input_object_definition"),
    ("3.13 Directives: definitions unique", ["DirectiveDefinitionCollision"], None),
    ("3.13 Directives: a definition does not reference itself", ["RecursiveDirectiveDefinition"], V + "directive::validate_directive_definition"),
    ("3.13 Directives: applied directives are defined", ["UndefinedDirective"], V + "directive::validate_directives"),
    ("3.13 Directives: applied in a declared location", ["UnsupportedLocation"], V + "directive::validate_directives"),
    ("3.13 Directives: non-repeatable directives are applied once", ["UniqueDirective"], V + "directive::validate_directives"),
    ("3.13 Directives: arguments are defined", ["UndefinedArgument"], V + "directive::validate_directives"),
    ("3.13 Directives: required arguments are given", ["RequiredArgument"], V + "directive::validate_directives"),
    ("3.6.1 / 3.10 default values are of the declared type", ["UnsupportedValueType"], V + "input_object::validate_input_value_definitions"),
]


EXT = ("Scalar", "Object", "Interface", "Union", "Enum", "InputObject")
PUSH = r"DiagnosticList::push$"
RESOLVER = r"(get_interface|get_object|get_union|get_enum|get_scalar|get_input_object|IndexMap::<K, V, S>::get)@\d+"


def _neg_atoms(atoms):
    """the edge facts of a path that say: the referenced name did not resolve to the wanted kind"""
    out = []
    for f in atoms:
        if f[0] == "variant" and f[2] == "None" and re.search(RESOLVER + "$", f[1]):
            out.append(f)
        elif f[0] in ("variant", "variant_in") and re.search(r"IndexMap::<K, V, S>::get@\d+\.as:Some\.0$", f[1]):
            names = (f[2],) if f[0] == "variant" else f[2]
            if all(n in EXT for n in names) and len(names) >= 2:
                out.append(f)
        elif f[0] == "callbool" and re.search(r"is_(output|input)_type$", f[1]) and f[3] is False:
            out.append(f)
        elif f[0] == "callbool" and re.search(r"Option::<T>::is_some$", f[1]) and f[3] is False and re.search(RESOLVER, f[2][0] or ""):
            out.append(f)
        elif f[0] == "callbool" and re.search(r"Option::<T>::is_none$", f[1]) and f[3] is True and re.search(RESOLVER, f[2][0] or ""):
            out.append(f)
    return out


def rule_kindgate(prog, rep):
    rep.floor("C14.KINDGATE", 12)
    from ..core import Undecided
    from ..flow import _strip, loop_headers
    from ..tables import enum_paths
    vs = prog.fn(r"^apollo_compiler::schema::validation::validate_schema$")
    reach = prog.reachable([vs])
    for f0 in sorted(prog.fns.values(), key=lambda g: g.name):
        if f0.uid not in reach or f0.kind not in ("fn", "assoc_fn"):
            continue
        if not re.match(r"apollo_compiler::validation::(object|interface|union_|enum_|input_object|field|schema|scalar|argument)::", f0.name):
            continue
        f = prog.inline(f0, keep=PUSH + r"|record_type_ref$")
        hs = loop_headers(f)
        regions = [("loop@%d" % h, some, {h}) for h, (some, _none, _c) in sorted(hs.items())] + [("body", 0, set(hs.keys()))]
        pushes = set(c.block for c in f.live_calls() if re.search(PUSH, c.name))
        for label, start, stops in regions:
            try:
                ps = enum_paths(f, start=start, stops=stops, inner_loops="cut", max_paths=4000)
            except Undecided as e:
                rep.note("C14.KINDGATE: %s %s not enumerated (%s)" % (f0.name.split("::")[-1], label, str(e)[:60]))
                continue
            rows = []
            for atoms, _end, path in ps:
                st = _strip(atoms)
                na = _neg_atoms(st)
                if not na:
                    continue
                if any(x[0] == "callbool" and re.search(r"record_type_ref$", x[1]) and x[3] is True for x in st):
                    continue  # a built-in scalar that validate_schema inserts afterwards
                rows.append((na, bool(set(path) & pushes)))
            reporting = [r for r in rows if r[1]]
            silent = [r for r in rows if not r[1]]
            if not reporting:
                continue
            if silent:
                what = sorted(set("%s %s" % (a[1].split("::")[-1], a[2] if a[0] != "callbool" else a[3]) for r in silent for a in r[0]))
                rep.finding("C14.KINDGATE", f0.name, "silent-case:" + label.split("@")[0],
                            "a referenced type name that fails to resolve to the required kind is reported on %d path(s) but silently accepted on %d (%s): one way of being wrong (typically `defined, but of another kind`) passes validation" % (len(reporting), len(silent), "; ".join(what)[:200]), f0.loc())
            else:
                rep.instance("C14.KINDGATE", "%s %s: all %d ways of failing to resolve to the required kind report" % (f0.name.split("::")[-1], label, len(reporting)))


def run(prog, rep):
    rep.floor("C14.REGISTRY", 40)
    entries = [prog.fn(r"^apollo_compiler::schema::validation::validate_schema$"),
               prog.fn(r"^%sbuild_inner$" % re.escape(B)),
               prog.fn(r"^%sadd_ast_document_not_adding_sources$" % re.escape(B))]
    reach = prog.reachable(entries)
    sites = construction_sites(prog)
    if len(sites) < 60:
        raise AnchorError("only %d diagnostic variants have construction sites" % len(sites))
    cache = {}
    for rule, variants, via in REGISTRY:
        fns = set()
        for v in variants:
            fns |= sites.get(v, set())
        live = [u for u in fns if u in reach]
        if via is not None:
            if via not in cache:
                vf = prog.fns_matching("^" + re.escape(via) + "$")
                if len(vf) != 1:
                    raise AnchorError("validator %s not found" % via)
                if vf[0].uid not in reach:
                    rep.finding("C14.REGISTRY", via, "validator-unreachable", "%s is not reachable from schema validation" % via, vf[0].loc())
                cache[via] = prog.reachable(vf)
            live = [u for u in live if u in cache[via]]
        rep.obligation(bool(live))
        if live:
            rep.instance("C14.REGISTRY", "%s: %s constructed in %s" % (rule, "/".join(variants), ", ".join(sorted(set(prog.fns[u].name.split("::")[-1] for u in live)))[:80]))
        else:
            where = ("in a function reachable through %s" % via.split("::")[-1]) if via else "in a function reachable from schema build / validation"
            other = sorted(set(prog.fns[u].name.split("::")[-1] for u in fns))
            rep.finding("C14.REGISTRY", "spec:" + rule.split(":")[0], "no-handler:" + "/".join(variants) + ("@" + via.split("::")[-1] if via else ""),
                        "no diagnostic %s is constructed %s%s: a schema that breaks only `%s` validates" % (
                            "/".join(variants), where, (" (only constructed in %s)" % ", ".join(other)) if other else "", rule), None)
    rule_kindgate(prog, rep)
    # the input-object circular-reference rule follows exactly the non-null *named* references
    # (a list or a nullable link breaks the cycle): too few links accept invalid schemas, too many
    # reject valid ones.  Decided by C15.CYCLE, shared here because both directions are verdicts of
    # this property.
    from .C15 import rule_chain, rule_cycle, rule_kinds, rule_reserved, rule_rows
    rule_cycle(prog, rep)
    # `broken invariant => diagnostic` on the validators' own branch structure, the kind predicates
    # and the call chain from validate_schema are verdict conditions of this property as well
    rule_rows(prog, rep)
    rule_kinds(prog, rep)
    rule_chain(prog, rep)
    rule_reserved(prog, rep)
    # IsValidImplementationFieldType() is a schema validation verdict: its variant table
    # (decided by C29.IMPL) is a condition of this property and of C15 too
    from .C29 import rule_impl
    rule_impl(prog, rep)
    rep.note("presence of a handler per rule is a necessary condition only; agreement of verdicts with graphql-js is not decided")
